'''py2v: fail-closed translator from a restricted Python subset ("PyZ") to Gallina over the
dynamic value universe of coq/SF/PyDyn.v.

Anything outside the subset raises TranslateError; the caller records the obligation
"translation of <module>.<function>" as broken.  The mapping is 1:1 syntactic:

  x + y          -> py_add x y            x // y   -> py_floordiv x y     x % y -> py_mod x y
  x is None      -> py_is_none x          a or b   -> t = a; if t: pass else: t = b
  if c: A else B -> py_if c A B           (statements after an `if` are duplicated into both arms;
                                           conditional expressions and and/or are first hoisted into
                                           statements, see Normalizer)
  k.start        -> py_attr "start" k     slice(a,b,c) -> py_slice a b c
  x in CONST     -> py_in x CONST         (module-level constants are resolved from the module's AST)
  np.result_type -> py_result_type (oracle model SF.Dtype.np_result_type)
  try: return E except T: return H -> py_try E "T" H
  raise T(...)   -> PErr "T"
'''
import ast
import os
import re


class TranslateError(Exception):
    pass


def coq_str(s):
    if not all(32 <= ord(c) < 127 for c in s):
        raise TranslateError(f'non-ascii string constant {s!r}')
    return '"' + s.replace('"', '""') + '"'


def coq_z(z):
    return f'({z})' if z < 0 else str(z)


_BINOPS = {ast.Add: 'py_add', ast.Sub: 'py_sub', ast.Mult: 'py_mul',
           ast.FloorDiv: 'py_floordiv', ast.Mod: 'py_mod'}
_CMPOPS = {ast.Eq: 'py_eq', ast.NotEq: 'py_ne', ast.Lt: 'py_lt', ast.LtE: 'py_le',
           ast.Gt: 'py_gt', ast.GtE: 'py_ge'}

# np.dtype(<arg>) forms that may appear in module constants
_DTYPE_ARGS = {
    'object': 'DObj', 'bool': 'DBool', 'float': 'DFlt 8', 'int': 'DInt true 8', 'str': 'DStr 0',
    'complex': 'DCplx 16',
    'np.float64': 'DFlt 8', 'np.int64': 'DInt true 8', 'np.bool_': 'DBool', 'np.object_': 'DObj',
    'np.uint8': 'DInt false 1', 'np.float16': 'DFlt 2', 'np.float32': 'DFlt 4',
}


class Module:
    '''A parsed source module: functions and (lazily evaluated) module-level constants.'''

    def __init__(self, path):
        self.path = path
        with open(path) as f:
            self.src = f.read()
        self.tree = ast.parse(self.src)
        self.assigns = {}
        self.funcs = {}
        for node in self.tree.body:
            if isinstance(node, ast.Assign) and len(node.targets) == 1 and isinstance(node.targets[0], ast.Name):
                self.assigns[node.targets[0].id] = node.value
            elif isinstance(node, ast.AnnAssign) and isinstance(node.target, ast.Name) and node.value is not None:
                self.assigns[node.target.id] = node.value
            elif isinstance(node, ast.FunctionDef):
                self.funcs[node.name] = node
            elif isinstance(node, ast.ClassDef):
                for sub in node.body:
                    if isinstance(sub, ast.FunctionDef):
                        self.funcs[f'{node.name}.{sub.name}'] = sub
                    elif isinstance(sub, ast.Assign) and len(sub.targets) == 1 and isinstance(sub.targets[0], ast.Name):
                        self.assigns[f'{node.name}.{sub.targets[0].id}'] = sub.value

    def const(self, name, depth=0):
        '''Gallina text of a module-level constant, or TranslateError.'''
        if depth > 8:
            raise TranslateError(f'constant {name}: resolution too deep')
        if name not in self.assigns:
            raise TranslateError(f'unknown name {name}')
        return self.const_expr(self.assigns[name], depth + 1)

    def const_expr(self, node, depth=0):
        if isinstance(node, ast.Constant):
            return const_literal(node.value)
        if isinstance(node, ast.Tuple) or isinstance(node, ast.List):
            return '(PSeq [' + '; '.join(self.const_expr(e, depth) for e in node.elts) + '])'
        if isinstance(node, ast.Name):
            return self.const(node.id, depth)
        if isinstance(node, ast.UnaryOp) and isinstance(node.op, ast.USub) and isinstance(node.operand, ast.Constant) \
                and isinstance(node.operand.value, int):
            return f'(PInt {coq_z(-node.operand.value)})'
        text = ast.unparse(node)
        if isinstance(node, ast.Call) and ast.unparse(node.func) == 'slice' and 1 <= len(node.args) <= 3 and not node.keywords:
            args = [self.const_expr(a, depth) for a in node.args]
            if len(args) == 1:
                args = ['PNone', args[0], 'PNone']
            elif len(args) == 2:
                args = args + ['PNone']
            return f'(PSlice {args[0]} {args[1]} {args[2]})'
        if isinstance(node, ast.Call) and ast.unparse(node.func) == 'np.dtype' and len(node.args) == 1 and not node.keywords:
            arg = ast.unparse(node.args[0])
            if arg in _DTYPE_ARGS:
                return f'(PDtype ({_DTYPE_ARGS[arg]}))'
        if text in ('np.nan', 'np.NaN'):
            return '(PConst "nan")'
        if re.fullmatch(r"np\.datetime64\('nat'\)", text, flags=re.I):
            return '(PConst "NaT")'
        if re.fullmatch(r"np\.timedelta64\(0\)", text):
            return '(PConst "td0")'
        raise TranslateError(f'unsupported constant expression: {text}')


def const_literal(v):
    if v is None:
        return 'PNone'
    if v is True:
        return '(PBool true)'
    if v is False:
        return '(PBool false)'
    if isinstance(v, int):
        return f'(PInt {coq_z(v)})'
    if isinstance(v, str):
        return f'(PStr {coq_str(v)})'
    raise TranslateError(f'unsupported literal {v!r}')


class Normalizer:
    '''Hoist IfExp / BoolOp out of expressions into statements (A-normal form for tests), so that
    every test in the generated code is a statement-level py_if on a test-free expression.
    Sound for the pure kernels translated here: expressions have no side effects and a Python
    exception is a value (PErr) that an untaken branch simply discards.'''

    def __init__(self):
        self.n = 0

    def fresh(self):
        self.n += 1
        return f'tmp{self.n}'

    def expr(self, e):
        '''-> (pre_statements, test-free expression)'''
        if isinstance(e, ast.IfExp):
            pre, c = self.expr(e.test)
            t = self.fresh()
            pa, a = self.expr(e.body)
            pb, b = self.expr(e.orelse)
            st = ast.If(test=c, body=pa + [self.assign(t, a)], orelse=pb + [self.assign(t, b)])
            return pre + [st], ast.Name(id=t, ctx=ast.Load())
        if isinstance(e, ast.BoolOp):
            t = self.fresh()
            pre, first = self.expr(e.values[0])
            out = pre + [self.assign(t, first)]
            for v in e.values[1:]:
                pv, vv = self.expr(v)
                tn = ast.Name(id=t, ctx=ast.Load())
                if isinstance(e.op, ast.Or):
                    out.append(ast.If(test=tn, body=[], orelse=pv + [self.assign(t, vv)]))
                else:
                    out.append(ast.If(test=tn, body=pv + [self.assign(t, vv)], orelse=[]))
            return out, ast.Name(id=t, ctx=ast.Load())
        if isinstance(e, ast.BinOp) and isinstance(e.op, (ast.FloorDiv, ast.Mod)):
            # hoist the zero test of the divisor to statement level, so that no value of the
            # generated code contains an undecided test
            pl, left = self.expr(e.left)
            pr, right = self.expr(e.right)
            t = self.fresh()
            tn = lambda: ast.Name(id=t, ctx=ast.Load())
            guard = ast.If(test=ast.Compare(left=tn(), ops=[ast.Eq()], comparators=[ast.Constant(value=0)]),
                           body=[ast.Raise(exc=ast.Name(id='ZeroDivisionError', ctx=ast.Load()), cause=None)], orelse=[])
            fname = '__floordiv_nz' if isinstance(e.op, ast.FloorDiv) else '__mod_nz'
            call = ast.Call(func=ast.Name(id=fname, ctx=ast.Load()), args=[left, tn()], keywords=[])
            return pl + pr + [self.assign(t, right), guard], call
        pre = []
        for field, value in ast.iter_fields(e):
            if isinstance(value, ast.expr):
                p, v = self.expr(value)
                pre += p
                setattr(e, field, v)
            elif isinstance(value, list):
                new = []
                for item in value:
                    if isinstance(item, ast.expr):
                        p, v = self.expr(item)
                        pre += p
                        new.append(v)
                    else:
                        new.append(item)
                setattr(e, field, new)
        return pre, e

    def assign(self, name, value):
        return ast.Assign(targets=[ast.Name(id=name, ctx=ast.Store())], value=value)

    def stmts(self, body):
        out = []
        for s in body:
            if isinstance(s, ast.If):
                pre, t = self.expr(s.test)
                out += pre + [ast.If(test=t, body=self.stmts(s.body), orelse=self.stmts(s.orelse))]
            elif isinstance(s, ast.Return) and s.value is not None:
                pre, v = self.expr(s.value)
                out += pre + [ast.Return(value=v)]
            elif isinstance(s, ast.Assign):
                pre, v = self.expr(s.value)
                out += pre + [ast.Assign(targets=s.targets, value=v)]
            elif isinstance(s, ast.AnnAssign) and s.value is not None:
                pre, v = self.expr(s.value)
                out += pre + [ast.AnnAssign(target=s.target, annotation=s.annotation, value=v, simple=s.simple)]
            elif isinstance(s, ast.Try):
                if any(isinstance(x, (ast.IfExp, ast.BoolOp)) for b in s.body for x in ast.walk(b)):
                    raise TranslateError('test inside try body')
                s.handlers = [ast.ExceptHandler(type=h.type, name=h.name, body=self.stmts(h.body)) for h in s.handlers]
                out.append(s)
            else:
                out.append(s)
        return out


class FuncTranslator:
    def __init__(self, module, fn, coq_name, helpers=None):
        self.m = module
        self.fn = fn
        self.coq_name = coq_name
        self.helpers = helpers or {}   # python callee text -> coq function name
        self.params = [a.arg for a in fn.args.args if a.arg not in ('self', 'cls')]
        if fn.args.vararg or fn.args.kwarg:
            raise TranslateError('varargs unsupported')
        if fn.args.kwonlyargs:
            self.params += [a.arg for a in fn.args.kwonlyargs]
        self.locals = set(self.params)

    def ident(self, name):
        # avoid Gallina keywords / clashes
        return f'v_{name}'

    # ---------------------------------------------------------------- expressions
    def expr(self, n):
        if isinstance(n, ast.Constant):
            return const_literal(n.value)
        if isinstance(n, ast.Name):
            if n.id in self.locals:
                return self.ident(n.id)
            return self.m.const(n.id)
        if isinstance(n, ast.BinOp):
            op = _BINOPS.get(type(n.op))
            if op is None:
                raise TranslateError(f'operator {type(n.op).__name__}')
            return f'({op} {self.expr(n.left)} {self.expr(n.right)})'
        if isinstance(n, ast.UnaryOp):
            if isinstance(n.op, ast.Not):
                return f'(py_not {self.expr(n.operand)})'
            if isinstance(n.op, ast.USub):
                if isinstance(n.operand, ast.Constant) and isinstance(n.operand.value, int):
                    return f'(PInt {coq_z(-n.operand.value)})'
                return f'(py_neg {self.expr(n.operand)})'
            raise TranslateError(f'unary {type(n.op).__name__}')
        if isinstance(n, ast.BoolOp):
            raise TranslateError('internal: BoolOp not hoisted')
        if isinstance(n, ast.Compare):
            if len(n.ops) != 1:
                raise TranslateError('chained comparison')
            op, left, right = n.ops[0], n.left, n.comparators[0]
            rtext = ast.unparse(right)
            if isinstance(op, (ast.Is, ast.IsNot)):
                if isinstance(right, ast.Constant) and right.value is None:
                    f = 'py_is_none' if isinstance(op, ast.Is) else 'py_is_not_none'
                    return f'({f} {self.expr(left)})'
                if rtext == 'np.bool_' and isinstance(left, ast.Attribute) and left.attr == 'type':
                    e = f'(py_dtype_is_bool {self.expr(left.value)})'
                    return e if isinstance(op, ast.Is) else f'(py_not {e})'
                raise TranslateError(f'`is` against {rtext}')
            if isinstance(op, (ast.In, ast.NotIn)):
                e = f'(py_in {self.expr(left)} {self.expr(right)})'
                return e if isinstance(op, ast.In) else f'(py_not {e})'
            f = _CMPOPS.get(type(op))
            if f is None:
                raise TranslateError(f'comparison {type(op).__name__}')
            return f'({f} {self.expr(left)} {self.expr(right)})'
        if isinstance(n, ast.IfExp):
            raise TranslateError('internal: IfExp not hoisted')
        if isinstance(n, ast.Attribute):
            text = ast.unparse(n)
            if text in ('np.nan', 'np.NaN'):
                return '(PConst "nan")'
            if n.attr in ('start', 'stop', 'step', 'kind'):
                return f'(py_attr {coq_str(n.attr)} {self.expr(n.value)})'
            raise TranslateError(f'attribute {text}')
        if isinstance(n, ast.Subscript):
            return f'(py_index {self.expr(n.value)} {self.expr(n.slice)})'
        if isinstance(n, ast.Tuple):
            return '(PSeq [' + '; '.join(self.expr(e) for e in n.elts) + '])'
        if isinstance(n, ast.Call):
            if n.keywords:
                raise TranslateError('keyword arguments in call')
            f = ast.unparse(n.func)
            if isinstance(n.func, ast.Attribute) and n.func.attr == 'indices' and len(n.args) == 1:
                return f'(py_slice_indices {self.expr(n.func.value)} {self.expr(n.args[0])})'
            if f == 'isinstance' and len(n.args) == 2 and ast.unparse(n.args[1]) == 'np.dtype':
                return f'(py_isinstance_dtype {self.expr(n.args[0])})'
            args = [self.expr(a) for a in n.args]
            if f in ('__floordiv_nz', '__mod_nz') and len(args) == 2:
                return f'(py{f[1:]} {args[0]} {args[1]})'
            if f in ('abs', 'len') and len(args) == 1:
                return f'(py_{f} {args[0]})'
            if f in ('min', 'max') and len(args) == 2:
                return f'(py_{f} {args[0]} {args[1]})'
            if f == 'slice' and 1 <= len(args) <= 3:
                if len(args) == 1:
                    args = ['PNone', args[0], 'PNone']
                elif len(args) == 2:
                    args = args + ['PNone']
                return f'(py_slice {args[0]} {args[1]} {args[2]})'
            if f == 'np.result_type' and len(args) == 2:
                return f'(py_result_type {args[0]} {args[1]})'
            if f == 'isinstance' and len(n.args) == 2 and ast.unparse(n.args[1]) == 'np.dtype':
                return f'(py_isinstance_dtype {args[0]})'
            if f == 'np.dtype' and len(args) == 1:
                return f'(py_np_dtype {args[0]})'
            if f in self.helpers:
                return f'({self.helpers[f]} ' + ' '.join(args) + ')'
            raise TranslateError(f'call to {f}')
        raise TranslateError(f'expression {type(n).__name__}: {ast.unparse(n)}')

    # ---------------------------------------------------------------- statements
    def raise_expr(self, node):
        exc = node.exc
        if isinstance(exc, ast.Call):
            exc = exc.func
        if not isinstance(exc, ast.Name):
            raise TranslateError('raise of non-name')
        return f'(PErr {coq_str(exc.id)})'

    def assigned(self, stmts):
        out = set()
        for st in stmts:
            for n in ast.walk(st):
                if isinstance(n, ast.Assign):
                    for t in n.targets:
                        for e in ast.walk(t):
                            if isinstance(e, ast.Name):
                                out.add(e.id)
                elif isinstance(n, ast.AnnAssign) and n.value is not None and isinstance(n.target, ast.Name):
                    out.add(n.target.id)
        return out

    def terminates(self, stmts):
        if not stmts:
            return False
        last = stmts[-1]
        if isinstance(last, (ast.Return, ast.Raise)):
            return True
        if isinstance(last, ast.If):
            return self.terminates(last.body) and self.terminates(last.orelse)
        if isinstance(last, ast.Try):
            return self.terminates(last.body) and all(self.terminates(h.body) for h in last.handlers)
        return False

    def fallthrough(self, k):
        if k is None:
            return 'PNone'   # falling off the end of a function returns None
        name, ws = k
        if not ws:
            return f'({name} PNone)'
        return '(' + name + ' ' + ' '.join(self.ident(w) if w in self.locals else '(PErr "UnboundLocalError")' for w in ws) + ')'

    def block(self, stmts, k=None):
        '''Translate a statement list; k is the join point (name, variables) reached on fall-through.'''
        if not stmts:
            return self.fallthrough(k)
        s, rest = stmts[0], stmts[1:]
        if isinstance(s, ast.Expr) and isinstance(s.value, ast.Constant) and isinstance(s.value.value, str):
            return self.block(rest, k)  # docstring
        if isinstance(s, ast.Pass):
            return self.block(rest, k)
        if isinstance(s, ast.Return):
            return 'PNone' if s.value is None else self.expr(s.value)
        if isinstance(s, ast.Raise):
            return self.raise_expr(s)
        if isinstance(s, (ast.Assign, ast.AnnAssign)):
            if isinstance(s, ast.Assign):
                if len(s.targets) != 1:
                    raise TranslateError('multiple assignment targets')
                target = s.targets[0]
            else:
                target = s.target
                if s.value is None:
                    return self.block(rest, k)
            if isinstance(target, ast.Tuple) and all(isinstance(e, ast.Name) for e in target.elts):
                # a, b, c = e  ->  let t := e in let a := t[0] in ...
                value = self.expr(s.value)
                self._tmp = getattr(self, '_tmp', 0) + 1
                tmp = f'tup{self._tmp}'
                names = [e.id for e in target.elts]
                for nm in names:
                    self.locals.add(nm)
                inner = self.block(rest, k)
                for i, nm in reversed(list(enumerate(names))):
                    inner = f'(let {self.ident(nm)} := (py_unpack {len(names)} {tmp} {i}) in\n  {inner})'
                return f'(let {tmp} := {value} in\n  {inner})'
            if not isinstance(target, ast.Name):
                raise TranslateError('assignment to non-name')
            value = self.expr(s.value)
            self.locals.add(target.id)
            return f'(let {self.ident(target.id)} := {value} in\n  {self.block(rest, k)})'
        if isinstance(s, ast.If):
            test = self.expr(s.test)
            saved = set(self.locals)
            if not rest or (self.terminates(s.body) and self.terminates(s.orelse)):
                a = self.block(list(s.body), k)
                self.locals = set(saved)
                b = self.block(list(s.orelse), k)
                self.locals = saved
                return f'(py_if {test}\n  {a}\n  {b})'
            # join point: the statements after the `if` become a local function of the variables
            # the arms may assign
            ws = sorted(self.assigned(list(s.body) + list(s.orelse)))
            self._join = getattr(self, '_join', 0) + 1
            jname = f'join{self._join}'
            self.locals = saved | set(ws)
            rest_text = self.block(rest, k)
            self.locals = set(saved)
            a = self.block(list(s.body), (jname, ws))
            self.locals = set(saved)
            b = self.block(list(s.orelse), (jname, ws))
            self.locals = saved
            params = ' '.join(self.ident(w) for w in ws) if ws else '_'
            return (f'(let {jname} := (fun ({params} : pv) =>\n  {rest_text}) in\n'
                    f'  (py_if {test}\n  {a}\n  {b}))')
        if isinstance(s, ast.Try):
            if (len(s.body) == 1 and isinstance(s.body[0], ast.Return) and len(s.handlers) == 1
                    and isinstance(s.handlers[0].type, ast.Name) and not s.orelse and not s.finalbody):
                body = self.expr(s.body[0].value)
                h = self.block(list(s.handlers[0].body) + rest, k)
                return f'(py_try {body} {coq_str(s.handlers[0].type.id)} {h})'
            raise TranslateError('unsupported try form')
        raise TranslateError(f'statement {type(s).__name__}: {ast.unparse(s)[:60]}')

    def definition(self):
        import copy
        body = self.block(Normalizer().stmts(copy.deepcopy(list(self.fn.body))))
        params = ' '.join(self.ident(p) for p in self.params)
        sig = f'({params} : pv) ' if params else ''
        return f'Definition {self.coq_name} {sig}: pv :=\n  {body}.\n'


HEADER = '''(* GENERATED by tools/sfv/py2v.py from {src} -- do not edit; regenerated on every run. *)
Require Import SF.Prelude SF.PySlice SF.Dtype SF.PyDyn.
Local Open Scope string_scope.
Local Open Scope Z_scope.

'''


def translate_targets(repo, targets):
    '''targets: list of dicts {module, function|constant, coq}.  Returns
    (text_by_outfile: {outfile: text}, broken: [(target, reason)]).  A broken target gets no
    definition, so everything that depends on it fails to compile (fail closed).'''
    modules = {}
    out = {}
    broken = []
    for t in targets:
        path = os.path.join(repo, t['module'])
        outfile = t['out']
        out.setdefault(outfile, HEADER.format(src='/repo/' + '+'.join(sorted({x['module'] for x in targets if x['out'] == outfile}))))
        try:
            if path not in modules:
                modules[path] = Module(path)
            m = modules[path]
            if 'constant' in t:
                text = f'Definition {t["coq"]} : pv := {m.const(t["constant"])}.\n'
            else:
                if t['function'] not in m.funcs:
                    raise TranslateError(f'function {t["function"]} not found')
                ft = FuncTranslator(m, m.funcs[t['function']], t['coq'], helpers=t.get('helpers'))
                text = ft.definition()
            out[outfile] += f'(* {t["module"]}: {t.get("function") or t.get("constant")} *)\n{text}\n'
        except (TranslateError, SyntaxError, OSError) as e:
            broken.append((t, f'{type(e).__name__}: {e}'))
            out[outfile] += f'(* BROKEN translation of {t.get("function") or t.get("constant")}: {e} *)\n\n'
    return out, broken
