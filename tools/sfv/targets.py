'''Translator targets: which functions/constants of /repo are regenerated into coq/Gen on every run.'''
import os
from . import py2v

U = 'static_frame/core/util.py'
TB = 'static_frame/core/type_blocks.py'

TARGETS = [
    # constants first (functions may refer to them through the module's own AST anyway)
    {'module': U, 'constant': 'DTYPE_STR_KINDS', 'coq': 'DTYPE_STR_KINDS', 'out': 'Gen/Gen_util.v'},
    {'module': U, 'constant': 'DTYPE_INT_KINDS', 'coq': 'DTYPE_INT_KINDS', 'out': 'Gen/Gen_util.v'},
    {'module': U, 'constant': 'DTYPE_INEXACT_KINDS', 'coq': 'DTYPE_INEXACT_KINDS', 'out': 'Gen/Gen_util.v'},
    {'module': U, 'constant': 'DTYPE_NAT_KINDS', 'coq': 'DTYPE_NAT_KINDS', 'out': 'Gen/Gen_util.v'},
    {'module': U, 'constant': 'DEFAULT_SORT_KIND', 'coq': 'DEFAULT_SORT_KIND', 'out': 'Gen/Gen_util.v'},
    {'module': U, 'constant': 'DEFAULT_STABLE_SORT_KIND', 'coq': 'DEFAULT_STABLE_SORT_KIND', 'out': 'Gen/Gen_util.v'},
    {'module': U, 'function': 'slice_to_ascending_slice', 'coq': 'slice_to_ascending_slice', 'out': 'Gen/Gen_util.v'},
    {'module': U, 'function': 'slice_to_inclusive_slice', 'coq': 'slice_to_inclusive_slice', 'out': 'Gen/Gen_util.v'},
    {'module': U, 'function': 'resolve_dtype', 'coq': 'resolve_dtype', 'out': 'Gen/Gen_util.v'},
    {'module': U, 'function': 'dtype_kind_to_na', 'coq': 'dtype_kind_to_na', 'out': 'Gen/Gen_util.v'},
    {'module': U, 'function': 'dtype_to_fill_value', 'coq': 'dtype_to_fill_value', 'out': 'Gen/Gen_util.v'},
    {'module': TB, 'function': 'TypeBlocks._cols_to_slice', 'coq': 'cols_to_slice', 'out': 'Gen/Gen_type_blocks.v'},
]


def prop_modules():
    '''Import every tools/sfv/props/cXX.py; returns [(pid, module_or_None, error_or_None)].'''
    import importlib
    out = []
    d = os.path.join(os.path.dirname(os.path.abspath(__file__)), 'props')
    for name in sorted(os.listdir(d)):
        if len(name) == 6 and name.startswith('c') and name.endswith('.py') and name[1:3].isdigit():
            pid = name[:3].upper()
            try:
                out.append((pid, importlib.import_module(f'sfv.props.{name[:-3]}'), None))
            except Exception as e:  # noqa -- a broken module of another property must not break this run
                out.append((pid, None, f'{type(e).__name__}: {e}'))
    return out


def regenerate(repo, coq_dir):
    '''Rewrite coq/Gen/*.v from the current source; returns the list of broken targets [(target, reason)].

    Sources of generated files:
      * the shared TARGETS above (py2v) -> Gen/Gen_util.v, Gen/Gen_type_blocks.v
      * per property module: an optional literal `TARGETS` list (py2v, `out` must be Gen/Gen_cXX*.v) and an optional
        function `generate(repo) -> {relative .v path under coq/: text}` (a custom fail-closed extractor; it raises when
        the source no longer has the expected shape).  A failure is attributed to its owner property.'''
    from .core import write_if_changed
    all_targets = [dict(t, owner=None) for t in TARGETS]
    mods = prop_modules()
    for pid, mod, err in mods:
        if mod is not None:
            for t in getattr(mod, 'TARGETS', ()):
                all_targets.append(dict(t, owner=pid))
    texts, broken = py2v.translate_targets(repo, all_targets)
    for pid, mod, err in mods:
        if mod is None:
            continue
        gen = getattr(mod, 'generate', None)
        if gen is None:
            continue
        try:
            if os.environ.get('VERIF_TEST_BREAK_GEN') == pid:   # self-test of the fail-closed path (tools/test_break_gen.py)
                raise RuntimeError('VERIF_TEST_BREAK_GEN: simulated change of the source shape')
            for rel, text in gen(repo).items():
                if not rel.startswith('Gen/'):
                    raise ValueError(f'generate() of {pid} writes outside Gen/: {rel}')
                texts[rel] = text
        except Exception as e:  # noqa
            # fail closed: whatever this hook generated last time must not survive (list it in GENERATED_FILES)
            for rel in getattr(mod, 'GENERATED_FILES', ()):
                if rel.startswith('Gen/'):
                    texts[rel] = f'(* BROKEN: generate() of {pid} failed: {type(e).__name__}: {str(e)[:300]} *)\n'
            broken.append(({'coq': f'{pid}.generate', 'module': f'props/{pid.lower()}.py', 'function': 'generate', 'owner': pid},
                           f'{type(e).__name__}: {e}'))
    for out, text in texts.items():
        write_if_changed(os.path.join(coq_dir, out), text)
    return broken
