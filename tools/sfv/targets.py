'''Translator targets: which functions/constants of /repo are regenerated into coq/Gen on every run.'''
import os
from . import py2v

U = 'static_frame/core/util.py'
TB = 'static_frame/core/type_blocks.py'

TARGETS = [
    # constants first (functions may refer to them through the module's own AST anyway)
    {'module': U, 'constant': 'DTYPE_STR_KINDS', 'coq': 'DTYPE_STR_KINDS', 'out': 'Gen/Gen_util.v'},
    {'module': U, 'constant': 'DTYPE_INT_KINDS', 'coq': 'DTYPE_INT_KINDS', 'out': 'Gen/Gen_util.v'},
    {'module': U, 'constant': 'DTYPE_INEXACT_KINDS', 'coq': 'DTYPE_INEXACT_KINDS', 'out': 'Gen/Gen_util.v'},
    {'module': U, 'constant': 'DTYPE_NAT_KINDS', 'coq': 'DTYPE_NAT_KINDS', 'out': 'Gen/Gen_util.v'},
    {'module': U, 'constant': 'DEFAULT_SORT_KIND', 'coq': 'DEFAULT_SORT_KIND', 'out': 'Gen/Gen_util.v'},
    {'module': U, 'constant': 'DEFAULT_STABLE_SORT_KIND', 'coq': 'DEFAULT_STABLE_SORT_KIND', 'out': 'Gen/Gen_util.v'},
    {'module': U, 'function': 'slice_to_ascending_slice', 'coq': 'slice_to_ascending_slice', 'out': 'Gen/Gen_util.v'},
    {'module': U, 'function': 'slice_to_inclusive_slice', 'coq': 'slice_to_inclusive_slice', 'out': 'Gen/Gen_util.v'},
    {'module': U, 'function': 'resolve_dtype', 'coq': 'resolve_dtype', 'out': 'Gen/Gen_util.v'},
    {'module': U, 'function': 'dtype_kind_to_na', 'coq': 'dtype_kind_to_na', 'out': 'Gen/Gen_util.v'},
    {'module': U, 'function': 'dtype_to_fill_value', 'coq': 'dtype_to_fill_value', 'out': 'Gen/Gen_util.v'},
    {'module': TB, 'function': 'TypeBlocks._cols_to_slice', 'coq': 'cols_to_slice', 'out': 'Gen/Gen_type_blocks.v'},
]


def regenerate(repo, coq_dir):
    '''Rewrite coq/Gen/*.v from the current source; returns the list of broken targets.'''
    from .core import write_if_changed
    texts, broken = py2v.translate_targets(repo, TARGETS)
    for out, text in texts.items():
        write_if_changed(os.path.join(coq_dir, out), text)
    return broken
