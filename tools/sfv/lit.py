'''Python values -> Gallina literals.'''
import numpy as np


def z(v):
    v = int(v)
    return f'({v})' if v < 0 else str(v)


def s(text):
    if not all(32 <= ord(c) < 127 for c in text):
        raise ValueError(f'non-ascii/unprintable string {text!r}')
    return '"' + text.replace('"', '""') + '"'


def lst(items):
    return '[' + '; '.join(items) + ']'


def oz(v):
    return 'None' if v is None else f'(Some {z(v)})'


def b(v):
    return 'true' if v else 'false'


def slice_(k):
    return f'(mk_slice {oz(k.start)} {oz(k.stop)} {oz(k.step)})'


_UNITS = {'generic': 'UGen', 'Y': 'UY', 'M': 'UM', 'W': 'UW', 'D': 'UD', 'h': 'Uh', 'm': 'Um', 's': 'Us',
          'ms': 'Ums', 'us': 'Uus', 'ns': 'Uns'}


def dtype(dt):
    dt = np.dtype(dt)
    k = dt.kind
    if k == 'b':
        return 'DBool'
    if k == 'i':
        return f'(DInt true {dt.itemsize})'
    if k == 'u':
        return f'(DInt false {dt.itemsize})'
    if k == 'f':
        return f'(DFlt {dt.itemsize})'
    if k == 'c':
        return f'(DCplx {dt.itemsize})'
    if k == 'U':
        return f'(DStr {dt.itemsize // 4})'
    if k == 'S':
        return f'(DBytes {dt.itemsize})'
    if k in 'Mm':
        unit = np.datetime_data(dt)[0]
        if unit not in _UNITS or np.datetime_data(dt)[1] != 1:
            raise ValueError(f'unit {unit} outside the model')
        return f'({"DDt" if k == "M" else "DTd"} {_UNITS[unit]})'
    if k == 'O':
        return 'DObj'
    raise ValueError(f'dtype {dt} outside the model')


def pv(v):
    '''Python value -> SF.PyDyn.pv literal.'''
    if v is None:
        return 'PNone'
    if isinstance(v, (bool, np.bool_)):
        return f'(PBool {b(v)})'
    if isinstance(v, (int, np.integer)) and not isinstance(v, np.timedelta64):   # np.timedelta64 subclasses np.integer
        return f'(PInt {z(v)})'
    if isinstance(v, str):
        return f'(PStr {s(v)})'
    if isinstance(v, slice):
        return f'(PSlice {pv(v.start)} {pv(v.stop)} {pv(v.step)})'
    if isinstance(v, (tuple, list)):
        return '(PSeq ' + lst([pv(x) for x in v]) + ')'
    if isinstance(v, np.dtype):
        return f'(PDtype {dtype(v)})'
    if isinstance(v, float) and v != v:
        return '(PConst "nan")'
    if isinstance(v, np.datetime64) and np.isnat(v):
        return '(PConst "NaT")'
    if isinstance(v, np.timedelta64) and v == np.timedelta64(0):
        return '(PConst "td0")'
    if isinstance(v, BaseException):
        return f'(PErr {s(type(v).__name__)})'
    raise ValueError(f'no pv literal for {v!r}')


def pv_call(fn, *args):
    '''Run fn; map an exception to its class (the model's PErr).'''
    try:
        return pv(fn(*args))
    except Exception as e:  # noqa
        return f'(PErr {s(type(e).__name__)})'


# ------------------------------------------------------------------ SF.Value literals
import datetime as _dt
import math as _math


def val(v):
    '''Python / NumPy scalar (cell or label) -> SF.Value.val literal. Raises ValueError outside the model.'''
    if v is None:
        return 'VNone'
    if isinstance(v, (bool, np.bool_)):
        return f'(VBool {b(v)})'
    if isinstance(v, (int, np.integer)) and not isinstance(v, np.timedelta64):   # np.timedelta64 subclasses np.integer
        return f'(VInt {z(v)})'
    if isinstance(v, (float, np.floating)):
        f = float(v)
        if f != f:
            return 'VNaN'
        if _math.isinf(f):
            return f'(VInf {b(f < 0)})'
        n, d = f.as_integer_ratio()
        return f'(VFlt {z(n)} {z(d)})'
    if isinstance(v, (str, np.str_)):
        return f'(VStr {s(str(v))})'
    if isinstance(v, (bytes, np.bytes_)):
        return f'(VBytes {s(bytes(v).decode("ascii"))})'
    if isinstance(v, np.datetime64):
        if np.isnat(v):
            return 'VNaT'
        unit = np.datetime_data(v.dtype)[0]
        return f'(VDt {_UNITS[unit]} {z(v.astype("int64"))})'
    if isinstance(v, np.timedelta64):
        if np.isnat(v):
            return 'VNaT'
        unit = np.datetime_data(v.dtype)[0]
        return f'(VTd {_UNITS[unit]} {z(v.astype("int64"))})'
    if isinstance(v, _dt.date) and not isinstance(v, _dt.datetime):
        return f'(VDt UD {z((v - _dt.date(1970, 1, 1)).days)})'
    if isinstance(v, (tuple, list)):
        return '(VTup ' + lst([val(x) for x in v]) + ')'
    if type(v) is object:
        # a bare object() is only ever a private sentinel of the library; no model output equals this literal,
        # so a sentinel leaking into a result is reported as a disagreement instead of crashing the harness
        return '(VTup [VStr "<bare object() sentinel>"])'
    raise ValueError(f'no val literal for {type(v).__name__} {v!r}')


def vlist(items):
    return lst([val(x) for x in items])


def labels(index):
    '''Labels of a static-frame index as Python values (tuples for hierarchical).'''
    if getattr(index, 'depth', 1) > 1:
        return [tuple(x) for x in index.__iter__()]
    return list(index.values.tolist()) if index.values.dtype.kind not in 'Mm' else list(index.values)


def array_vals(a):
    '''1-D ndarray -> list of Python/NumPy scalars preserving the element class.'''
    if a.dtype.kind in 'Mm':
        return list(a)
    return a.tolist()


def oseries(sr):
    return (f'(mk_oseries {vlist(labels(sr.index))} {vlist(array_vals(sr.values))} {dtype(sr.dtype)} {val(sr.name)})')


def oframe(fr):
    cols = []
    for j in range(fr.shape[1]):
        a = fr._blocks._extract_array_column(j) if hasattr(fr._blocks, '_extract_array_column') else fr.iloc[:, j].values
        cols.append(f'({dtype(a.dtype)}, {vlist(array_vals(a))})')
    return f'(mk_oframe {vlist(labels(fr.index))} {vlist(labels(fr.columns))} {lst(cols)} {val(fr.name)})'


ERR_CLASSES = {
    'KeyError': 'KeyError', 'IndexError': 'IndexError', 'ValueError': 'ValueError', 'TypeError': 'TypeError',
    'ErrorInitIndex': 'ErrorInitIndex', 'ErrorInitFrame': 'ErrorInitFrame', 'ErrorInitSeries': 'ErrorInitSeries',
    'ErrorInitTypeBlocks': 'ErrorInitTypeBlocks', 'LocEmpty': 'KeyError', 'LocInvalid': 'KeyError',
    'ErrorInitIndexLevel': 'ErrorInitIndex', 'ErrorInitIndexNonUnique': 'ErrorInitIndex',
    'ErrorInitBus': 'ErrorInitBus', 'StoreFileMutation': 'StoreFileMutation', 'NotImplementedError': 'NotImplementedError',
    'ZeroDivisionError': 'ZeroDivisionError', 'AxisInvalid': 'AxisInvalid', 'RuntimeError': 'RuntimeError',
    'AttributeError': 'AttributeError', 'OverflowError': 'OverflowError',
}


def err_class(e):
    '''Exception -> small enum string (the model's Err e).'''
    for cls in type(e).__mro__:
        if cls.__name__ in ERR_CLASSES:
            return ERR_CLASSES[cls.__name__]
    return type(e).__name__


def res(fn, printer):
    '''Run fn(); print its result with `printer` as (Ok lit) or the exception as (Err "cls"). Returns (text, value_or_exc).'''
    try:
        out = fn()
    except Exception as e:  # noqa
        return f'(Err {s(err_class(e))})', e
    return f'(Ok {printer(out)})', out
