'''Python values -> Gallina literals.'''
import numpy as np


def z(v):
    v = int(v)
    return f'({v})' if v < 0 else str(v)


def s(text):
    if not all(32 <= ord(c) < 127 for c in text):
        raise ValueError(f'non-ascii/unprintable string {text!r}')
    return '"' + text.replace('"', '""') + '"'


def lst(items):
    return '[' + '; '.join(items) + ']'


def oz(v):
    return 'None' if v is None else f'(Some {z(v)})'


def b(v):
    return 'true' if v else 'false'


def slice_(k):
    return f'(mk_slice {oz(k.start)} {oz(k.stop)} {oz(k.step)})'


_UNITS = {'generic': 'UGen', 'Y': 'UY', 'M': 'UM', 'W': 'UW', 'D': 'UD', 'h': 'Uh', 'm': 'Um', 's': 'Us',
          'ms': 'Ums', 'us': 'Uus', 'ns': 'Uns'}


def dtype(dt):
    dt = np.dtype(dt)
    k = dt.kind
    if k == 'b':
        return 'DBool'
    if k == 'i':
        return f'(DInt true {dt.itemsize})'
    if k == 'u':
        return f'(DInt false {dt.itemsize})'
    if k == 'f':
        return f'(DFlt {dt.itemsize})'
    if k == 'c':
        return f'(DCplx {dt.itemsize})'
    if k == 'U':
        return f'(DStr {dt.itemsize // 4})'
    if k == 'S':
        return f'(DBytes {dt.itemsize})'
    if k in 'Mm':
        unit = np.datetime_data(dt)[0]
        if unit not in _UNITS or np.datetime_data(dt)[1] != 1:
            raise ValueError(f'unit {unit} outside the model')
        return f'({"DDt" if k == "M" else "DTd"} {_UNITS[unit]})'
    if k == 'O':
        return 'DObj'
    raise ValueError(f'dtype {dt} outside the model')


def pv(v):
    '''Python value -> SF.PyDyn.pv literal.'''
    if v is None:
        return 'PNone'
    if isinstance(v, (bool, np.bool_)):
        return f'(PBool {b(v)})'
    if isinstance(v, (int, np.integer)):
        return f'(PInt {z(v)})'
    if isinstance(v, str):
        return f'(PStr {s(v)})'
    if isinstance(v, slice):
        return f'(PSlice {pv(v.start)} {pv(v.stop)} {pv(v.step)})'
    if isinstance(v, (tuple, list)):
        return '(PSeq ' + lst([pv(x) for x in v]) + ')'
    if isinstance(v, np.dtype):
        return f'(PDtype {dtype(v)})'
    if isinstance(v, float) and v != v:
        return '(PConst "nan")'
    if isinstance(v, np.datetime64) and np.isnat(v):
        return '(PConst "NaT")'
    if isinstance(v, np.timedelta64) and v == np.timedelta64(0):
        return '(PConst "td0")'
    if isinstance(v, BaseException):
        return f'(PErr {s(type(v).__name__)})'
    raise ValueError(f'no pv literal for {v!r}')


def pv_call(fn, *args):
    '''Run fn; map an exception to its class (the model's PErr).'''
    try:
        return pv(fn(*args))
    except Exception as e:  # noqa
        return f'(PErr {s(type(e).__name__)})'
