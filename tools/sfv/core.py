'''Harness core: translate -> prove -> correspond -> search/report -> evidence.

One check run for property Cxx (see DESIGN.md section 1):
  1. regenerate coq/Gen/*.v from the current /repo working tree (py2v, fail closed)
  2. make the Coq development (full .vo) and re-run coqc on Properties/Cxx.v to collect
     `Print Assumptions` for every property theorem
  3. run the implementation on generated cases, emit cases_*.v evaluating the model M and the
     specification S inside Coq (vm_compute) against the implementation's observed output
  4. classify, filter known findings, write replays, print VIOLATION lines
  5. write evidence/<id>.json
'''
import fcntl
import hashlib
import json
import os
import random
import re
import shutil
import subprocess
import sys
import time
import traceback
from concurrent.futures import ThreadPoolExecutor

VERIF = os.path.dirname(os.path.dirname(os.path.dirname(os.path.abspath(__file__))))
COQ = os.path.join(VERIF, 'coq')
REPO = os.environ.get('SF_REPO', '/repo')
EVIDENCE = os.path.join(VERIF, 'evidence')
REPLAYS = os.path.join(EVIDENCE, 'replays')
KNOWN = os.path.join(VERIF, 'KNOWN_FINDINGS.jsonl')
NCPU = min(16, os.cpu_count() or 4)
CASE_JOBS = int(os.environ.get('VERIF_CASE_JOBS', '8'))   # concurrent coqc processes evaluating case shards (each may need ~0.7 GB)

COQ_FLAGS = ['-Q', 'SF', 'SF', '-Q', 'Gen', 'Gen', '-Q', 'Proofs', 'Proofs',
             '-Q', 'Properties', 'Properties', '-Q', 'Refuted', 'Refuted',
             '-w', '-notation-overridden,-deprecated-hint-without-locality,-deprecated-syntactic-definition']

# axioms of Coq's own standard library that a theorem may depend on (named in the trusted base)
STDLIB_AXIOMS = {
    'functional_extensionality_dep', 'Classical_Prop.classic', 'classic',
    'ProofIrrelevance.proof_irrelevance', 'proof_irrelevance', 'Eqdep.Eq_rect_eq.eq_rect_eq',
    'JMeq_eq', 'JMeq.JMeq_eq', 'propositional_extensionality',
}

BASE_TRUSTED = [
    'Coq 8.16.1 kernel (coqc); vm_compute used for evaluating cases and Refuted/ witnesses; native_compute not used',
    'tools/sfv/py2v.py translator (Python ast -> Gallina over SF/PyDyn.v), validated each run by translation validation on exhaustive small grids',
    'hand-written implementation models coq/SF/*.v (M_*): modelled, not verified; tied to /repo by the correspondence cases of this run',
    'correspondence harness tools/sfv (generators, canonicaliser, literal printer, comparer, known-findings matcher)',
    'oracle models of NumPy/CPython behaviour named in this check (see assumptions)',
]


def _limits():
    # a runaway proof search must die instead of eating the machine (a coqc once reached 58 GB)
    import resource
    gb = int(os.environ.get('VERIF_COQ_MEM_GB', '10'))
    resource.setrlimit(resource.RLIMIT_AS, (gb << 30, gb << 30))


class MachineryError(Exception):
    '''The checking machinery itself failed (exit 2, no VIOLATION line).'''


# --------------------------------------------------------------------------- cases
class Case:
    __slots__ = ('cid', 'kind', 'tags', 'desc', 'm', 's', 'py_fail', 'nontrivial', 'key', 'imports', 'origin')

    def __init__(self, kind, desc, m=None, s=None, py_fail=None, tags=None, nontrivial=True, key=None):
        self.cid = None
        self.kind = kind            # stratum name, e.g. 'kernel:slice_to_ascending_slice', 'api:assign.iloc'
        self.desc = desc            # JSON-able description sufficient to replay on the implementation
        self.m = m                  # Coq bool term: implementation-model output == observed output
        self.s = s                  # Coq bool term: specification output == observed output
        self.py_fail = py_fail      # str: violation decided on the Python side (observation of the impl itself)
        self.tags = tags or {}
        self.nontrivial = nontrivial
        self.key = key if key is not None else json.dumps(desc, sort_keys=True, default=str)
        self.origin = None          # (seed, scale) of the Context that generated it


# --------------------------------------------------------------------------- coq build
def _lock():
    os.makedirs(COQ, exist_ok=True)
    f = open(os.path.join(COQ, '.build.lock'), 'w')
    fcntl.flock(f, fcntl.LOCK_EX)
    return f


def write_if_changed(path, text):
    try:
        with open(path) as f:
            if f.read() == text:
                return False
    except OSError:
        pass
    os.makedirs(os.path.dirname(path), exist_ok=True)
    with open(path, 'w') as f:
        f.write(text)
    return True


def coq_sources():
    out = []
    for d in ('SF', 'Gen', 'Proofs', 'Properties', 'Refuted'):
        p = os.path.join(COQ, d)
        if os.path.isdir(p):
            for name in sorted(os.listdir(p)):
                if name.endswith('.v'):
                    out.append(f'{d}/{name}')
    return out


def gen_coqproject():
    with open(os.path.join(COQ, '_CoqProject.head')) as f:
        head = f.read()
    text = head + '\n'.join(coq_sources()) + '\n'
    changed = write_if_changed(os.path.join(COQ, '_CoqProject'), text)
    if changed or not os.path.exists(os.path.join(COQ, 'Makefile')):
        subprocess.run(['coq_makefile', '-f', '_CoqProject', '-o', 'Makefile'], cwd=COQ, check=True,
                       stdout=subprocess.DEVNULL, stderr=subprocess.DEVNULL)


def make_targets(targets, timeout=1500):
    '''Build the given .vo targets (and what they depend on). Returns (ok, log).'''
    cmd = ['make', '-k', f'-j{NCPU}'] + targets
    for attempt in (0, 1):
        gen_coqproject()
        try:
            p = subprocess.run(cmd, cwd=COQ, stdout=subprocess.PIPE, stderr=subprocess.STDOUT, text=True, timeout=timeout, preexec_fn=_limits)
        except subprocess.TimeoutExpired as e:
            return False, f'make timed out after {timeout}s\n' + (e.stdout or '')
        if p.returncode != 0 and attempt == 0 and ('.Makefile.d' in p.stdout or 'No such file or directory' in p.stdout):
            # the file list changed under us (a source file was added/removed since _CoqProject was written): regenerate and retry once
            for stale in ('_CoqProject', '.Makefile.d'):
                try:
                    os.remove(os.path.join(COQ, stale))
                except OSError:
                    pass
            continue
        break
    return p.returncode == 0, p.stdout


def coqc_file(relpath, timeout=600):
    cmd = ['coqc'] + COQ_FLAGS + [relpath]
    try:
        p = subprocess.run(cmd, cwd=COQ, stdout=subprocess.PIPE, stderr=subprocess.STDOUT, text=True, timeout=timeout, preexec_fn=_limits)
    except subprocess.TimeoutExpired:
        return 124, f'coqc {relpath} timed out'
    return p.returncode, p.stdout


_THEOREM_RE = re.compile(r'^\s*(?:Theorem|Lemma|Corollary|Example)\s+([A-Za-z0-9_\']+)', re.M)


def theorem_names(relpath):
    try:
        with open(os.path.join(COQ, relpath)) as f:
            return _THEOREM_RE.findall(f.read())
    except OSError:
        return []


def parse_assumptions(output):
    '''Split coqc output into one entry per `Print Assumptions`: ("closed", []) or ("axioms", [names]).'''
    entries = []
    lines = output.splitlines()
    i = 0
    while i < len(lines):
        ln = lines[i]
        if ln.startswith('Closed under the global context'):
            entries.append(('closed', []))
        elif ln.startswith('Axioms:'):
            names = []
            i += 1
            while i < len(lines) and lines[i] and not lines[i].startswith(('Closed under', 'Axioms:')):
                m = re.match(r'^([A-Za-z_][A-Za-z0-9_\.\']*)\s*:', lines[i])
                if m:
                    names.append(m.group(1))
                i += 1
            entries.append(('axioms', names))
            continue
        i += 1
    return entries


def run_coqchk(prop_files, timeout=900):
    mods = [p[:-2].replace('/', '.') for p in prop_files]
    cmd = ['coqchk', '-o', '-silent', '-Q', 'SF', 'SF', '-Q', 'Gen', 'Gen', '-Q', 'Proofs', 'Proofs',
           '-Q', 'Properties', 'Properties', '-Q', 'Refuted', 'Refuted'] + mods
    try:
        p = subprocess.run(cmd, cwd=COQ, stdout=subprocess.PIPE, stderr=subprocess.STDOUT, text=True, timeout=timeout, preexec_fn=_limits)
    except subprocess.TimeoutExpired:
        return {'ok': None, 'note': f'coqchk timed out after {timeout}s', 'axioms': []}
    out = p.stdout
    axioms = []
    m = re.search(r'\* Axioms:(.*?)\n\s*\n\* Constants/Inductives relying on type-in-type', out, re.S)
    if m and '<none>' not in m.group(1):
        axioms = [ln.strip() for ln in m.group(1).splitlines() if ln.strip()]
    flags = {}
    for label in ('type-in-type', 'unsafe (co)fixpoints', 'positivity is assumed'):
        mm = re.search(re.escape(label) + r':\s*(.*)', out)
        flags[label] = (mm.group(1).strip() if mm else '?')
    ok = p.returncode == 0 and all(v == '<none>' for v in flags.values())
    return {'ok': ok, 'cmd': ' '.join(cmd), 'axioms': axioms, 'flags': flags, 'tail': out[-600:]}


FORBIDDEN_RE = re.compile(r'\b(Admitted|admit|Axiom|Axioms|Parameter|Parameters|Conjecture|Admit Obligations|Unset Guard Checking|bypass_check|Unset Universe Checking|Unset Positivity Checking)\b')


_REQ_RE = re.compile(r'\b(SF|Gen|Proofs|Properties|Refuted)\.([A-Za-z0-9_]+)')


def dep_closure(files):
    '''Files of our development that the given files depend on (through Require lines), including themselves.'''
    seen, todo = set(), list(files)
    while todo:
        rel = todo.pop()
        if rel in seen:
            continue
        seen.add(rel)
        try:
            with open(os.path.join(COQ, rel)) as f:
                text = f.read()
        except OSError:
            continue
        for ln in text.splitlines():
            if 'Require' in ln or re.match(r'^\s+[A-Z][A-Za-z]*\.', ln):
                for d, n in _REQ_RE.findall(ln):
                    todo.append(f'{d}/{n}.v')
    return sorted(seen)


def scan_forbidden(files=None):
    hits = []
    for rel in (files if files is not None else coq_sources()):
        if not os.path.exists(os.path.join(COQ, rel)):
            continue
        with open(os.path.join(COQ, rel)) as f:
            text = f.read()
        # strip comments (non-nested is enough for our sources; nested handled by loop)
        prev = None
        while prev != text:
            prev = text
            text = re.sub(r'\(\*[^()]*?\*\)', '', text, flags=re.S)
        text = re.sub(r'\(\*.*?\*\)', '', text, flags=re.S)
        for m in FORBIDDEN_RE.finditer(text):
            hits.append(f'{rel}: {m.group(0)}')
        # Variable/Hypothesis outside a section
        depth = 0
        for ln in text.splitlines():
            if re.match(r'^\s*Section\s', ln):
                depth += 1
            elif re.match(r'^\s*End\s', ln) and depth > 0:
                depth -= 1
            elif depth == 0 and re.match(r'^\s*(Variable|Variables|Hypothesis|Hypotheses|Context)\b', ln):
                hits.append(f'{rel}: {ln.strip()[:40]} outside section')
    return hits


# --------------------------------------------------------------------------- cases in coq
def _emit_shard(path, imports, cases):
    parts = [imports, '\nLocal Open Scope string_scope.\nLocal Open Scope Z_scope.\n']
    for label, attr in (('M', 'm'), ('S', 's')):
        items = [(c.cid, getattr(c, attr)) for c in cases if getattr(c, attr) is not None]
        parts.append(f'\nDefinition cases_{label} : list (Z * bool) := [\n')
        parts.append(';\n'.join(f'  ({cid}, {expr})' for cid, expr in items))
        parts.append('\n].\n')
        parts.append(f'Eval vm_compute in (failing cases_{label}).\n')
    with open(path, 'w') as f:
        f.write(''.join(parts))


_FAIL_RE = re.compile(r'=\s*(\[[^\]]*\]|nil)\s*:\s*list Z', re.S)


def eval_cases(prop_id, imports, cases, shard_size=400):
    '''Evaluate the M and S verdicts of every case inside Coq. Returns (failM:set, failS:set).'''
    todo = [c for c in cases if c.m is not None or c.s is not None]
    if not todo:
        return set(), set()
    work = os.path.join(COQ, 'cases', f'{prop_id}_{os.getpid()}')
    shutil.rmtree(work, ignore_errors=True)
    os.makedirs(work)
    try:
        shards = []
        for k in range(0, len(todo), shard_size):
            path = os.path.join(work, f'shard_{k // shard_size}.v')
            _emit_shard(path, imports, todo[k:k + shard_size])
            shards.append(path)

        def run(path):
            rel = os.path.relpath(path, COQ)
            rc, out = coqc_file(rel, timeout=900)
            tries = 0
            while rc != 0 and 'Error' not in out and tries < 2:
                # killed without a Coq error message (the kernel OOM killer under machine load): evaluate it again
                tries += 1
                time.sleep(5 * tries)
                rc, out = coqc_file(rel, timeout=900)
            return path, rc, out

        fail_m, fail_s = set(), set()
        with ThreadPoolExecutor(max_workers=CASE_JOBS) as ex:
            for path, rc, out in ex.map(run, shards):
                if rc != 0:
                    keep = os.path.join(EVIDENCE, 'logs')
                    os.makedirs(keep, exist_ok=True)
                    shutil.copy(path, os.path.join(keep, f'{prop_id}_failed_shard.v'))
                    raise MachineryError(f'case shard did not compile ({os.path.basename(path)}):\n{out[-3000:]}')
                found = _FAIL_RE.findall(out)
                if len(found) != 2:
                    raise MachineryError(f'cannot parse shard output: {out[-2000:]}')
                fail_m |= {int(x) for x in re.findall(r'-?\d+', found[0])}
                fail_s |= {int(x) for x in re.findall(r'-?\d+', found[1])}
        return fail_m, fail_s
    finally:
        shutil.rmtree(work, ignore_errors=True)


# --------------------------------------------------------------------------- known findings
def load_known(prop_id):
    active, fixed = [], []
    paths = [KNOWN, os.path.join(VERIF, 'known', f'{prop_id}.jsonl')]   # known/Cxx.jsonl: entries not yet merged into KNOWN
    for path in paths:
        if not os.path.exists(path):
            continue
        with open(path) as f:
            for ln in f:
                ln = ln.strip()
                if not ln or ln.startswith('#'):
                    continue
                if ln.startswith('fixed:'):
                    fixed.append(ln)
                    continue
                e = json.loads(ln)
                if e.get('property') == prop_id and e.get('id') not in {x.get('id') for x in active}:
                    active.append(e)
    return active, fixed


def finding_matches(entry, case):
    for k, v in entry.get('match', {}).items():
        got = case.tags.get(k)
        if isinstance(v, list):
            if got not in v:
                return False
        elif got != v:
            return False
    return True


# --------------------------------------------------------------------------- the check driver
class Context:
    def __init__(self, prop_id, tier, seed, scale=1.0):
        self.prop_id = prop_id
        self.tier = tier
        self.seed = seed
        self.rng = random.Random(seed)
        self.scale = scale          # budget multiplier (failing-input search uses 10x)
        self.dist = {}              # input-distribution histogram

    def count(self, *keys):
        for k in keys:
            self.dist[k] = self.dist.get(k, 0) + 1

    def n(self, quick, thorough):
        base = quick if self.tier == 'quick' else thorough
        return max(1, int(base * self.scale))


def write_replay(prop_id, payload):
    os.makedirs(REPLAYS, exist_ok=True)
    blob = json.dumps(payload, sort_keys=True, default=str, indent=1)
    sha = hashlib.sha1(blob.encode()).hexdigest()[:12]
    path = os.path.join(REPLAYS, f'{prop_id}_{sha}.json')
    with open(path, 'w') as f:
        f.write(blob)
    return path


def run_check(prop, tier, seed):
    '''prop: a property module (tools/sfv/props/cXX.py). Returns exit code.'''
    t0 = time.time()
    pid = prop.ID
    from . import targets as tg

    lock = _lock()
    try:
        # 1. translate
        broken_translation = tg.regenerate(REPO, COQ)
        my_broken = [(t, why) for t, why in broken_translation if t['coq'] in getattr(prop, 'TRANSLATED', ()) or t.get('owner') == pid]
        # 2. prove
        forbidden = scan_forbidden(dep_closure(list(prop.PROPERTY_FILES) + list(getattr(prop, 'REFUTED_FILES', ())) + list(getattr(prop, 'MODEL_FILES', ()))))
        if forbidden:
            raise MachineryError('forbidden constructs in the Coq development: ' + '; '.join(forbidden[:5]))
        prop_files = list(prop.PROPERTY_FILES)
        refuted_files = list(getattr(prop, 'REFUTED_FILES', ()))
        model_files = list(getattr(prop, 'MODEL_FILES', ()))
        vo = lambda p: p[:-2] + '.vo'
        ok_models, log_models = make_targets([vo(p) for p in model_files]) if model_files else (True, '')
        ok_proofs, log_proofs = make_targets([vo(p) for p in prop_files + refuted_files])
        obligations = []
        for pf in prop_files + refuted_files:
            for name in theorem_names(pf):
                obligations.append((pf, name))
        discharged = []
        axioms_used = {}
        broken_obligations = []
        for pf in prop_files + refuted_files:
            names = theorem_names(pf)
            if not os.path.exists(os.path.join(COQ, vo(pf))):
                broken_obligations += [(pf, n, 'does not compile') for n in names]
                continue
            rc, out = coqc_file(pf)
            if rc != 0:
                broken_obligations += [(pf, n, 'does not compile') for n in names]
                continue
            entries = parse_assumptions(out)
            if len(entries) != len(names):
                raise MachineryError(f'{pf}: {len(names)} theorems but {len(entries)} Print Assumptions')
            for n, (kind, ax) in zip(names, entries):
                bad = [a for a in ax if a not in STDLIB_AXIOMS and a.split('.')[-1] not in STDLIB_AXIOMS]
                if bad:
                    broken_obligations.append((pf, n, 'depends on non-stdlib axioms: ' + ', '.join(bad)))
                else:
                    discharged.append((pf, n))
                    if ax:
                        axioms_used[n] = ax
    finally:
        lock.close()

    # independent re-check (thorough tier only: ~1 min): coqchk -o on the property files, axioms into the evidence
    coqchk_report = None
    if tier == 'thorough' and not broken_obligations and os.environ.get('VERIF_NO_COQCHK') != '1':
        coqchk_report = run_coqchk(prop_files)
        for ax in coqchk_report.get('axioms', []):
            if ax.split('.')[-1] not in STDLIB_AXIOMS and ax not in STDLIB_AXIOMS:
                broken_obligations.append((prop_files[0], 'coqchk', f'coqchk reports non-stdlib axiom {ax}'))
        if coqchk_report.get('ok') is False:
            broken_obligations.append((prop_files[0], 'coqchk', 'coqchk rejected the compiled files: ' + coqchk_report.get('tail', '')[-300:]))

    proof_log = ''
    if not ok_proofs:
        proof_log = '\n'.join(l for l in log_proofs.splitlines() if 'Error' in l or l.startswith('File ') or 'rror:' in l)[:4000]
        if not proof_log:
            proof_log = log_proofs[-4000:]

    # 3. correspondence
    ctx = Context(pid, tier, seed)
    cases, fail_m, fail_s, py_fail, corr_error = [], set(), set(), [], None
    model_ok = ok_models and not any(t['coq'] in getattr(prop, 'MODEL_TRANSLATED', getattr(prop, 'TRANSLATED', ())) or t.get('owner') == pid for t, _ in broken_translation)

    def explore(ctx):
        cs = list(prop.cases(ctx))
        for i, c in enumerate(cs):
            c.cid = i
            c.origin = (ctx.seed, ctx.scale)
        if not model_ok:
            for c in cs:
                c.m = None
        fm, fs = eval_cases(pid, prop.IMPORTS if model_ok else getattr(prop, 'IMPORTS_SPEC_ONLY', prop.IMPORTS), cs, shard_size=int(getattr(prop, 'SHARD_SIZE', 400)))
        return cs, fm, fs

    try:
        cases, fail_m, fail_s = explore(ctx)
    except MachineryError as e:
        if model_ok:
            raise
        corr_error = str(e)
    except Exception as e:  # noqa
        tb = traceback.extract_tb(e.__traceback__)
        in_impl = [fr for fr in tb if os.path.abspath(fr.filename).startswith(os.path.join(os.path.abspath(REPO), 'static_frame'))]
        if in_impl and not (getattr(e, '__module__', '') or '').startswith('sfv'):
            # an exception raised INSIDE static_frame escaped an observation the generators make on every run: on the
            # unchanged tree these observations succeed (the check is run there before it is registered), so the
            # implementation now fails where it answered before: report it as a violation with the traceback as replay
            impl_crash = {'exception': type(e).__name__, 'message': str(e)[:400],
                          'raised_at': [f'{os.path.relpath(fr.filename, REPO)}:{fr.lineno} in {fr.name}' for fr in in_impl[-4:]],
                          'observation_at': [f'{os.path.basename(fr.filename)}:{fr.lineno} in {fr.name}' for fr in tb if '/sfv/props/' in fr.filename][-3:]}
            path = write_replay(pid, {'property': pid, 'seed': seed, 'tier': tier,
                                       'verdict': 'the implementation raised inside an observation that succeeds on the unchanged tree',
                                       'implementation_exception': impl_crash, 'traceback': ''.join(traceback.format_exception(type(e), e, e.__traceback__))[-3000:]})
            print(f'VIOLATION property={pid} replay={path}')
            print(f'[{pid}] tier={tier} seed={seed} implementation exception escaped an observation: {impl_crash["exception"]} at {impl_crash["raised_at"][-1]} exit=1')
            evidence = {'property_id': pid, 'tier': tier, 'seed': seed, 'level': 'proof',
                        'coverage': {'obligations': max(1, len(obligations)), 'discharged': len(discharged),
                                     'checker_cmd': 'make -C /verif/coq <property files> && coqc (Print Assumptions parsed)',
                                     'trusted_base': BASE_TRUSTED, 'evaluations': 1, 'distinct_nontrivial': 0,
                                     'rule': getattr(prop, 'RULE', ''), 'samples': [impl_crash], 'broken': [{'kind': 'implementation-exception', **impl_crash}]},
                        'assumptions': list(getattr(prop, 'ASSUMPTIONS', ())), 'wall_s': round(time.time() - t0, 2), 'violations': 1}
            os.makedirs(EVIDENCE, exist_ok=True)
            with open(os.path.join(EVIDENCE, f'{pid}.json'), 'w') as f:
                json.dump(evidence, f, indent=1, sort_keys=True, default=str)
            return 1
        # the generators of a property may lean on its own extractor: when the source no longer has the shape the
        # extractor expects (translation already recorded as broken) a crash here is a consequence, not a harness bug
        if model_ok and not my_broken:
            raise
        corr_error = 'case generation failed after a broken translation: ' + ''.join(traceback.format_exception_only(type(e), e))[:500]
    py_fail = [c for c in cases if c.py_fail]

    # 4. classify
    known, fixed = load_known(pid)
    violations = []        # (case, why)
    known_hits = {}
    model_mismatch = []
    for c in cases:
        bad_s = c.cid in fail_s or bool(c.py_fail)
        if bad_s:
            hit = next((e for e in known if finding_matches(e, c)), None)
            if hit is not None:
                known_hits.setdefault(hit['id'], (hit, c))
                continue
            violations.append(c)
        elif c.cid in fail_m:
            model_mismatch.append(c)
    # a case where impl != M but impl == S: correspondence broken (model no longer describes the code)
    lines = []
    exit_code = 0
    for hid, (hit, c) in sorted(known_hits.items()):
        lines.append(f'KNOWN-FINDING: property={pid} {hit["what_fails"]}')
    unwitnessed = [e for e in known if e['id'] not in known_hits and e.get('must_witness', True)]

    broken_things = []
    for t, why in my_broken:
        broken_things.append({'kind': 'translation', 'target': f"{t['module']}:{t.get('function') or t.get('constant')}", 'reason': why})
    for pf, n, why in broken_obligations:
        broken_things.append({'kind': 'theorem', 'file': pf, 'theorem': n, 'reason': why})
    if not ok_models:
        broken_things.append({'kind': 'model-build', 'reason': log_models[-1500:]})
    if corr_error:
        broken_things.append({'kind': 'correspondence-not-run', 'reason': corr_error[:1500]})
    if model_mismatch:
        broken_things.append({'kind': 'correspondence', 'reason': f'{len(model_mismatch)} cases where the implementation model M no longer reproduces the implementation',
                              'examples': [c.desc for c in model_mismatch[:3]]})
    for e in unwitnessed:
        broken_things.append({'kind': 'known-finding-not-reproduced', 'id': e['id'],
                              'reason': 'a listed known finding did not reproduce in this run (file must not rot); if it was repaired, record it as fixed:'})

    if violations:
        exit_code = 1
    elif broken_things:
        # search the implementation against S with a larger budget
        exit_code = 1
        search_ctx = Context(pid, tier, seed + 1, scale=float(os.environ.get('VERIF_SEARCH_SCALE', '6')))
        try:
            scs = list(prop.cases(search_ctx))
            for i, c in enumerate(scs):
                c.cid = i
                c.m = None
                c.origin = (search_ctx.seed, search_ctx.scale)
            _, sfs = eval_cases(pid, getattr(prop, 'IMPORTS_SPEC_ONLY', prop.IMPORTS), scs, shard_size=int(getattr(prop, 'SHARD_SIZE', 400)))
            for c in scs:
                if c.cid in sfs or c.py_fail:
                    if not any(finding_matches(e, c) for e in known):
                        violations.append(c)
        except Exception as e:  # noqa -- MachineryError or a generator crash caused by the broken translation
            broken_things.append({'kind': 'search-failed', 'reason': (type(e).__name__ + ': ' + str(e))[:1500]})

    replay_paths = []
    if violations:
        seen = set()
        shown = 0
        for c in violations:
            sig = (c.kind, json.dumps(c.tags, sort_keys=True, default=str))
            if sig in seen:
                continue
            seen.add(sig)
            path = write_replay(pid, {'property': pid, 'seed': seed, 'tier': tier, 'stratum': c.kind, 'tags': c.tags, 'origin': list(c.origin or (seed, 1.0)), 'case_key': c.key,
                                       'case': c.desc, 'python_side_reason': c.py_fail,
                                       'verdict': 'implementation output differs from the specification S (impl != S)',
                                       'broken_obligations': broken_things})
            replay_paths.append(path)
            lines.append(f'VIOLATION property={pid} replay={path}')
            shown += 1
            if shown >= 5:
                break
    elif broken_things:
        path = write_replay(pid, {'property': pid, 'seed': seed, 'tier': tier,
                                   'verdict': 'property no longer shown to hold; no failing input found',
                                   'broken_obligations': broken_things, 'proof_log': proof_log})
        replay_paths.append(path)
        lines.append(f'VIOLATION property={pid} replay={path} no-failing-input-found')

    # 5. evidence
    distinct = {}
    for c in cases:
        if c.nontrivial:
            distinct[c.key] = True
    strata = {}
    for c in cases:
        strata[c.kind] = strata.get(c.kind, 0) + 1
    samples = []
    seen_kinds = set()
    for c in cases:
        if c.kind not in seen_kinds and len(samples) < 8:
            seen_kinds.add(c.kind)
            samples.append({'stratum': c.kind, 'case': c.desc, 'model_check': (c.m or '')[:300], 'spec_check': (c.s or '')[:300]})
    for pf, n in discharged[:4]:
        samples.append({'obligation': f'{pf}:{n}'})
    evidence = {
        'property_id': pid,
        'tier': tier,
        'seed': seed,
        'level': 'proof',
        'coverage': {
            'obligations': max(1, len(obligations)),
            'discharged': len(discharged),
            'checker_cmd': 'make -C /verif/coq ' + ' '.join(vo(p) for p in prop_files + refuted_files) + ' && coqc <each Properties file> (Print Assumptions parsed)',
            'trusted_base': BASE_TRUSTED + list(getattr(prop, 'TRUSTED', ())) + [f'{n}: axioms {a}' for n, a in sorted(axioms_used.items())],
            'theorems': [f'{pf}:{n}' for pf, n in discharged],
            'broken': broken_things,
            'coqchk': coqchk_report if coqchk_report is not None else 'not run in this tier (thorough only)',
            'evaluations': len(cases),
            'distinct_nontrivial': len(distinct),
            'rule': getattr(prop, 'RULE', ''),
            'samples': samples or [{'note': 'no cases generated'}],
            'traces_validated_against_impl': len(cases) - len(model_mismatch) if model_ok else 0,
            'strata': strata,
            'input_distribution': dict(sorted(ctx.dist.items())),
            'impl_ne_model': len(model_mismatch),
            'impl_ne_spec': len([c for c in cases if c.cid in fail_s or c.py_fail]),
            'known_findings_hit': sorted(known_hits),
            'translated_kernels': sorted(getattr(prop, 'TRANSLATED', ())),
            'exhaustive': bool(getattr(prop, 'EXHAUSTIVE', {}).get(tier, False)),
        },
        'assumptions': list(getattr(prop, 'ASSUMPTIONS', ())),
        'wall_s': round(time.time() - t0, 2),
        'violations': len([l for l in lines if l.startswith('VIOLATION')]),
    }
    os.makedirs(EVIDENCE, exist_ok=True)
    with open(os.path.join(EVIDENCE, f'{pid}.json'), 'w') as f:
        json.dump(evidence, f, indent=1, sort_keys=True, default=str)
    for l in lines:
        print(l)
    print(f'[{pid}] tier={tier} seed={seed} obligations={len(obligations)} discharged={len(discharged)} '
          f'cases={len(cases)} impl!=M={len(model_mismatch)} impl!=S={evidence["coverage"]["impl_ne_spec"]} '
          f'known={len(known_hits)} wall={evidence["wall_s"]}s exit={exit_code}')
    if exit_code and proof_log:
        print(proof_log[:2000])
    return exit_code


def generic_replay(prop, payload):
    '''Re-run one recorded case (or, for a no-failing-input-found replay, the whole check).'''
    pid = prop.ID
    if 'case' not in payload:
        print(f'[{pid}] replay names broken obligations, not an input: re-running the check')
        for b in payload.get('broken_obligations', []):
            print('  broken:', json.dumps(b, default=str)[:300])
        return run_check(prop, payload.get('tier', 'quick'), int(payload.get('seed', 0)))
    from . import targets as tg
    lock = _lock()
    try:
        tg.regenerate(REPO, COQ)
        make_targets([p[:-2] + '.vo' for p in getattr(prop, 'MODEL_FILES', ())])
    finally:
        lock.close()
    seed, scale = payload.get('origin', [payload.get('seed', 0), 1.0])
    ctx = Context(pid, payload.get('tier', 'quick'), int(seed), scale=float(scale))
    key = payload.get('case_key') or json.dumps(payload['case'], sort_keys=True, default=str)
    found = None
    for c in prop.cases(ctx):
        if c.key == key:
            found = c
            break
    if found is None:
        print(f'[{pid}] replay: the recorded case is no longer generated (generator changed?)')
        return 2
    found.cid = 0
    fm, fs = eval_cases(pid, prop.IMPORTS, [found])
    bad = bool(found.py_fail) or 0 in fs
    print(f'[{pid}] replay stratum={found.kind} case={json.dumps(found.desc, default=str)[:600]}')
    print(f'[{pid}] python-side: {found.py_fail}; impl!=S: {0 in fs}; impl!=M: {0 in fm}')
    if bad:
        print(f'VIOLATION property={pid} replay={payload.get("_path", "<replay>")}')
        return 1
    print(f'[{pid}] replay: the case no longer fails')
    return 0
