'''MANIFEST.setup_cmd: regenerate coq/Gen from /repo, then build the whole Coq development from the files on disk.'''
import sys
import time

from . import core, targets


def main():
    t0 = time.time()
    lock = core._lock()
    try:
        broken = targets.regenerate(core.REPO, core.COQ)
        for t, why in broken:
            print(f'setup: translation broken for {t.get("function") or t.get("constant")}: {why}', file=sys.stderr)
        srcs = [p[:-2] + '.vo' for p in core.coq_sources()]
        ok, log = core.make_targets(srcs, timeout=3000)
    finally:
        lock.close()
    if not ok:
        print(log[-4000:], file=sys.stderr)
        print('setup: Coq build had errors (each check reports its own obligations)', file=sys.stderr)
    print(f'setup done in {time.time() - t0:.1f}s, coq build ok={ok}')
    return 0


if __name__ == '__main__':
    sys.exit(main())
