'''Shared builders for correspondence cases: block layouts and frames with a chosen layout.'''
import itertools

import numpy as np


def compositions(m):
    '''All compositions of m (ordered tuples of positive ints summing to m); () for m == 0.'''
    if m == 0:
        yield ()
        return
    for first in range(1, m + 1):
        for rest in compositions(m - first):
            yield (first,) + rest


def layouts_for(dtypes):
    '''All block layouts of a column sequence with the given dtypes: a layout is a tuple of (width, is2d);
    columns may share a block only when their dtypes are equal (otherwise NumPy would coerce them);
    a width-1 block may be 1-D or 2-D.'''
    m = len(dtypes)
    for comp in compositions(m):
        pos = 0
        ok = True
        for w in comp:
            if len({np.dtype(d) for d in dtypes[pos:pos + w]}) != 1:
                ok = False
                break
            pos += w
        if not ok:
            continue
        ones = [i for i, w in enumerate(comp) if w == 1]
        for flags in itertools.product((False, True), repeat=len(ones)):
            as2d = dict(zip(ones, flags))
            yield tuple((w, True if w > 1 else as2d[i]) for i, w in enumerate(comp))


def blocks_from_columns(cols, layout):
    '''cols: list of equal-length 1-D arrays; layout from layouts_for. Returns the list of block arrays.'''
    out = []
    pos = 0
    for w, is2d in layout:
        part = cols[pos:pos + w]
        pos += w
        if not is2d:
            a = np.array(part[0])
        else:
            a = np.empty((len(part[0]), w), dtype=part[0].dtype)
            for j, c in enumerate(part):
                a[:, j] = c
        a.flags.writeable = False
        out.append(a)
    assert pos == len(cols)
    return out


def frame_from_columns(cols, layout, index=None, columns=None, name=None, cls=None):
    '''A Frame whose TypeBlocks has exactly the given layout.'''
    import static_frame as sf
    from static_frame.core.type_blocks import TypeBlocks
    cls = cls or sf.Frame
    rows = len(cols[0]) if cols else (len(index) if index is not None else 0)
    if cols:
        tb = TypeBlocks.from_blocks(blocks_from_columns(cols, layout))
    else:
        tb = TypeBlocks.from_zero_size_shape((rows, 0))
    return cls(tb, index=index, columns=columns, name=name, own_data=True)


def layout_of(frame):
    '''Observed layout of a frame: tuple of (width, is2d).'''
    return tuple(((b.shape[1] if b.ndim == 2 else 1), b.ndim == 2) for b in frame._blocks._blocks)


def layout_str(layout):
    return '|'.join(f'{w}{"d" if is2d else "s"}' for w, is2d in layout)
