import argparse
import importlib
import json
import os
import sys
import traceback

from . import core


def main(argv=None):
    ap = argparse.ArgumentParser()
    ap.add_argument('prop')
    ap.add_argument('--tier', default=os.environ.get('VERIF_TIER', 'quick'), choices=['quick', 'thorough'])
    ap.add_argument('--replay')
    ap.add_argument('--seed', type=int, default=int(os.environ.get('VERIF_SEED', '0') or 0))
    a = ap.parse_args(argv)
    pid = a.prop.upper()
    try:
        prop = importlib.import_module(f'sfv.props.{pid.lower()}')
    except ImportError as e:
        print(f'no check for {pid}: {e}', file=sys.stderr)
        return 2
    try:
        if a.replay:
            with open(a.replay) as f:
                payload = json.load(f)
            payload['_path'] = a.replay
            return prop.replay(payload) if hasattr(prop, 'replay') else core.generic_replay(prop, payload)
        return core.run_check(prop, a.tier, a.seed)
    except core.MachineryError as e:
        print(f'MACHINERY-ERROR property={pid}: {e}', file=sys.stderr)
        return 2
    except Exception:
        traceback.print_exc()
        print(f'MACHINERY-ERROR property={pid}: harness crashed', file=sys.stderr)
        return 2


if __name__ == '__main__':
    sys.exit(main())
