'''C09 -- grow-only containers: append-only, all-or-nothing, never shared.'''
import itertools

import numpy as np

from .. import lit
from .. import zoo
from ..core import Case

ID = 'C09'
MANIFEST = {
    'text': ('Coq state-machine models of IndexGO (labels list, AutoMap / loc_is_iloc, count, array cache), TypeBlocks.append/extend '
             '(_blocks/_index/_dtypes/_shape/_row_dtype), FrameGO.__setitem__/extend_items/extend, IndexLevelGO.append/extend and a world of '
             'frames holding references to their mutable members. Proved (unbounded, all histories / layouts / depths): specification laws '
             'C09_index_spec_append_only/_no_duplicates/_all_or_nothing, C09_frame_spec_append_only/_all_or_nothing; refinement M = S inside an '
             'explicit guard C09_index_refines, C09_frame_refines (+ C09_frame_lockstep, C09_index_reader, C09_frame_reader: every label leads to '
             'its column), C09_blocks_append, C09_blocks_column_read, C09_hier_append; unconditional C09_index_labels_never_lost, '
             'C09_index_append_atomic, C09_hier_append_rejected; never shared: C09_never_shared and C09_growth_isolated over every interleaving of '
             'growth with to_frame/to_frame_go/to_frame_he/Frame(f)/FrameGO(f)/FrameHE(f), stated over decision tables REGENERATED from the AST of '
             'frame.py/container_util.py/index.py/type_blocks.py on every run (C09_index_filters_copy_across_the_boundary). Refuted/C09.v: two '
             'witnesses that the guards are necessary (extend_items; extend with a non-int label equal to a held position on a loc_is_iloc index). Repaired while this check was built and now proved without a guard: 5320f59 C09_hier_append, feb832d C09_index_append_refines, c675c22 C09_index_refines_with_map / C09_index_extend_atomic / C09_frame_extend_frame_atomic, 4b2944d C09_hier_extend(_rejected); 636db1e union()/intersection() (regression in the sharing stratum). Correspondence: recorded histories of the real containers (valid, '
             'duplicate, partially duplicate, wrong length, 2-D, unaligned index, wrong depth) replayed through M and S inside Coq after every '
             'step; object identity of _columns/_blocks between all live frames compared with the world model; ~100 public derivations x 13 '
             'sources grown in both directions with every other live container re-read and mutable members compared by identity.'),
    'note': ('trusted: Coq kernel, the hand-written models (tied to /repo by the histories of this run and, for sharing, by the regenerated tables), '
             'the AST extractor generate() (fail closed), py2v for util.resolve_dtype, the harness. Decided on the Python side only (no Coq model): the '
             'sharing / derivation sweep, FrameGO with hierarchical or date-typed columns, typed grow-only indices (IndexYearGO / IndexYearMonthGO / '
             'IndexDateGO), ArrayGO, and the ~110 constructor / pickle / copy routes of the routes strata (each checked against the same specification: '
             'refused with nothing changed, or exactly the given labels appended with the data under them, sources untouched and unshared). Not covered: '
             'which of the other ~110 own_* call sites alias is observed (derivation sweep), not proved; IndexHierarchyGO.extend on corrupted states and '
             'reads of corrupted states are compared with M but have no refinement theorem; NaN / NaT labels; IndexSecondGO and finer units, '
             'IndexHierarchyGO levels typed other than IndexDateGO; datetime64 / bytes CELLS in FrameGO histories (only in the TypeBlocks kernel stratum); '
             'row reads (values) across datetime units; reindexing of Series / Frames whose own index is hierarchical inside setitem / extend; '
             'from_pandas / from_arrow / file constructors of FrameGO; TypeBlocks.extend(iterable) with a mis-sized later block is partial by '
             'construction of the internal API and is only compared with M.'),
    'technique': 'state-machine refinement (Coq) + recorded histories replayed through the model inside Coq + regenerated decision tables',
}
PROPERTY_FILES = ['Properties/C09.v']
REFUTED_FILES = ['Refuted/C09.v']
MODEL_FILES = ['SF/GrowOnly.v', 'SF/GrowOnlyHier.v', 'SF/GrowOnlyShare.v', 'SF/GrowOnlySpec.v', 'Gen/Gen_c09.v', 'SF/GrowOnlyWorld.v', 'SF/GrowOnlyVal.v']
IMPORTS = 'Require Import SF.Prelude SF.Dtype SF.Value SF.GrowOnly SF.GrowOnlyHier SF.GrowOnlyShare SF.GrowOnlySpec Gen.Gen_c09 SF.GrowOnlyWorld SF.GrowOnlyVal.'
# when the sharing tables cannot be regenerated (generate() fails closed) the specification must still evaluate
IMPORTS_SPEC_ONLY = 'Require Import SF.Prelude SF.Dtype SF.Value SF.GrowOnly SF.GrowOnlyHier SF.GrowOnlyShare SF.GrowOnlySpec.'
RULE = ('a case is one HISTORY on one real container (or world of containers): construction, then growth calls (and reads / conversions), with '
        'the outcome class of every call and a snapshot of every live container after (almost) every step; strata: corpus (minimal replays of the '
        'known findings), exhaustive (all histories up to length N over a small alphabet of calls that contains every argument class: valid, '
        'duplicate, partially duplicate, rejected-at-first, wrong length, unaligned, empty, read), random (bigger shapes, all block layouts via '
        'zoo, dtypes int/float/bool/str/object, fill values), world (every class x conversion x conversion with growth in between, identity of '
        'members observed), sharing (every curated + every zero-argument public derivation of 7 frame and 6 index sources, growth in both '
        'directions), deep (depth 3/4 hierarchies: existing-last / existing-not-last / new label per depth), hier-columns / typed (FrameGO with '
        'IndexHierarchyGO or date columns, IndexYear/YearMonth/DateGO), routes (every constructor, conversion, pickle and copy route found by coverage '
        'measurement that yields a grow-only container, then grown; constructions that must be refused), ArrayGO, kernel:TypeBlocks-growth '
        '(append / extend on TypeBlocks directly, all dtype kinds, 0-wide and 1-wide 2-D blocks, zero-size shapes; compared with M and S). '
        'Non-trivial = at least one accepted growth call / a grow-only container involved; distinct = distinct history.')
ASSUMPTIONS = ['labels are compared with Python == (1 == 1.0 == True); NaN labels are outside the model',
               'cells are observed through tolist(): floats are exact dyadic rationals by construction of the generators',
               'np.array(list).dtype is the dtype iterable_to_array_1d derives for the homogeneous lists the generators build',
               'AutoMap / FrozenAutoMap: insertion-ordered, rejects equal keys (oracle, exercised by every IndexGO history)',
               'util.resolve_dtype is the regenerated Gen.Gen_util.resolve_dtype (np.result_type oracle of SF/Dtype.v)',
               'int -> float casts of the small integers used are exact']
TRUSTED = ['tools/sfv/props/c09.py:generate -- AST pattern extractor for the sharing decision tables (fails closed on any other shape)']
EXHAUSTIVE = {'quick': False, 'thorough': False}
TRANSLATED = ['resolve_dtype']
GENERATED_FILES = ['Gen/Gen_c09.v']
SHARD_SIZE = 200          # histories are long terms: ~350 MB per coqc at this size

F_AUTO_EXT = 'C09-autoindex-extend-nonint-equal-label'
F_ITEMS = 'C09-framego-extend-items-partial'
F_AUTO = 'C09-autoindex-nonint-equal-label'


# ----------------------------------------------------------------------------- literals
def _out(exc):
    return '(Ok tt)' if exc is None else f'(Err {lit.s(lit.err_class(exc))})'


def _olist(items, printer):
    return lit.lst([printer(x) for x in items])


def _oz(v):
    return lit.oz(v)


def _call(fn):
    try:
        fn()
        return None
    except Exception as e:  # noqa
        return e


def _in(label, labels):
    '''Python equality membership (what dict / AutoMap use).'''
    return any(label == x for x in labels)


def _with_defect_model_twin(case):
    """A case tagged with a known finding is excused when it fails S.  Its untagged twin demands that the
    implementation shows EXACTLY the recorded defect (the implementation model M, bugs included: outcome classes, labels,
    values, dtypes, layout at every observed step): any other failure on the same input is reported."""
    out = [case]
    if case.tags.get('finding') and case.m is not None:
        tags = {k: v for k, v in case.tags.items() if k != 'finding'}
        tags['twin_of'] = case.tags['finding']
        out.append(Case(case.kind + '-recorded-outcome', case.desc, m=None, s=case.m, py_fail=None, tags=tags,
                        nontrivial=case.nontrivial, key=case.key + '|recorded-outcome'))
    return out


# ----------------------------------------------------------------------------- IndexGO histories
def snap_index(idx):
    try:
        vals = idx.values.tolist()
    except Exception as e:  # noqa
        vals = [_unreadable(e)]
    try:
        npos = len(idx.positions)
    except Exception:  # noqa
        npos = -1
    locs = []
    for l in vals:
        try:
            r = idx.loc_to_iloc(l)
        except Exception:  # noqa
            r = None
        ok = isinstance(r, (int, np.integer, bool, np.bool_))      # a bool position is the int it equals
        locs.append(int(r) if ok else None)
    return vals, npos, locs


def _iobs_lit(snap):
    vals, npos, locs = snap
    return f'(Some (mk_iobs {lit.vlist(vals)} {lit.z(npos)} {_olist(locs, _oz)}))'


def _iop_lit(op):
    if op[0] == 'append':
        return f'(IAppend {lit.val(op[1])})'
    if op[0] == 'extend':
        return f'(IExtend {lit.vlist(op[1])})'
    return 'IRead'


def index_history(auto, labels, ops, look):
    '''Run a history on a real IndexGO; returns (desc, m, s, py_fail).  look[i]: snapshot after step i.'''
    import static_frame as sf
    idx = sf.IndexGO(range(len(labels)), loc_is_iloc=True) if auto else sf.IndexGO(labels)
    recs, steps = [], []
    for op, see in zip(ops, look):
        if op[0] == 'append':
            exc = _call(lambda: idx.append(op[1]))
        elif op[0] == 'extend':
            exc = _call(lambda: idx.extend(op[1]))
        else:
            exc = _call(lambda: (idx.values, len(idx)))
        snap = snap_index(idx) if see else None
        recs.append(f'({_iop_lit(op)}, {_out(exc)}, {_iobs_lit(snap) if snap else "None"})')
        steps.append({'op': [op[0]] + ([_j(op[1])] if len(op) > 1 else []),
                      'raised': None if exc is None else type(exc).__name__,
                      'seen': None if snap is None else {'values': _j(snap[0]), 'positions': snap[1], 'loc_to_iloc': snap[2]}})
    h = lit.lst(recs)
    desc = {'container': 'IndexGO', 'loc_is_iloc': auto, 'labels': _j(labels), 'steps': steps}
    m = f'check_igo_M {lit.b(auto)} {lit.vlist(labels)} {h}'
    s = f'check_igo_S {lit.vlist(labels)} {h}'
    return desc, m, s


def _j(v):
    if isinstance(v, (list, tuple)):
        return [_j(x) for x in v]
    if isinstance(v, (np.generic,)):
        return v.item()
    if isinstance(v, float) and v != v:
        return 'nan'
    return v


def _extend_class(cur, is_auto, vs):
    """What extend(vs) does to an index holding `cur`, by construction of the input (fix c675c22: validation
    first).  Returns (finding or None, labels appended, still_auto)."""
    def intlike(v):
        return isinstance(v, (int, np.integer))
    observed = []
    for v in vs:                                           # validation pass: __contains__ and `observed`
        held = (intlike(v) and 0 <= v < len(cur)) if is_auto else _in(v, cur)
        if held or _in(v, observed):
            return None, [], is_auto                       # rejected as a whole
        observed.append(v)
    added = []
    for k, v in enumerate(vs):                             # append loop
        now = cur + added
        if _in(v, now):
            # only reachable on an auto index: a non-int label equal to a held position
            return (F_AUTO_EXT if k > 0 else None), added, is_auto
        if is_auto and not (intlike(v) and v == len(now)):
            is_auto = False
        added.append(v)
    return None, added, is_auto


def classify_index_ops(auto, labels, ops):
    '''Finding class of a history BY CONSTRUCTION of its inputs (the first one met), tracking only what the
    generator knows: the labels given so far and whether the index still is a pure 0..n-1 auto index.'''
    cur = list(labels)
    is_auto = auto
    for op in ops:
        if op[0] == 'read':
            continue
        if op[0] == 'append':
            v = op[1]
            if not _in(v, cur):
                if is_auto and not (isinstance(v, (int, np.integer)) and v == len(cur)):
                    is_auto = False
                cur.append(v)
            continue
        f, added, is_auto = _extend_class(cur, is_auto, list(op[1]))
        if f:
            return f
        cur += added
    return None


IDX_POOL = ['a', 'b', 'c', 'd', 'e']


def index_exhaustive(ctx):
    '''All histories of length <= N over a small op alphabet on the labels {a, b} (explicit map) and on
    a 0..n-1 auto index with int / float / str labels.'''
    N = 3 if ctx.tier == 'quick' else 4
    alphabets = [
        (False, ['a'], [('append', 'a'), ('append', 'b'), ('extend', ['b', 'c']), ('extend', ['c', 'a']),
                        ('extend', ['a', 'c']), ('extend', ['d']), ('extend', []), ('read',)]),
        (True, [0, 1], [('append', 2), ('append', 1), ('append', 1.0), ('append', 'x'), ('append', 3),
                        ('extend', [2, 3]), ('extend', [1, 5]), ('append', True), ('read',)]),
    ]
    for auto, labels, alpha in alphabets:
        for n in range(1, (N if auto else 3) + 1):
            for ops in itertools.product(alpha, repeat=n):
                # look after every step except directly after the first (exercises append-append without a read)
                look = [i != 0 for i in range(n)]
                yield auto, labels, list(ops), look


def index_random(ctx, count):
    rng = ctx.rng
    for _ in range(count):
        auto = rng.random() < 0.4
        n0 = rng.randint(0, 3)
        if auto:
            labels = list(range(n0))
            pool = [0, 1, 2, 3, 4, 5, 6, 'x', 'y', 2.5, 7.5, True, None]
        else:
            kind = rng.choice(['str', 'int', 'mixed'])
            pool = {'str': IDX_POOL + ['f', 'g'], 'int': [3, 1, 4, 5, 9, 2, 6], 'mixed': ['a', 1, 'b', 2.5, 3, None, 'c']}[kind]
            labels = rng.sample(pool, min(n0, len(pool)))
        ops = []
        cur = list(labels)
        is_auto = auto
        special_at = rng.randrange(8) if rng.random() < 0.15 else -1
        nops = rng.randint(1, 8)
        for i in range(nops):
            r = rng.random()
            if i == special_at:
                # exactly one finding-class op: partial extend, or (auto) a non-int label equal to a position
                if is_auto and cur and rng.random() < 0.5:
                    ops.append(('append', float(rng.randrange(len(cur)))))
                    continue
                fresh = [p for p in pool if not _in(p, cur) and not (is_auto and not isinstance(p, int))]
                if fresh and cur:
                    ops.append(('extend', [rng.choice(fresh), rng.choice(cur)]))
                    continue
            if r < 0.15:
                ops.append(('read',))
                continue
            fresh = [p for p in pool if not _in(p, cur)]
            if is_auto and rng.random() < 0.6:
                fresh = [len(cur)]
            if r < 0.55:
                if fresh and rng.random() < 0.8:
                    v = rng.choice(fresh)
                elif cur:
                    v = rng.choice(cur)
                    if is_auto and not isinstance(v, int):
                        continue
                else:
                    continue
                ops.append(('append', v))
                if not _in(v, cur):
                    if is_auto and not (isinstance(v, int) and v == len(cur)):
                        is_auto = False
                    cur.append(v)
            else:
                k = rng.randint(0, 3)
                if rng.random() < 0.75 or not cur:
                    vs = []
                    for v in rng.sample(fresh, min(k, len(fresh))):
                        if _in(v, vs):
                            continue
                        vs.append(v)
                    if is_auto:
                        vs = [v for v in vs if isinstance(v, int) or not _in(v, cur)]
                    ok = True
                else:
                    # rejected at the first label: nothing may be appended
                    vs = [rng.choice(cur)] + rng.sample(fresh, min(k, len(fresh)))
                    if is_auto and not isinstance(vs[0], int):
                        continue
                    ok = False
                ops.append(('extend', vs))
                if ok:
                    for v in vs:
                        if is_auto and not (isinstance(v, int) and v == len(cur)):
                            is_auto = False
                        cur.append(v)
        look = [rng.random() < 0.6 for _ in ops]
        if look:
            look[-1] = True
        yield auto, labels, ops, look


CORPUS_INDEX = [
    # (auto, labels, ops): minimal replays of the known findings
    (False, ['a', 'b'], [('extend', ['c', 'a', 'd']), ('read',), ('append', 'e')]),
    (False, ['a', 'b'], [('extend', ['c', 'c'])]),
    (True, [0, 1, 2], [('extend', [5, 1.0]), ('read',)]),
    (True, [0, 1, 2], [('append', 1.0), ('append', 3), ('read',)]),
]


def index_cases(ctx):
    def emit(kind, auto, labels, ops, look):
        try:
            desc, m, s = index_history(auto, labels, ops, look)
        except Exception as e:  # noqa
            return _escaped(kind, {'container': 'IndexGO', 'loc_is_iloc': auto, 'labels': _j(labels), 'ops': _j([list(o) for o in ops])}, e, {'container': 'IndexGO'})
        f = classify_index_ops(auto, labels, ops)
        ctx.count(f'index:{"auto" if auto else "map"}', f'index:len{len(ops)}')
        for op in ops:
            ctx.count('index:op:' + op[0])
        for st in desc['steps']:
            if st['raised']:
                ctx.count('index:raised:' + st['raised'])
        tags = {'container': 'IndexGO'}
        if f:
            tags['finding'] = f
        return Case(kind, desc, m=m, s=s, tags=tags,
                    nontrivial=any(st['raised'] is None and st['op'][0] != 'read' for st in desc['steps']))
    for auto, labels, ops in CORPUS_INDEX:
        yield from _with_defect_model_twin(emit('api:IndexGO-corpus', auto, labels, ops, [True] * len(ops)))
    for auto, labels, ops, look in index_exhaustive(ctx):
        yield from _with_defect_model_twin(emit('api:IndexGO-exhaustive', auto, labels, ops, look))
    for auto, labels, ops, look in index_random(ctx, ctx.n(150, 2000)):
        if ops:
            yield from _with_defect_model_twin(emit('api:IndexGO-random', auto, labels, ops, look))


# ----------------------------------------------------------------------------- FrameGO histories
NAN = float('nan')


def _fdt(fill):
    if fill is None:
        return np.dtype(object)
    return np.array(fill).dtype


def _arr(dtype, vals):
    if np.dtype(dtype) == np.dtype(object):
        a = np.empty(len(vals), dtype=object)
        for i, v in enumerate(vals):
            a[i] = v
    else:
        a = np.array(vals, dtype=dtype)
    a.flags.writeable = False
    return a


def _blk_lit(a):
    is2d = a.ndim == 2
    cols = [a[:, j] for j in range(a.shape[1])] if is2d else [a]
    return (f'(mk_blk {lit.dtype(a.dtype)} {lit.b(is2d)} {lit.z(a.shape[0])} '
            f'{lit.lst([lit.vlist(lit.array_vals(c)) for c in cols])})')


def _gvalue(v):
    """value descriptor -> (python object, Coq literal)"""
    import static_frame as sf
    kind = v[0]
    if kind == 'arr':
        a = _arr(v[1], v[2])
        return a, f'(GArr {lit.dtype(a.dtype)} {lit.vlist(lit.array_vals(a))})'
    if kind == 'arr2':
        return np.zeros((v[1], 2), dtype=np.int64), 'GArr2'
    if kind == 'iter':
        a = np.array(v[1])          # homogeneous by construction: NumPy's dtype is iterable_to_array_1d's
        py = tuple(v[1]) if len(v) > 2 and v[2] == 'tuple' else list(v[1])
        return py, f'(GIter {lit.dtype(a.dtype)} {lit.vlist(lit.array_vals(a))})'
    if kind == 'scalar':
        a = np.array(v[1])
        return v[1], f'(GScalar {lit.dtype(a.dtype)} {lit.val(v[1])})'
    if kind == 'series':
        a = _arr(v[2], v[3])
        s = sf.Series(a, index=v[1], name='sname')
        return s, f'(GSeries {lit.vlist(v[1])} {lit.dtype(a.dtype)} {lit.vlist(lit.array_vals(a))})'
    if kind == 'frame':
        return sf.Frame.from_dict({'q': (1,)}), 'GFrame'
    raise ValueError(kind)


def _value_valid(v, nrows):
    kind = v[0]
    if kind == 'arr':
        return len(v[2]) == nrows
    if kind == 'iter':
        return len(v[1]) == nrows
    return kind in ('scalar', 'series')


def _fill_args(op):
    fill = op.get('fill', NAN)
    return fill, f'{lit.val(fill)} {lit.dtype(_fdt(fill))}'


def apply_frame_op(g, op):
    """Apply one growth call to the real FrameGO; returns (exception or None, Coq literal of the op)."""
    import static_frame as sf
    kind = op['op']
    if kind == 'read':
        return _call(lambda: (g.columns.values, g.shape, g.values)), 'ORead'
    if kind == 'ext_other':
        return _call(lambda: g.extend([1, 2])), 'OExtOther'
    fill, fl = _fill_args(op)
    default_fill = 'fill' not in op
    if kind == 'set':
        py, vl = _gvalue(op['value'])
        if default_fill:
            exc = _call(lambda: g.__setitem__(op['key'], py))
        else:
            exc = _call(lambda: g.__setitem__(op['key'], py, fill))
        return exc, f'(OSet {lit.val(op["key"])} {vl} {fl})'
    if kind == 'items':
        pys, vls = [], []
        for k, v in op['pairs']:
            py, vl = _gvalue(v)
            pys.append((k, py))
            vls.append(f'({lit.val(k)}, {vl})')
        gen = (p for p in pys) if op.get('generator') else pys
        if default_fill:
            exc = _call(lambda: g.extend_items(gen))
        else:
            exc = _call(lambda: g.extend_items(gen, fill_value=fill))
        return exc, f'(OItems {lit.lst(vls)} {fl})'
    if kind == 'ext_series':
        a = _arr(op['dtype'], op['vals'])
        s = sf.Series(a, index=op['sidx'], name=op['name'])
        exc = _call(lambda: g.extend(s) if default_fill else g.extend(s, fill_value=fill))
        return exc, (f'(OExtSeries {lit.val(op["name"])} {lit.vlist(op["sidx"])} {lit.dtype(a.dtype)} '
                     f'{lit.vlist(lit.array_vals(a))} {fl})')
    if kind == 'ext_frame':
        cols = [_arr(dt, vs) for dt, vs in op['cols']]
        cls = sf.FrameGO if op.get('go') else sf.Frame
        other = zoo.frame_from_columns(cols, tuple(tuple(x) for x in op['layout']), index=op['fidx'],
                                       columns=op['fcols'] if cols else None, cls=cls)
        exc = _call(lambda: g.extend(other) if default_fill else g.extend(other, fill_value=fill))
        blocks = lit.lst([_blk_lit(b) for b in other._blocks._blocks])
        return exc, f'(OExtFrame {lit.vlist(op["fidx"])} {lit.vlist(_as_index_labels(op["fcols"]))} {blocks} {fl})'
    raise ValueError(kind)


def _escaped(kind, desc, e, tags):
    """An exception escaped from the implementation while a history was run or observed: the case is reported
    (python-side) and the remaining cases still run."""
    import traceback
    tb = traceback.format_exc().splitlines()[-6:]
    d = dict(desc)
    d['escaped'] = f'{type(e).__name__}: {str(e)[:200]}'
    d['traceback'] = tb
    return Case(kind, d, py_fail=f'{type(e).__name__} escaped while running / observing the history: {str(e)[:160]}', tags=tags)



def _unreadable(e):
    return f'<unreadable: {type(e).__name__}>'


def _column_reads(fr):
    """Every data column by position, read through the block directory; a read that raises becomes part of the
    observation (a one-cell object column naming the exception), so the case is still compared with M and S."""
    cols = []
    try:
        n = int(fr._blocks._shape[1])
    except Exception:  # noqa
        n = 0
    for j in range(n):
        try:
            a = fr._blocks._extract_array(column_key=j)
            cols.append((a.dtype, lit.array_vals(a)))
        except Exception as e:  # noqa
            cols.append((np.dtype(object), [_unreadable(e)]))
    return cols


def _alt_reads(fr, cols):
    """Reads that walk the whole column directory must agree with the per-position reads: iter_array(axis=0),
    the last column by negative position, an open-ended and a reversed column slice.  Returns None or what disagrees."""
    want = [repr(list(vs)) for _, vs in cols]
    try:
        got = [repr(lit.array_vals(a)) for a in fr.iter_array(axis=0)]
        if got != want:
            return f'iter_array(axis=0) gives {got[:4]}, columns by position are {want[:4]}'
        n = len(cols)
        if n >= 1:
            a = fr.iloc[:, -1].values
            if repr(lit.array_vals(a)) != want[-1]:
                return f'iloc[:, -1] gives {lit.array_vals(a)!r}, the last column is {want[-1]}'
        if n >= 2 and fr.shape[0] >= 1:
            for key, sel in ((slice(1, None), want[1:]), (slice(None, None, -1), want[::-1])):
                sub = fr.iloc[:, key]
                got = [repr(lit.array_vals(sub._blocks._extract_array(column_key=j))) for j in range(sub.shape[1])]
                if got != sel:
                    return f'iloc[:, {key}] gives {got[:4]}, expected {sel[:4]}'
    except Exception as e:  # noqa
        return f'a read that walks the column directory raised {type(e).__name__}: {str(e)[:80]}'
    return None



def snap_frame(g):
    import static_frame as sf
    try:
        labels = g.columns.values.tolist()
    except Exception as e:  # noqa
        labels = [_unreadable(e)]
    try:
        npos = len(g.columns.positions)
    except Exception:  # noqa
        npos = -1
    try:
        shape = tuple(int(x) for x in g.shape)
    except Exception:  # noqa
        shape = (-1, -1)
    cols = _column_reads(g)
    try:
        layout = zoo.layout_of(g)
    except Exception:  # noqa
        layout = ()
    readable = []
    for i, l in enumerate(labels):
        ok = False
        try:
            s = g[l]
            ok = (isinstance(s, sf.Series) and i < len(cols) and s.values.dtype == cols[i][0]
                  and lit.vlist(lit.array_vals(s.values)) == lit.vlist(cols[i][1])
                  and lit.vlist(lit.labels(s.index)) == lit.vlist(lit.labels(g.index)))
        except Exception:  # noqa
            ok = False
        readable.append(ok)
    try:
        dts = list(g._blocks._dtypes)
        rowdt = g._blocks._row_dtype
    except Exception:  # noqa
        dts, rowdt = [], None
    try:
        pub = [np.dtype(x) for x in g.dtypes.values.tolist()] == [np.dtype(x) for x in dts] and \
            lit.vlist(lit.labels(g.dtypes.index)) == lit.vlist(labels)
    except Exception:  # noqa
        pub = False
    try:
        rows = [list(r) for r in g.values.tolist()] if shape[1] else [[] for _ in range(shape[0])]
        by_iter = [a.tolist() for a in g.iter_array(axis=1)] if shape[1] else rows
        by_t = [list(r) for r in zip(*g.transpose().values.tolist())] if shape[1] and shape[0] else rows
        rows_consistent = repr(by_iter) == repr(rows) and repr(by_t) == repr(rows)
    except Exception:  # noqa
        rows, rows_consistent = [], False
    if len(labels) == len(cols):            # (with more labels than data -- a known finding -- label based reads cannot agree)
        rows_consistent = rows_consistent and _alt_reads(g, cols) is None
    return labels, npos, cols, shape, layout, readable, dts, rowdt, pub, rows, rows_consistent


def _fseen_lit(snap):
    labels, npos, cols, shape, layout, readable, dts, rowdt, pub, rows, rows_consistent = snap
    cl = lit.lst([f'({lit.dtype(dt)}, {lit.vlist(vs)})' for dt, vs in cols])
    ll = lit.lst([f'({lit.z(w)}, {lit.b(d)})' for w, d in layout])
    rd = 'None' if rowdt is None else f'(Some {lit.dtype(rowdt)})'
    return (f'(Some (mk_fseen {lit.vlist(labels)} {lit.z(npos)} {cl} ({lit.z(shape[0])}, {lit.z(shape[1])}) '
            f'{ll} {lit.lst([lit.b(x) for x in readable])} {lit.lst([lit.dtype(d) for d in dts])} {rd} {lit.b(pub)} '
            f'{lit.lst([lit.vlist(r) for r in rows])} {lit.b(rows_consistent)}))')


def _frame_init(init):
    """init = dict(rows, labels or None (auto), cols [(dtype, vals)], layout)."""
    import static_frame as sf
    cols = [_arr(dt, vs) for dt, vs in init['cols']]
    return zoo.frame_from_columns(cols, tuple(tuple(x) for x in init['layout']), index=init['rows'],
                                  columns=init['labels'], cls=sf.FrameGO)


def frame_history(init, ops, look):
    g = _frame_init(init)
    auto = init['labels'] is None
    labels0 = list(range(len(init['cols']))) if auto else list(init['labels'])
    blocks0 = lit.lst([_blk_lit(b) for b in g._blocks._blocks])
    rows_before = lit.vlist(lit.labels(g.index))
    recs, steps = [], []
    py_fail = None
    for op, see in zip(ops, look):
        exc, ol = apply_frame_op(g, op)
        snap = snap_frame(g) if see else None
        recs.append(f'({ol}, {_out(exc)}, {_fseen_lit(snap) if snap else "None"})')
        steps.append({'op': _j_op(op), 'raised': None if exc is None else type(exc).__name__,
                      'seen': None if snap is None else {'columns': _j(snap[0]), 'positions': snap[1], 'shape': list(snap[3]),
                                                         'data': [[str(dt), _j(vs)] for dt, vs in snap[2]],
                                                         'layout': zoo.layout_str(snap[4]), 'readable_by_label': snap[5],
                                                         'dtypes': [str(d) for d in snap[6]], 'dtypes_property_ok': snap[8],
                                                         'values_rows': _j(snap[9]), 'rows_consistent': snap[10]}})
        if lit.vlist(lit.labels(g.index)) != rows_before and py_fail is None:
            py_fail = 'the row index of a FrameGO changed under a growth call'
    h = lit.lst(recs)
    desc = {'container': 'FrameGO', 'init': {'rows': _j(init['rows']), 'columns': 'auto' if auto else _j(init['labels']),
                                             'data': [[str(np.dtype(dt)), _j(vs)] for dt, vs in init['cols']],
                                             'layout': zoo.layout_str(tuple(tuple(x) for x in init['layout']))},
            'steps': steps}
    m = f'check_fgo_M {lit.b(auto)} {lit.vlist(init["rows"])} {lit.vlist(labels0)} {blocks0} {h}'
    s = f'check_fgo_S {lit.vlist(init["rows"])} {lit.vlist(labels0)} {blocks0} {h}'
    return desc, m, s, py_fail


def _j_op(op):
    out = {}
    for k, v in op.items():
        if k == 'dtype':
            out[k] = str(np.dtype(v))
        elif k == 'cols':
            out[k] = [[str(np.dtype(dt)), _j(vs)] for dt, vs in v]
        elif k == 'value':
            out[k] = _j_value(v)
        elif k == 'pairs':
            out[k] = [[_j(a), _j_value(b)] for a, b in v]
        else:
            out[k] = _j(v)
    return out


def _j_value(v):
    return [str(np.dtype(x)) if isinstance(x, (np.dtype, type)) else _j(x) for x in v]


def _as_index_labels(labels):
    """The labels as a (static) Index holds them: NumPy turns a mix of ints and floats into floats."""
    if labels and all(isinstance(x, (int, float)) and not isinstance(x, bool) for x in labels) and any(isinstance(x, float) for x in labels):
        return [float(x) for x in labels]
    return list(labels)


def classify_frame_ops(init, ops):
    """Finding class BY CONSTRUCTION (first met): see classify_index_ops."""
    auto = init['labels'] is None
    cur = list(range(len(init['cols']))) if auto else list(init['labels'])
    is_auto = auto
    nrows = len(init['rows'])

    def one(v):
        nonlocal is_auto
        if is_auto and not (isinstance(v, (int, np.integer)) and v == len(cur)):
            is_auto = False
        cur.append(v)
    for op in ops:
        kind = op['op']
        if kind in ('read', 'ext_other'):
            continue
        if kind == 'set':
            if _value_valid(op['value'], nrows) and not _in(op['key'], cur):
                one(op['key'])
        elif kind == 'ext_series':
            if not _in(op['name'], cur):
                one(op['name'])
        elif kind == 'items':
            for k, (key, v) in enumerate(op['pairs']):
                if _in(key, cur) or not _value_valid(v, nrows):
                    if k > 0:
                        return F_ITEMS
                    break
                one(key)
        else:
            fcols = _as_index_labels(op['fcols'])
            if not fcols:
                continue
            f, added, is_auto = _extend_class(cur, is_auto, fcols)
            if f:
                return f
            cur += added
    return None


ROWS = ['x', 'y']


def _frame_alphabet():
    i8, f8 = np.int64, np.float64
    return [
        {'op': 'set', 'key': 'b', 'value': ('arr', i8, [3, 4])},
        {'op': 'set', 'key': 'a', 'value': ('arr', i8, [3, 4])},                       # duplicate key
        {'op': 'set', 'key': 'c', 'value': ('iter', [1.5, 2.5, 3.5])},                 # wrong length
        {'op': 'set', 'key': 'c', 'value': ('series', ['y', 'z'], i8, [10, 20])},      # unaligned index
        {'op': 'ext_frame', 'fidx': ['x', 'y'], 'fcols': ['c', 'd'], 'cols': [(i8, [5, 6]), (i8, [7, 8])], 'layout': [(2, True)]},
        {'op': 'ext_frame', 'fidx': ['y', 'x'], 'fcols': ['a', 'e'], 'cols': [(i8, [5, 6]), (f8, [0.5, 1.5])],
         'layout': [(1, False), (1, True)]},                                           # rejected at the first label
        {'op': 'ext_frame', 'fidx': ['x', 'y'], 'fcols': ['e', 'a'], 'cols': [(i8, [5, 6]), (i8, [7, 8])],
         'layout': [(2, True)]},                                                       # partial duplicate (finding class)
        {'op': 'items', 'pairs': [('f', ('scalar', 7)), ('g', ('iter', ['p', 'qq']))]},
        {'op': 'items', 'pairs': [('h', ('arr', i8, [1, 2])), ('a', ('arr', i8, [1, 2]))]},   # partial (finding class)
        {'op': 'ext_series', 'name': 'b', 'sidx': ['x', 'y'], 'dtype': np.bool_, 'vals': [True, False]},
        {'op': 'read'},
    ]


def frame_exhaustive(ctx):
    N = 2 if ctx.tier == 'quick' else 3
    init = {'rows': ROWS, 'labels': ['a'], 'cols': [(np.int64, [1, 2])], 'layout': [(1, False)]}
    alpha = _frame_alphabet()
    for n in range(1, N + 1):
        for ops in itertools.product(alpha, repeat=n):
            yield init, list(ops), [i != 0 for i in range(n)]
    # frames whose columns all are strings, growing in width: the row dtype must widen with them
    init_s = {'rows': ROWS, 'labels': ['a'], 'cols': [(np.dtype('<U1'), ['p', 'q'])], 'layout': [(1, False)]}
    u5 = np.dtype('<U5')
    alpha_s = [
        {'op': 'set', 'key': 'b', 'value': ('arr', u5, ['hello', 'x'])},
        {'op': 'set', 'key': 'c', 'value': ('iter', ['qq', 'r'])},
        {'op': 'ext_frame', 'fidx': ['x', 'y'], 'fcols': ['d', 'e'], 'cols': [(u5, ['wide5', 'ab']), (u5, ['z', 'hello'])], 'layout': [(2, True)]},
        {'op': 'ext_series', 'name': 'f', 'sidx': ['y', 'x'], 'dtype': np.dtype('<U3'), 'vals': ['abc', 'd']},
        {'op': 'items', 'pairs': [('g', ('scalar', 'long4')), ('h', ('iter', ['s', 't']))]},
        {'op': 'read'},
    ]
    for n in range(1, 4):
        for ops in itertools.product(alpha_s, repeat=n):
            yield init_s, list(ops), [True] * n


CORPUS_FRAME = [
    # FrameGO(auto columns).extend(Frame(columns=[5.0, 1.0])): KeyError, but columns [0., 1., 5.] with 2 data columns
    ({'rows': ['x', 'y'], 'labels': None, 'cols': [(np.int64, [0, 2]), (np.int64, [1, 3])], 'layout': [(2, True)]},
     [{'op': 'ext_frame', 'fidx': ['x', 'y'], 'fcols': [5.0, 1.0], 'cols': [(np.int64, [0, 2]), (np.int64, [1, 3])],
       'layout': [(2, True)]},
      {'op': 'read'}]),
    ({'rows': ['x', 'y'], 'labels': ['a', 'b'], 'cols': [(np.int64, [1, 2]), (np.int64, [3, 4])], 'layout': [(2, True)]},
     [{'op': 'ext_frame', 'fidx': ['x', 'y'], 'fcols': ['c', 'b'], 'cols': [(np.int64, [5, 6]), (np.int64, [7, 8])],
       'layout': [(1, False), (1, False)]},
      {'op': 'read'}]),
    ({'rows': ['x', 'y'], 'labels': ['a', 'b'], 'cols': [(np.int64, [1, 2]), (np.int64, [3, 4])], 'layout': [(2, True)]},
     [{'op': 'items', 'pairs': [('c', ('iter', [1, 2])), ('a', ('iter', [3, 4])), ('d', ('iter', [5, 6]))]}]),
    ({'rows': ['x', 'y'], 'labels': None, 'cols': [(np.int64, [1, 3]), (np.int64, [2, 4]), (np.int64, [3, 5])], 'layout': [(3, True)]},
     [{'op': 'set', 'key': 1.0, 'value': ('iter', [7, 8])}, {'op': 'set', 'key': 3, 'value': ('iter', [9, 9])}]),
]

VALS = {
    'i': (np.int64, [1, 2, 3, -4, 50, 0]),
    'f': (np.float64, [1.5, -0.25, 2.0, 8.0, NAN, 0.5]),
    'b': (np.bool_, [True, False]),
    'U': (np.dtype('<U2'), ['p', 'qq', 'r', 'st']),
    'W': (np.dtype('<U5'), ['hello', 'wide5', 'ab', 'z']),
    'N': (np.dtype('<U1'), ['a', 'b', 'c']),
    'O': (np.dtype(object), [1, 'a', None, 2.5, True]),
}


def _col(rng, nrows, kinds='ifbUOWN'):
    k = rng.choice(kinds)
    dt, pool = VALS[k]
    return (dt, [rng.choice(pool) for _ in range(nrows)])


def _rand_layout(rng, cols):
    lays = list(zoo.layouts_for([np.dtype(dt) for dt, _ in cols]))
    return [list(x) for x in rng.choice(lays)]


def frame_random(ctx, count):
    rng = ctx.rng
    for _ in range(count):
        nrows = rng.choice([1, 2, 2, 3])
        rows = rng.sample(['x', 'y', 'z', 'w'], nrows) if rng.random() < 0.8 else list(range(10, 10 + nrows))
        other_rows = [r for r in ['x', 'y', 'z', 'w', 'v'] if r not in rows] if isinstance(rows[0], str) else [7, 8, 9]
        ncols = rng.randint(0, 3)
        auto = rng.random() < 0.3
        cols = [_col(rng, nrows) for _ in range(ncols)]
        pool = ['a', 'b', 'c', 'd', 'e', 'f', 'g', 'h', 'k', 'm'] if not auto else [0, 1, 2, 3, 4, 5, 6, 7, 'a', 'b', 2.5]
        if rng.random() < 0.2 and not auto:
            pool = [1, 'a', 5, 'b', 2.5, 9, 'c', 12, 'd', 'e']
        labels = None if auto else rng.sample(pool, ncols)
        init = {'rows': rows, 'labels': labels, 'cols': cols, 'layout': _rand_layout(rng, cols) if cols else []}
        cur = list(range(ncols)) if auto else list(labels)
        state = {'auto': auto}
        ops = []
        nops = rng.randint(1, 7)
        special_at = rng.randrange(nops) if rng.random() < 0.15 else -1

        def fresh(k=1):
            out = [p for p in pool if not _in(p, cur)]
            if state['auto'] and rng.random() < 0.6:
                return [len(cur) + i for i in range(k)]
            rng.shuffle(out)
            return out[:k]

        def note(keys):
            for v in keys:
                if state['auto'] and not (isinstance(v, int) and v == len(cur)):
                    state['auto'] = False
                cur.append(v)

        def sidx():
            r = rng.random()
            if r < 0.4:
                return list(rows)
            if r < 0.6:
                s = list(rows)
                rng.shuffle(s)
                return s
            n = rng.randint(1, 3)
            allr = rows + other_rows
            return rng.sample(allr, min(n, len(allr)))

        def fillkw():
            if rng.random() < 0.6:
                return {}
            return {'fill': rng.choice([None, 0, NAN, 'z', -1.5])}

        def value(valid=True):
            r = rng.random()
            n = nrows if valid else nrows + rng.choice([1, -1])
            if not valid and rng.random() < 0.3:
                return rng.choice([('arr2', nrows), ('frame',)])
            if r < 0.3:
                dt, vs = _col(rng, n)
                return ('arr', dt, vs)
            if r < 0.55:
                k = rng.choice('ifbUW')
                return ('iter', [rng.choice([v for v in VALS[k][1] if v == v]) for _ in range(n)], rng.choice(['list', 'tuple']))
            if not valid:
                dt, vs = _col(rng, n)
                return ('arr', dt, vs)
            if r < 0.7:
                k = rng.choice('ifbU')
                return ('scalar', rng.choice([v for v in VALS[k][1] if v == v]))
            si = sidx()
            dt, vs = _col(rng, len(si))
            return ('series', si, dt, vs)

        for i in range(nops):
            r = rng.random()
            is_auto = state['auto']
            if i == special_at and cur:
                c = rng.random()
                if is_auto and c < 0.4:
                    ops.append(dict({'op': 'set', 'key': float(rng.randrange(len(cur))), 'value': value(True)}, **fillkw()))
                    continue
                fr = fresh(2)
                if fr and c < 0.7:
                    keys = [fr[0], rng.choice(cur)] + fr[1:]
                    if is_auto and any(not isinstance(k, int) for k in keys):
                        continue
                    si = sidx()
                    cs = [_col(rng, len(si)) for _ in keys]
                    ops.append(dict({'op': 'ext_frame', 'fidx': si, 'fcols': keys, 'cols': cs, 'layout': _rand_layout(rng, cs)}, **fillkw()))
                    continue
                if fr:
                    bad = (rng.choice(cur), value(True)) if rng.random() < 0.5 else (fr[-1] if len(fr) > 1 else 'zz', value(False))
                    if is_auto and not isinstance(bad[0], int):
                        continue
                    ops.append(dict({'op': 'items', 'pairs': [(fr[0], value(True)), bad], 'generator': rng.random() < 0.5}, **fillkw()))
                    continue
            if r < 0.1:
                ops.append({'op': 'read'})
            elif r < 0.13:
                ops.append({'op': 'ext_other'})
            elif r < 0.45:
                ok = rng.random() < 0.75
                if ok or not cur:
                    fr = fresh(1)
                    if not fr:
                        continue
                    valid = rng.random() < 0.85
                    ops.append(dict({'op': 'set', 'key': fr[0], 'value': value(valid)}, **fillkw()))
                    if valid:
                        note(fr)
                else:
                    k = rng.choice(cur)
                    if is_auto and not isinstance(k, int):
                        continue
                    ops.append(dict({'op': 'set', 'key': k, 'value': value(rng.random() < 0.8)}, **fillkw()))
            elif r < 0.6:
                fr = fresh(1)
                dup = rng.random() < 0.2 and cur
                name = rng.choice(cur) if dup else (fr[0] if fr else None)
                if name is None or (is_auto and not isinstance(name, int) and dup):
                    continue
                si = sidx()
                dt, vs = _col(rng, len(si))
                ops.append(dict({'op': 'ext_series', 'name': name, 'sidx': si, 'dtype': dt, 'vals': vs}, **fillkw()))
                if not dup:
                    note([name])
            elif r < 0.82:
                k = rng.randint(0, 3)
                fr = fresh(k)
                first_dup = rng.random() < 0.2 and cur
                keys = ([rng.choice(cur)] if first_dup else []) + fr
                if is_auto and first_dup and not isinstance(keys[0], int):
                    continue
                si = sidx()
                cs = [_col(rng, len(si)) for _ in keys]
                ops.append(dict({'op': 'ext_frame', 'fidx': si, 'fcols': keys, 'cols': cs, 'layout': _rand_layout(rng, cs) if cs else [],
                                 'go': rng.random() < 0.3}, **fillkw()))
                if not first_dup:
                    note(keys)
            else:
                k = rng.randint(0, 3)
                fr = fresh(k)
                first_bad = rng.random() < 0.2
                pairs = [(x, value(True)) for x in fr]
                if first_bad:
                    if cur and rng.random() < 0.5:
                        kk = rng.choice(cur)
                        if is_auto and not isinstance(kk, int):
                            continue
                        pairs = [(kk, value(True))] + pairs
                    elif fr:
                        pairs[0] = (fr[0], value(False))
                    else:
                        continue
                ops.append(dict({'op': 'items', 'pairs': pairs, 'generator': rng.random() < 0.5}, **fillkw()))
                if not first_bad:
                    note(fr)
        if not ops:
            continue
        look = [rng.random() < 0.7 for _ in ops]
        look[-1] = True
        yield init, ops, look


def frame_cases(ctx):
    def emit(kind, init, ops, look):
        try:
            desc, m, s, py_fail = frame_history(init, ops, look)
        except Exception as e:  # noqa
            return _escaped(kind, {'container': 'FrameGO', 'init': {'rows': _j(init['rows']), 'columns': _j(init['labels'])}, 'ops': [_j_op(o) for o in ops]}, e, {'container': 'FrameGO'})
        f = classify_frame_ops(init, ops)
        ctx.count(f'frame:{"auto" if init["labels"] is None else "map"}-columns', f'frame:len{len(ops)}',
                  'frame:layout:' + desc['init']['layout'])
        for op in ops:
            ctx.count('frame:op:' + op['op'])
            if op['op'] == 'set':
                ctx.count('frame:value:' + op['value'][0])
        for st in desc['steps']:
            if st['raised']:
                ctx.count('frame:raised:' + st['raised'])
        tags = {'container': 'FrameGO'}
        if f:
            tags['finding'] = f
        return Case(kind, desc, m=m, s=s, py_fail=py_fail, tags=tags,
                    nontrivial=any(st['raised'] is None and st['op']['op'] != 'read' for st in desc['steps']))
    for init, ops in CORPUS_FRAME:
        yield from _with_defect_model_twin(emit('api:FrameGO-corpus', init, ops, [True] * len(ops)))
    for init, ops, look in frame_exhaustive(ctx):
        yield from _with_defect_model_twin(emit('api:FrameGO-exhaustive', init, ops, look))
    for init, ops, look in frame_random(ctx, ctx.n(200, 2500)):
        yield from _with_defect_model_twin(emit('api:FrameGO-random', init, ops, look))


# ----------------------------------------------------------------------------- sharing / isolation
F_COLPROP = 'C09-columns-property-is-the-live-index'
F_COPY = 'C09-copy-copy-of-framego-shares-members'
F_SETOP = 'C09-setop-without-operands-returns-self'


def _is_container(x):
    import static_frame as sf
    from static_frame.core.index_base import IndexBase
    return isinstance(x, (sf.Frame, sf.Series, IndexBase))


def _containers_in(x, depth=0):
    """Containers inside a derivation result (through tuples / lists / generators / dict views)."""
    import types
    if _is_container(x):
        return [x]
    if depth > 2 or isinstance(x, (str, bytes, np.ndarray)):
        return []
    if isinstance(x, (tuple, list, types.GeneratorType)) or type(x).__name__ in ('dict_items', 'dict_values', 'zip', 'map'):
        out = []
        try:
            for i, y in enumerate(x):
                if i > 12:
                    break
                out.extend(_containers_in(y, depth + 1))
        except Exception:  # noqa
            pass
        return out
    return []


def content(c):
    """Canonical content of a container through its public interface (what a user can see of it)."""
    import static_frame as sf
    from static_frame.core.index_base import IndexBase
    try:
        if isinstance(c, sf.Frame):
            cols = []
            for j in range(c.shape[1]):
                a = c.iloc[:, j].values
                cols.append((str(a.dtype), repr(a.tolist())))
            walk = (repr([a.tolist() for a in c.iter_array(axis=0)]), repr(c.iloc[:, ::-1].values.tolist()),
                    repr(c.iloc[:, -1].values.tolist()) if c.shape[1] else '', repr(c.iloc[:, 1:].values.tolist()))
            return ('F', type(c).__name__, repr(c.name), repr(lit.labels(c.index)), repr(lit.labels(c.columns)),
                    tuple(c.shape), tuple(cols), repr(c.values.tolist()), walk)
        if isinstance(c, sf.Series):
            return ('S', type(c).__name__, repr(c.name), repr(lit.labels(c.index)), str(c.dtype), repr(c.values.tolist()))
        if isinstance(c, IndexBase):
            return ('I', type(c).__name__, repr(c.name), repr(lit.labels(c)), len(c), len(c.positions))
    except Exception as e:  # noqa
        return ('unreadable', type(c).__name__, type(e).__name__)
    return ('?',)


def _index_parts(ix, out):
    from static_frame.core.index_hierarchy import IndexHierarchy
    if ix is None:
        return
    if isinstance(ix, IndexHierarchy):
        if not ix.STATIC:
            out.append(('IndexHierarchyGO', ix))
        todo = [ix._levels]
        while todo:
            lv = todo.pop()
            if not lv.STATIC:
                out.append(('IndexLevelGO', lv))
            _index_parts(lv.index, out)
            if lv.targets is not None:
                if hasattr(lv.targets, '_array_mutable') and not lv.STATIC:
                    out.append(('ArrayGO', lv.targets))
                    if lv.targets._array_mutable is not None:
                        out.append(('ArrayGO._array_mutable', lv.targets._array_mutable))
                todo.extend(list(lv.targets))
        if not ix.STATIC and getattr(ix, '_blocks', None) is not None:
            _tb_parts(ix._blocks, out)
        return
    if not ix.STATIC:
        out.append(('IndexGO', ix))
        out.append(('IndexGO._labels_mutable', ix._labels_mutable))
        if ix._map is not None:
            out.append(('IndexGO._map', ix._map))


def _tb_parts(tb, out):
    out.append(('TypeBlocks', tb))
    out.append(('TypeBlocks._blocks', tb._blocks))
    out.append(('TypeBlocks._index', tb._index))
    out.append(('TypeBlocks._dtypes', tb._dtypes))


def mutable_parts(c, grown_only=False):
    """Mutable objects reachable from a container (kernel-level observation by identity); with grown_only,
    only those a growth call ON THIS container mutates (a frame's row index never grows)."""
    import static_frame as sf
    from static_frame.core.index_base import IndexBase
    out = []
    if isinstance(c, sf.Frame):
        _tb_parts(c._blocks, out)
        _index_parts(c._columns, out)
        if not grown_only:
            _index_parts(c._index, out)
    elif isinstance(c, sf.Series):
        _index_parts(c._index, out)
    elif isinstance(c, IndexBase):
        _index_parts(c, out)
    return out


def _is_go(c):
    import static_frame as sf
    from static_frame.core.index_base import IndexBase
    return (isinstance(c, sf.FrameGO)) or (isinstance(c, IndexBase) and not c.STATIC)


def _fresh_label(c, k):
    """A label not present yet, of the shape the container's (column) index needs."""
    import static_frame as sf
    ix = c._columns if isinstance(c, sf.Frame) else c
    depth = ix.depth
    base = f'new{k}'
    if depth == 1:
        return base
    last = tuple(ix.values[-1]) if len(ix) else tuple('p' for _ in range(depth))
    return tuple(last[:-1]) + (base,)


def grow(c, k):
    """One valid growth call on a grow-only container; returns a description."""
    import static_frame as sf
    lab = _fresh_label(c, k)
    if isinstance(c, sf.FrameGO):
        n = c.shape[0]
        if k % 2 == 0 or c._columns.depth > 1:
            c[lab] = np.arange(n) + 100 * (k + 1)
            return f'setitem {lab!r}'
        other = sf.Frame(np.arange(2 * n).reshape(n, 2), index=c.index, columns=(lab, str(lab) + '_2'))
        c.extend(other)
        return f'extend frame {lab!r}'
    c.append(lab)
    return f'append {lab!r}'


def _base_frames():
    import static_frame as sf
    data = {'a': (1, 2, 3), 'b': (4.5, 5.5, 6.5), 'c': ('p', 'q', 'r'), 'd': (True, False, True)}
    idx = ('x', 'y', 'z')

    def go_explicit():
        return sf.FrameGO.from_dict(data, index=idx, name='nm')

    def go_auto():
        return sf.FrameGO.from_records([(1, 2.5, 7), (3, 4.5, 8), (5, 6.5, 9)], index=idx)

    def go_hier():
        return sf.FrameGO.from_dict(data, index=idx).relabel_level_add(columns='A')

    def go_grown():
        f = sf.FrameGO.from_dict({'a': (1, 2, 3)}, index=idx)
        f['b'] = (4.5, 5.5, 6.5)
        f.extend(sf.Frame.from_dict({'c': ('p', 'q', 'r'), 'd': (True, False, True)}, index=idx))
        return f

    def static():
        return sf.Frame.from_dict(data, index=idx, name='nm')

    def he():
        return sf.FrameHE.from_dict(data, index=idx, name='nm')

    def static_from_go():
        return go_grown().to_frame()

    return [('FrameGO', go_explicit), ('FrameGO-auto-columns', go_auto), ('FrameGO-hier-columns', go_hier),
            ('FrameGO-grown', go_grown), ('Frame', static), ('FrameHE', he), ('Frame-from-FrameGO', static_from_go)]


def _frame_derivations():
    import static_frame as sf

    def first(s):
        return s.columns.values[0] if s.columns.depth == 1 else tuple(s.columns.values[0])

    def two(s):
        v = s.columns.values
        return [x if s.columns.depth == 1 else tuple(x) for x in v[:2]]

    D = {
        'to_frame': lambda s: s.to_frame(),
        'to_frame_go': lambda s: s.to_frame_go(),
        'to_frame_he': lambda s: s.to_frame_he(),
        'to_frame_go.to_frame': lambda s: s.to_frame_go().to_frame(),
        'to_frame.to_frame_go': lambda s: s.to_frame().to_frame_go(),
        'Frame(s)': lambda s: sf.Frame(s),
        'FrameGO(s)': lambda s: sf.FrameGO(s),
        'FrameHE(s)': lambda s: sf.FrameHE(s),
        'cls(s)': lambda s: s.__class__(s),
        'Frame(s,index=s.index)': lambda s: sf.Frame(s, index=s.index),
        'Frame(s,columns=s.columns)': lambda s: sf.Frame(s, columns=s.columns),
        'Frame(s,index,columns)': lambda s: sf.Frame(s, index=s.index, columns=s.columns),
        'FrameHE(s,index=s.index)': lambda s: sf.FrameHE(s, index=s.index),
        'FrameHE(s,columns=s.columns)': lambda s: sf.FrameHE(s, columns=s.columns),
        'FrameGO(s,index=s.index)': lambda s: sf.FrameGO(s, index=s.index),
        'FrameGO(s,columns=s.columns) ': lambda s: sf.FrameGO(s, columns=s.columns),
        'FrameGO(s,index,columns)': lambda s: sf.FrameGO(s, index=s.index, columns=s.columns),
        'Frame(s,name=)': lambda s: sf.Frame(s, name='other'),
        'FrameGO(s,name=)': lambda s: sf.FrameGO(s, name='other'),
        'FrameGO(values,columns=s.columns)': lambda s: sf.FrameGO(s.values, index=s.index, columns=s.columns),
        'Frame(values,columns=s.columns)': lambda s: sf.Frame(s.values, index=s.index, columns=s.columns),
        'getitem-list': lambda s: s[two(s)],
        'getitem-one': lambda s: s[first(s)],
        'getitem-slice': lambda s: s[first(s):],
        'iloc-all': lambda s: s.iloc[:, :],
        'iloc-cols': lambda s: s.iloc[:, [0, 1]],
        'iloc-row': lambda s: s.iloc[0],
        'iloc-rows': lambda s: s.iloc[[0, 2]],
        'loc-rows': lambda s: s.loc[['x', 'z']],
        'loc-both': lambda s: s.loc['x':, two(s)],
        'relabel-columns-map': lambda s: s.relabel(columns={first(s): 'Q'}) if s.columns.depth == 1 else s.relabel(columns=lambda x: x),
        'relabel-columns-own-index': lambda s: s.relabel(columns=s.columns),
        'relabel-index': lambda s: s.relabel(index=lambda x: x + '_'),
        'relabel-both': lambda s: s.relabel(index=s.index, columns=s.columns),
        'relabel_flat': lambda s: s.relabel_flat(columns=True),
        'relabel_level_add': lambda s: s.relabel_level_add(columns='T'),
        'relabel_level_drop': lambda s: s.relabel_level_drop(columns=1),
        'rename': lambda s: s.rename('other'),
        'sort_index': lambda s: s.sort_index(ascending=False),
        'sort_columns': lambda s: s.sort_columns(ascending=False),
        'sort_values': lambda s: s.sort_values(first(s), ascending=False),
        'reindex-index': lambda s: s.reindex(index=('z', 'y', 'x', 'w')),
        'reindex-columns': lambda s: s.reindex(columns=two(s)),
        'reindex-same': lambda s: s.reindex(index=s.index, columns=s.columns),
        'mul': lambda s: s.iloc[:, [0]] * 2,
        'add-self': lambda s: s.iloc[:, [0]] + s.iloc[:, [0]],
        'eq-self': lambda s: s == s,
        'neg': lambda s: -s.iloc[:, [0]],
        'abs': lambda s: abs(s.iloc[:, [0]]),
        'iter_series': lambda s: tuple(s.iter_series()),
        'iter_series-rows': lambda s: tuple(s.iter_series(axis=1)),
        'iter_series_items': lambda s: tuple(s.iter_series_items()),
        'items': lambda s: tuple(s.items()),
        'iter_array': lambda s: tuple(s.iter_array()),
        'iter_group': lambda s: tuple(s.iter_group(first(s))),
        'iter_group_items': lambda s: tuple(s.iter_group_items(first(s))),
        'iter_group_labels': lambda s: tuple(s.iter_group_labels(0)),
        'iter_window': lambda s: tuple(s.iter_window(size=2)),
        'iter_element.apply': lambda s: s.iter_element().apply(lambda e: e),
        'iter_series.apply': lambda s: s.iter_series().apply(lambda x: x.iloc[0]),
        'set_index': lambda s: s.set_index(first(s)),
        'set_index-drop': lambda s: s.set_index(first(s), drop=True),
        'set_index_hierarchy': lambda s: s.set_index_hierarchy(two(s)),
        'unset_index': lambda s: s.unset_index(),
        'transpose': lambda s: s.transpose(),
        'T': lambda s: s.T,
        'astype': lambda s: s.iloc[:, [0]].astype(float),
        'astype-sel': lambda s: s.astype[first(s)](object),
        'assign': lambda s: s.assign[first(s)](0),
        'assign-loc': lambda s: s.assign.loc['x', first(s)](0),
        'drop': lambda s: s.drop[first(s)],
        'drop-iloc': lambda s: s.drop.iloc[0],
        'mask': lambda s: s.mask[first(s)],
        'fillna': lambda s: s.fillna(0),
        'dropna': lambda s: s.dropna(),
        'isna': lambda s: s.isna(),
        'notna': lambda s: s.notna(),
        'isin': lambda s: s.isin((1, 'p')),
        'head': lambda s: s.head(2),
        'tail': lambda s: s.tail(2),
        'roll': lambda s: s.roll(1),
        'roll-columns': lambda s: s.roll(columns=1, include_columns=True),
        'shift': lambda s: s.shift(1),
        'clip': lambda s: s.iloc[:, [0]].clip(lower=2),
        'drop_duplicated': lambda s: s.drop_duplicated(),
        'duplicated': lambda s: s.duplicated(),
        'sum': lambda s: s.iloc[:, [0, 1]].sum(),
        'count': lambda s: s.count(),
        'dtypes': lambda s: s.dtypes,
        'loc_max': lambda s: s.iloc[:, [0, 1]].loc_max(),
        'cumsum': lambda s: s.iloc[:, [0, 1]].cumsum(),
        'bloc': lambda s: s.bloc[s.iloc[:, [0]] > 1],
        'get': lambda s: s.get(first(s)),
        'columns-property': lambda s: s.columns,
        'index-property': lambda s: s.index,
        'keys': lambda s: s.keys(),
        'columns.copy': lambda s: s.columns.copy(),
        'columns.rename': lambda s: s.columns.rename('cn'),
        'columns.relabel': lambda s: s.columns.relabel(lambda x: x),
        'columns.iloc': lambda s: s.columns.iloc[:],
        'columns.iloc-list': lambda s: s.columns.iloc[[0, 1]],
        'IndexGO(columns)': lambda s: sf.IndexGO(s.columns) if s.columns.depth == 1 else sf.IndexHierarchyGO(s.columns),
        'Index(columns)': lambda s: sf.Index(s.columns) if s.columns.depth == 1 else sf.IndexHierarchy(s.columns),
        'columns.level_add': lambda s: s.columns.level_add('L'),
        'columns.union': lambda s: s.columns.union(s.columns),
        'columns.to_series': lambda s: s.columns.to_series(),
        'columns.sort': lambda s: s.columns.sort(ascending=False),
        'columns.roll': lambda s: s.columns.roll(1),
        # --- functional updates with nothing to do: the result must not be the receiver, nor share a growable member
        'insert_after-zero-columns': lambda s: s.insert_after(first(s), sf.Frame(index=s.index)),
        'insert_before-zero-columns': lambda s: s.insert_before(first(s), sf.Frame(index=s.index)),
        'insert_after-empty-frame': lambda s: s.insert_after(first(s), sf.Frame()),
        'insert_before-empty-series': lambda s: s.insert_before(first(s), sf.Series((), name='e')),
        'insert_after-zero-columns-go': lambda s: s.insert_after(first(s), sf.FrameGO(index=s.index)),
        'drop-nothing': lambda s: s.drop[[]],
        'drop.iloc-nothing': lambda s: s.drop.iloc[[], []],
        'drop.loc-nothing': lambda s: s.drop.loc[[], []],
        'astype-no-columns': lambda s: s.astype[[]](float),
        'astype-same': lambda s: s.astype[first(s)](s[first(s)].dtype),
        'assign-empty-key': lambda s: s.assign[[]](0),
        'assign.iloc-empty-key': lambda s: s.assign.iloc[[], []](0),
        'assign-same-values': lambda s: s.assign[first(s)](s[first(s)].values),
        'relabel-columns-identity': lambda s: s.relabel(columns=lambda x: x),
        'relabel-index-identity': lambda s: s.relabel(index=lambda x: x),
        'relabel-columns-same-labels': lambda s: s.relabel(columns=list(s.columns) if s.columns.depth == 1 else s.columns),
        'rename-same-name': lambda s: s.rename(s.name),
        'reindex-same-index': lambda s: s.reindex(index=s.index),
        'reindex-same-columns': lambda s: s.reindex(columns=s.columns),
        'reindex-same-labels-as-lists': lambda s: s.reindex(index=list(s.index), columns=[x if s.columns.depth == 1 else tuple(x) for x in s.columns.values]),
        'sort_index-sorted': lambda s: s.sort_index(),
        'sort_columns-sorted': lambda s: s.sort_columns(),
        'sort_values-sorted': lambda s: s.sort_values(first(s)),
        'head-all': lambda s: s.head(10),
        'tail-all': lambda s: s.tail(10),
        'iloc[:]': lambda s: s.iloc[:],
        'loc[:]': lambda s: s.loc[:],
        'loc[:, :]': lambda s: s.loc[:, :],
        'getitem-all': lambda s: s[:],
        'getitem-all-labels': lambda s: s[[x if s.columns.depth == 1 else tuple(x) for x in s.columns.values]],
        'copy.copy': lambda s: __import__('copy').copy(s),
        'copy.deepcopy': lambda s: __import__('copy').deepcopy(s),
        'pickle': lambda s: __import__('pickle').loads(__import__('pickle').dumps(s)),
        'roll-0': lambda s: s.roll(0),
        'roll-0-columns': lambda s: s.roll(0, 0),
        'shift-0': lambda s: s.shift(0),
        'fillna-nothing': lambda s: s.fillna(0),
        'dropna-nothing': lambda s: s.dropna(),
        'drop_duplicated-nothing': lambda s: s.drop_duplicated(),
        'sample-all': lambda s: s.sample(len(s.index), len(s.columns), seed=1),
        'from_concat-one-rows': lambda s: s.__class__.from_concat((s,), axis=0),
        'from_concat-one-columns': lambda s: s.__class__.from_concat((s,), axis=1),
        'from_concat-with-zero-columns': lambda s: s.__class__.from_concat((s, sf.Frame(index=s.index)), axis=1),
        'clip-nothing': lambda s: s.iloc[:, [0]].clip(),
        'set_index-unset_index': lambda s: s.unset_index().set_index(0, drop=True) if False else s.unset_index(),
        'transpose-transpose': lambda s: s.transpose().transpose(),
        'relabel_level_add-drop': lambda s: s.relabel_level_add(columns='T').relabel_level_drop(columns=1),
        'rehierarch-identity': lambda s: s.rehierarch(columns=(0, 1)),
        'insert_after': lambda s: s.insert_after(first(s), sf.Frame.from_dict({'ins': (0, 0, 0)}, index=s.index)),
        'insert_before': lambda s: s.insert_before(first(s), sf.Series((0, 0, 0), index=s.index, name='ins')),
        'from_concat-columns': lambda s: s.__class__.from_concat((s, s.relabel(columns=lambda x: ('k', x))), axis=1),
        'from_concat-rows': lambda s: s.__class__.from_concat((s, s.relabel(index=lambda x: x + '2')), axis=0),
        'FrameGO.from_concat': lambda s: sf.FrameGO.from_concat((s,), axis=1),
        'from_items': lambda s: sf.FrameGO.from_items(s.items()),
        'from_series': lambda s: sf.FrameGO.from_series(s[first(s)]),
        'join_left': lambda s: s.join_left(s.iloc[:, [0]].relabel(columns=('j',)), left_depth_level=0, right_depth_level=0),
        'pivot_stack': lambda s: s.pivot_stack(),
        'rehierarch': lambda s: s.rehierarch(columns=(1, 0)),
        'unique': lambda s: s.unique(),
        'to_pairs': lambda s: s.to_pairs(),
        'sample': lambda s: s.sample(2, seed=3),
    }
    return D


def _index_sources():
    import static_frame as sf
    return [('IndexGO', lambda: sf.IndexGO(('a', 'b', 'c'), name='n')),
            ('IndexGO-auto', lambda: sf.IndexGO(range(3), loc_is_iloc=True)),
            ('IndexGO-grown', lambda: _grown_index()),
            ('Index', lambda: sf.Index(('a', 'b', 'c'), name='n')),
            ('IndexHierarchyGO', lambda: sf.IndexHierarchyGO.from_labels((('a', 1), ('a', 2), ('b', 1)), name='n')),
            ('IndexHierarchy', lambda: sf.IndexHierarchy.from_labels((('a', 1), ('a', 2), ('b', 1)), name='n'))]


def _grown_index():
    import static_frame as sf
    i = sf.IndexGO(('a',))
    i.append('b')
    i.extend(('c', 'd'))
    return i


def _index_derivations():
    import static_frame as sf

    def go_of(s):
        return sf.IndexGO(s) if s.depth == 1 else sf.IndexHierarchyGO(s)

    def st_of(s):
        return sf.Index(s) if s.depth == 1 else sf.IndexHierarchy(s)

    return {
        'copy': lambda s: s.copy(),
        '__copy__': lambda s: __import__('copy').copy(s),
        'deepcopy': lambda s: __import__('copy').deepcopy(s),
        'rename': lambda s: s.rename('other'),
        'relabel': lambda s: s.relabel(lambda x: x),
        'iloc-all': lambda s: s.iloc[:],
        'iloc-list': lambda s: s.iloc[[0, 1]],
        'iloc-slice': lambda s: s.iloc[1:],
        'loc-slice': lambda s: s.loc[s.values[0] if s.depth == 1 else tuple(s.values[0]):],
        'GO(s)': go_of,
        'static(s)': st_of,
        'cls(s)': lambda s: s.__class__(s),
        'GO(static(s))': lambda s: go_of(st_of(s)),
        'static(GO(s))': lambda s: st_of(go_of(s)),
        'union-self': lambda s: s.union(s),
        'intersection-self': lambda s: s.intersection(s),
        'union-other': lambda s: s.union(s.iloc[:1]),
        'sort': lambda s: s.sort(ascending=False),
        'roll': lambda s: s.roll(1),
        'level_add': lambda s: s.level_add('L'),
        'level_drop': lambda s: s.level_drop(1),
        'level_drop(-1)': lambda s: s.level_drop(-1),
        'static(levels)': lambda s: sf.IndexHierarchy(s._levels),
        'pickle': lambda s: __import__('pickle').loads(__import__('pickle').dumps(s)),
        'flat': lambda s: s.flat(),
        'to_series': lambda s: s.to_series(),
        'to_frame': lambda s: s.to_frame(),
        'to_frame_go': lambda s: s.to_frame_go(),
        'Series(index=s)': lambda s: sf.Series(range(len(s)), index=s),
        'Frame(columns=s)': lambda s: sf.Frame(np.arange(len(s) * 2).reshape(2, len(s)), columns=s),
        'FrameGO(columns=s)': lambda s: sf.FrameGO(np.arange(len(s) * 2).reshape(2, len(s)), columns=s),
        'FrameGO(index=s)': lambda s: sf.FrameGO(np.arange(len(s) * 2).reshape(len(s), 2), index=s),
        'Series(index=s).index': lambda s: sf.Series(range(len(s)), index=s).index,
        'FrameGO(columns=s).columns': lambda s: sf.FrameGO(np.arange(len(s) * 2).reshape(2, len(s)), columns=s).columns,
        'isin': lambda s: s.isin(s.values[:1].tolist() if s.depth == 1 else [tuple(s.values[0])]),
        'astype': lambda s: s.astype(object),
        'rehierarch': lambda s: s.rehierarch((1, 0)),
        'from_labels(iter)': lambda s: s.__class__.from_labels(iter(s)),
        'values_at_depth': lambda s: s.values_at_depth(0),
        'index_types': lambda s: s.index_types,
        'fillna': lambda s: s.fillna('z'),
        'head': lambda s: s.head(2),
        'tail': lambda s: s.tail(2),
        'drop.iloc': lambda s: s.drop.iloc[0],
        # --- nothing to do
        'loc-all': lambda s: s.loc[:],
        'rename-same-name': lambda s: s.rename(s.name),
        'relabel-same-labels': lambda s: s.relabel(dict()) ,
        'union-empty': lambda s: s.union(()),
        'difference-empty': lambda s: s.difference(()),
        'sort-sorted': lambda s: s.sort(),
        'roll-0': lambda s: s.roll(0),
        'head-all': lambda s: s.head(10),
        'tail-all': lambda s: s.tail(10),
        'drop.iloc-nothing': lambda s: s.drop.iloc[[]],
        'drop.loc-nothing': lambda s: s.drop.loc[[]],
        'astype-same': lambda s: s.astype(s.dtype) if s.depth == 1 else s.astype[0](object),
        'fillna-nothing': lambda s: s.fillna('z'),
        'iloc-all-list': lambda s: s.iloc[list(range(len(s)))],
        'level_add-level_drop': lambda s: s.level_add('L').level_drop(1),
        'rehierarch-identity': lambda s: s.rehierarch((0, 1)),
        'add': lambda s: s + '_',
        'iter_label.apply': lambda s: s.iter_label().apply(lambda x: x),
    }


def _auto_derivations(src):
    """Every public zero-argument method / property of the source's class that is not curated above."""
    skip_prefix = ('from_', 'to_', 'display', 'interface', 'extend', 'append', 'via_', 'mloc', 'iter_', 'STATIC')
    keep = ('to_frame', 'to_frame_go', 'to_frame_he', 'to_pairs', 'to_series')
    out = {}
    for name in sorted(dir(type(src))):
        if name.startswith('_'):
            continue
        if name.startswith(skip_prefix) and name not in keep:
            continue
        out['auto:' + name] = (lambda nm: (lambda s: (lambda a: a() if callable(a) else a)(getattr(s, nm))))(name)
    return out


class _OwnSites:
    """Records the construction call sites (file:line) that pass an own_* keyword while the sharing stratum runs."""

    def __init__(self):
        self.sites = set()
        self._orig = []

    def __enter__(self):
        import sys
        import static_frame as sf
        from static_frame.core.index_hierarchy import IndexHierarchy
        sites = self.sites

        def wrap(cls):
            orig = cls.__dict__.get('__init__')
            if orig is None:
                return

            def init(self_, *a, **k):
                if any(key.startswith('own_') for key in k):
                    fr = sys._getframe(1)
                    fn = fr.f_code.co_filename
                    if 'static_frame' in fn:
                        flags = ','.join(f'{key}={k[key]!r}' for key in sorted(k) if key.startswith('own_') and isinstance(k[key], bool))
                        sites.add((fn.split('static_frame/')[-1], fr.f_lineno, cls.__name__, flags))
                return orig(self_, *a, **k)
            self._orig.append((cls, orig))
            cls.__init__ = init
        for cls in (sf.Frame, sf.Series, IndexHierarchy):
            wrap(cls)
        return self

    def __exit__(self, *exc):
        for cls, orig in self._orig:
            cls.__init__ = orig
        return False


def _own_sites_in_source():
    """Number of call sites with an own_* keyword in the core package (AST scan), for the coverage figure."""
    import ast
    import os
    from ..core import REPO
    n = 0
    root = os.path.join(REPO, 'static_frame', 'core')
    for fn in sorted(os.listdir(root)):
        if not fn.endswith('.py'):
            continue
        try:
            tree = ast.parse(open(os.path.join(root, fn)).read())
        except SyntaxError:
            continue
        for node in ast.walk(tree):
            if isinstance(node, ast.Call) and any(kw.arg and kw.arg.startswith('own_') for kw in node.keywords):
                n += 1
    return n


def _alias_outcome(live, problems, how):
    """The recorded outcome of the two alias findings, or 'other'.
    'columns': every derived container IS the source's own columns object; the only deviations are that this object is
               shared and that growth of the frame / of that index shows in the other.
    'copy':    every derived container is another FrameGO holding the source's _columns AND _blocks objects; the only
               deviations are those shared objects and growth of one frame showing in the other."""
    import static_frame as sf
    src = live[0][1]
    derived = [c for _, c in live[1:]]
    if not derived or not problems:
        return 'other'
    if how == 'columns':
        if not all(c is src._columns for c in derived):
            return 'other'
        want = 'the-frames-own-columns-object'
    else:
        if not all(isinstance(c, sf.FrameGO) and c is not src and c._columns is src._columns and c._blocks is src._blocks for c in derived):
            return 'other'
        want = 'shallow-copy-holds-the-same-columns-and-blocks'
    out_of_step = False          # the recorded consequence of appending to the alias: the frame has a label without data
    for p in problems:
        ok = ('share the mutable object' in p or ' IS the grow-only container ' in p
              or (p.startswith('growing ') and ' changed ' in p and "'unreadable'" not in p.split(' -> ')[0]))
        if how == 'columns' and p.startswith('growing d') and ' changed source' in p:
            out_of_step = True
        if 'did not change it' in p:
            ok = how == 'columns' and out_of_step and p.startswith('growing source ')
        if not ok:
            return 'other'
    return want



def sharing_history(src_name, make_src, dname, derive):
    """derive -> grow source -> derive again -> grow every grow-only derived -> grow source again; after every
    growth every OTHER live container must read exactly as before, and no object a growth call mutates may
    be reachable from two containers."""
    src = make_src()
    live = [('source', src)]
    steps = []
    problems = []

    def add_derived(tag):
        try:
            res = derive(src)
        except Exception as e:  # noqa
            steps.append({'derive': dname, 'raised': type(e).__name__})
            return False
        got = _containers_in(res)
        for k, c in enumerate(got):
            live.append((f'{tag}[{k}]:{type(c).__name__}', c))
        steps.append({'derive': dname, 'containers': [type(c).__name__ for c in got]})
        return bool(got)

    def check_identity(when):
        for i, (ni, ci) in enumerate(live):
            if not _is_go(ci):
                continue
            mine = {id(o): p for p, o in mutable_parts(ci, grown_only=True)}
            for j, (nj, cj) in enumerate(live):
                if i == j or cj is ci:
                    if cj is ci and i != j and i < j:
                        problems.append(f'{when}: {nj} IS the grow-only container {ni} (same object)')
                    continue
                for p, o in mutable_parts(cj):
                    if id(o) in mine:
                        problems.append(f'{when}: {ni} and {nj} share the mutable object {mine[id(o)]}')
                        break

    def grow_and_check(i, k):
        name, c = live[i]
        before = [content(x) for _, x in live]
        try:
            what = grow(c, k)
        except Exception as e:  # noqa
            steps.append({'grow': name, 'raised': type(e).__name__})
            return
        steps.append({'grow': name, 'call': what})
        after = [content(x) for _, x in live]
        for j, (nj, cj) in enumerate(live):
            if cj is c:
                if j != i:
                    pass
                continue
            if before[j] != after[j]:
                problems.append(f'growing {name} ({what}) changed {nj}: {str(before[j])[:120]} -> {str(after[j])[:120]}')
        if content(c) == before[i]:
            problems.append(f'growing {name} ({what}) did not change it')

    ok = add_derived('d1')
    if not ok:
        return None, steps, problems
    check_identity('after the first derivation')
    k = 0
    if _is_go(src):
        grow_and_check(0, k)
        k += 1
        add_derived('d2')
        check_identity('after growing the source and deriving again')
    for i in range(1, len(live)):
        if _is_go(live[i][1]) and not any(live[i][1] is live[j][1] for j in range(i)):
            grow_and_check(i, k)
            k += 1
    if _is_go(src):
        grow_and_check(0, k)
    return live, steps, problems


def sharing_cases(ctx):
    n_sites = _own_sites_in_source()
    with _OwnSites() as rec:
        emitted = 0
        for family, sources, derivs in (('frame', _base_frames(), _frame_derivations()),
                                        ('index', _index_sources(), _index_derivations())):
            for src_name, make_src in sources:
                table = dict(derivs)
                if ctx.tier == 'thorough' or src_name in ('FrameGO', 'Frame', 'IndexGO', 'IndexHierarchyGO'):
                    table.update({k: v for k, v in _auto_derivations(make_src()).items()})
                for dname, derive in sorted(table.items()):
                    try:
                        live, steps, problems = sharing_history(src_name, make_src, dname, derive)
                    except Exception as e:  # noqa
                        yield _escaped('api:sharing-' + family, {'source': src_name, 'derivation': dname}, e, {'container': src_name, 'derivation': dname})
                        continue
                    if live is None:
                        ctx.count('sharing:not-applicable')
                        continue
                    go_involved = any(_is_go(c) for _, c in live)
                    ctx.count(f'sharing:{family}:{src_name}', 'sharing:grown' if go_involved else 'sharing:no-grow-only-container')
                    tags = {'container': src_name, 'derivation': dname}
                    base = dname.replace('auto:', '')
                    if base in ('columns-property', 'columns', 'keys') and src_name.startswith('FrameGO'):
                        tags['input_class'] = F_COLPROP
                        tags['outcome'] = _alias_outcome(live, problems, 'columns')
                        if tags['outcome'] == 'the-frames-own-columns-object':
                            tags['finding'] = F_COLPROP
                    if dname == 'copy.copy' and src_name.startswith('FrameGO'):
                        tags['input_class'] = F_COPY
                        tags['outcome'] = _alias_outcome(live, problems, 'copy')
                        if tags['outcome'] == 'shallow-copy-holds-the-same-columns-and-blocks':
                            tags['finding'] = F_COPY
                    desc = {'source': src_name, 'derivation': dname, 'steps': steps, 'problems': problems[:4]}
                    emitted += 1
                    yield Case('api:sharing-' + family, desc, py_fail='; '.join(problems[:3]) if problems else None,
                               tags=tags, nontrivial=go_involved, key=f'{src_name}|{dname}')
    ctx.dist['sharing:own_*-call-sites-executed'] = len({(f, l) for f, l, _, _ in rec.sites})
    ctx.dist['sharing:own_*-call-sites-in-source'] = n_sites


# ----------------------------------------------------------------------------- IndexHierarchyGO histories
F_HIER_EDGE = 'C09-hier-append-outer-label-not-last'
F_HIER_EXT = 'C09-indexhierarchygo-extend-partial'
F_HIER_EMPTY = 'C09-indexhierarchygo-extend-on-empty'


def _tree_lit(level):
    """Literal of the model tree, read off the real IndexLevel tree (kernel-level, at construction only)."""
    labels = lit.vlist(level.index.values.tolist())
    if level.targets is None:
        return f'(Leaf {labels})'
    return f'(Node {labels} {lit.lst([_tree_lit(t) for t in level.targets])})'


def _tuples_lit(rows):
    return lit.lst([lit.vlist(list(r)) for r in rows])


def snap_hier(ih, full):
    rows = [tuple(_j(x) for x in r) for r in ih]          # iteration over the tree: no cache is touched
    n = len(ih)
    coherent = None
    if full:
        try:
            vals = [tuple(r) for r in ih.values.tolist()]
            coherent = (vals == rows and len(ih.positions) == len(rows)
                        and all(ih.loc_to_iloc(r) == i for i, r in enumerate(rows))
                        and all(r in ih for r in rows))
        except Exception:  # noqa
            coherent = False
    return rows, n, coherent


def _hseen_lit(snap):
    rows, n, coherent = snap
    c = 'None' if coherent is None else f'(Some {lit.b(coherent)})'
    return f'(mk_hseen {_tuples_lit(rows)} {lit.z(n)} {c})'


def _make_ih(labels, depth, go=True):
    import static_frame as sf
    cls = sf.IndexHierarchyGO if go else sf.IndexHierarchy
    if not labels:
        return cls.from_labels((), depth_reference=depth)
    return cls.from_labels(labels)


def hier_history(labels, depth, ops, look, model=True):
    ih = _make_ih(labels, depth)
    tree0 = _tree_lit(ih._levels)
    recs, steps = [], []
    for op, see in zip(ops, look):
        if op[0] == 'append':
            exc = _call(lambda: ih.append(op[1]))
            ol = f'(HAppend {lit.vlist(list(op[1]))})'
        elif op[0] == 'extend':
            other = _make_ih(op[1], depth if len(op) < 3 else op[2], go=bool(len(op) > 3 and op[3]))
            exc = _call(lambda: ih.extend(other))
            ol = f'(HExtend (mk_hgo {_tree_lit(other._levels)} {lit.z(other.depth)}))'
        else:
            exc = _call(lambda: (ih.values, len(ih)))
            ol = 'HRead'
        try:
            snap = snap_hier(ih, see)
        except Exception as e:  # noqa -- a tree that cannot even be iterated
            snap = ([('unreadable', type(e).__name__)], -1, False)
        recs.append(f'({ol}, {_out(exc)}, {_hseen_lit(snap)})')
        steps.append({'op': [op[0]] + [_j(x) for x in op[1:]], 'raised': None if exc is None else type(exc).__name__,
                      'seen': {'labels': _j(snap[0]), 'len': snap[1], 'coherent': snap[2]}})
    h = lit.lst(recs)
    desc = {'container': 'IndexHierarchyGO', 'labels': _j(labels), 'depth': depth, 'steps': steps}
    m = f'check_hgo_M {tree0} {lit.z(depth)} {h}' if model else None
    s = f'check_hgo_S {lit.z(depth)} {_tuples_lit(labels)} {h}'
    return desc, m, s


def classify_hier_ops(labels, depth, ops):
    """No finding class is left for IndexHierarchyGO (fixes 5320f59, 4b2944d, c675c22)."""
    return None


CORPUS_HIER = [
    ([('a', 1), ('b', 1)], 2, [('append', ('a', 2)), ('read',)], True),
    ([('a', 1, 'x'), ('b', 1, 'y'), ('c', 1, 'x')], 3, [('append', ('b', 1, 'y'))], True),
    ([('a', 1), ('b', 1)], 2, [('extend', [('c', 1), ('b', 2)]), ('append', ('c', 5)), ('read',)], True),
    ([], 2, [('extend', [('a', 1), ('a', 2)]), ('append', ('a', 1)), ('read',)], True),
]


def hier_exhaustive(ctx):
    N = 3 if ctx.tier == 'quick' else 4
    alpha = [('append', ('a', 2)), ('append', ('b', 1)), ('append', ('b', 2)), ('append', ('c', 1)), ('append', ('b',)),
             ('extend', [('c', 1), ('c', 2)]), ('extend', [('d', 1), ('e', 1)]), ('extend', [('b', 7), ('f', 1)]), ('read',)]
    for labels in ([('a', 1)], [('a', 1), ('b', 1)]):
        for n in range(1, (N if len(labels) == 2 else 3) + 1):
            for ops in itertools.product(alpha, repeat=n):
                yield labels, 2, list(ops), [i % 2 == 1 for i in range(n)]


def hier_random(ctx, count):
    rng = ctx.rng
    for _ in range(count):
        depth = rng.choice([2, 2, 3])
        outers = ['a', 'b', 'c', 'd', 'e', 'f']
        mids = [1, 2, 3]
        inners = ['x', 'y', 'z'] if depth == 3 else [1, 2, 3, 4]

        def rand_tree(outs):
            out = []
            for o in outs:
                if depth == 2:
                    for i in sorted(rng.sample(inners, rng.randint(1, 2))):
                        out.append((o, i))
                else:
                    for m in sorted(rng.sample(mids, rng.randint(1, 2))):
                        for i in sorted(rng.sample(inners, rng.randint(1, 2))):
                            out.append((o, m, i))
            return out
        n0 = rng.randint(0, 2)
        cur = rand_tree(outers[:n0])
        labels = list(cur)
        ops = []
        nops = rng.randint(1, 6)
        special_at = rng.randrange(nops) if rng.random() < 0.15 else -1
        for i in range(nops):
            r = rng.random()
            used = []
            for l in cur:
                if l[0] not in used:
                    used.append(l[0])
            free = [o for o in outers if o not in used]
            if i == special_at and len(used) >= 2:
                if rng.random() < 0.6:
                    # a label whose outer part exists but is not the last one (the finding class), fresh or duplicate
                    o = rng.choice(used[:-1])
                    key = (o,) + tuple(rng.choice(mids if (depth == 3 and j == 1) else inners) for j in range(1, depth))
                    ops.append(('append', key))
                    continue
                if free:
                    ops.append(('extend', rand_tree([free[0]]) + [(used[0],) + cur[0][1:]]))
                    continue
            if r < 0.12:
                ops.append(('read',))
            elif r < 0.6:
                c = rng.random()
                if cur and c < 0.5:
                    last = cur[-1]
                    if depth == 2:
                        key = (last[0], rng.choice(inners + [9, 8]))
                    else:
                        key = (last[0], last[1], rng.choice(inners + ['q'])) if rng.random() < 0.6 else (last[0], rng.choice([m for m in mids + [7] if m >= last[1]]), rng.choice(inners))
                        # a middle label found in the node but not its last one would be in the finding class
                        if key[1] != last[1] and key[1] in {l[1] for l in cur if l[0] == last[0]}:
                            continue
                elif free and c < 0.85:
                    key = (free[0],) + tuple(rng.choice(mids if (depth == 3 and j == 1) else inners) for j in range(1, depth))
                elif cur:
                    key = cur[-1][:-1] if rng.random() < 0.5 else cur[-1] + (1,)      # wrong depth
                else:
                    key = ('a',) * (depth - 1)
                ops.append(('append', key))
                if len(key) == depth and key not in cur:
                    cur.append(key)
            else:
                c = rng.random()
                if c < 0.6 and free:
                    k = rng.randint(1, min(2, len(free)))
                    other = rand_tree(free[:k])
                    ops.append(('extend', other, depth, rng.random() < 0.4))
                    cur.extend(other)
                elif c < 0.8 and used:
                    other = rand_tree([used[0]] + free[:1])        # rejected at the first outer label
                    ops.append(('extend', other))
                else:
                    od = 5 - depth
                    other = [('z',) + (1,) * (od - 1)]
                    ops.append(('extend', other, od))                # other depth
        if not ops:
            continue
        look = [rng.random() < 0.6 for _ in ops]
        look[-1] = True
        yield labels, depth, ops, look


def hier_cases(ctx):
    def emit(kind, labels, depth, ops, look, model=True):
        try:
            desc, m, s = hier_history(labels, depth, ops, look, model)
        except Exception as e:  # noqa
            return _escaped(kind, {'container': 'IndexHierarchyGO', 'labels': _j(labels), 'ops': _j([list(o) for o in ops])}, e, {'container': 'IndexHierarchyGO'})
        f = classify_hier_ops(labels, depth, ops)
        ctx.count(f'hier:depth{depth}', f'hier:len{len(ops)}')
        for op in ops:
            ctx.count('hier:op:' + op[0])
        for st in desc['steps']:
            if st['raised']:
                ctx.count('hier:raised:' + st['raised'])
        tags = {'container': 'IndexHierarchyGO'}
        if f:
            tags['finding'] = f
        return Case(kind, desc, m=m, s=s, tags=tags,
                    nontrivial=any(st['raised'] is None and st['op'][0] != 'read' for st in desc['steps']))
    for labels, depth, ops, model in CORPUS_HIER:
        yield emit('api:IndexHierarchyGO-corpus', labels, depth, ops, [True] * len(ops), model)
    for labels, depth, ops, look in hier_exhaustive(ctx):
        yield emit('api:IndexHierarchyGO-exhaustive', labels, depth, ops, look)
    for labels, depth, ops, look in hier_random(ctx, ctx.n(150, 2000)):
        yield emit('api:IndexHierarchyGO-random', labels, depth, ops, look)
    for labels, depth, ops, look in hier_deep(ctx):
        yield emit('api:IndexHierarchyGO-deep', labels, depth, ops, look)


# ----------------------------------------------------------------------------- deep hierarchies (depth 3 and 4)
DEEP_CHOICES = [('a', 'b', 'c'), ('x', 'y', 'z'), ('p', 'q', 'r'), (1, 2, 3)]     # per depth: existing-not-last, existing-last, new


def _deep_setup(depth):
    """A full two-way tree of the given depth (labels in tree order; the last path takes the second label at every depth)
    and every key that takes, per depth, the existing-not-last / existing-last / new label."""
    levels = DEEP_CHOICES[:depth - 1] + [DEEP_CHOICES[3]]
    labels = [tuple(c) for c in itertools.product(*[lv[:2] for lv in levels])]
    keys = [tuple(c) for c in itertools.product(*levels)]
    return labels, keys


def hier_deep(ctx):
    """Every combination of existing-last / existing-not-last / new per depth, alone and in pairs (depth 3: all pairs)."""
    rng = ctx.rng
    for depth in (3, 4):
        labels, keys = _deep_setup(depth)
        for k in keys:
            yield labels, depth, [('append', k)], [True]
        if depth == 3:
            pairs = list(itertools.product(keys, keys))
            if ctx.tier == 'quick':
                pairs = rng.sample(pairs, 300)
        else:
            pairs = [(rng.choice(keys), rng.choice(keys)) for _ in range(ctx.n(150, 2500))]
        for k1, k2 in pairs:
            yield labels, depth, [('append', k1), ('append', k2)], [False, True]
        # ragged trees: the same keys against a hierarchy whose last outer label has a single inner label
        ragged = [l for l in labels if not (l[0] == 'b' and l[1] == 'x')]
        for k in keys:
            yield ragged, depth, [('append', k), ('read',)], [True, True]


def hier_frame_history(depth, labels, ops):
    """FrameGO with hierarchical (IndexHierarchyGO) columns: f[key] = values / f.extend(Frame with hierarchical
    columns).  Decided on the Python side after every call: refused with the frame exactly as it was, or the
    labels are the old labels followed by exactly the given ones and the data sits under the given keys."""
    import static_frame as sf
    n = len(labels)
    f = sf.FrameGO(np.arange(2 * n).reshape(2, n), index=('r0', 'r1'), columns=sf.IndexHierarchyGO.from_labels(labels))

    def view():
        return ([tuple(_j(x) for x in l) for l in f.columns], tuple(f.shape), f.values.tolist(),
                repr([tuple(r) for r in f.columns.values.tolist()]))
    steps, problem = [], None
    for k, op in enumerate(ops):
        try:
            before = view()
        except Exception as e:  # noqa
            problem = problem or f'before step {k + 1} the frame cannot be read: {type(e).__name__}'
            break
        if op[0] == 'set':
            given = [tuple(op[1])]
            data = np.array([[100 + k], [200 + k]])
            exc = _call(lambda: f.__setitem__(tuple(op[1]), data[:, 0]))
        else:
            given = [tuple(x) for x in op[1]]
            data = np.arange(2 * len(given)).reshape(2, len(given)) + 1000 * (k + 1)
            other = sf.Frame(data, index=('r0', 'r1'), columns=sf.IndexHierarchy.from_labels(given))
            exc = _call(lambda: f.extend(other))
        step = {'op': [op[0], _j(op[1])], 'raised': None if exc is None else type(exc).__name__}
        try:
            after = view()
            step['columns'] = _j(after[0])
            step['shape'] = list(after[1])
        except Exception as e:  # noqa
            steps.append(step)
            problem = problem or f'after step {k + 1} ({op[0]} {op[1]!r}) the frame cannot be read: {type(e).__name__}: {str(e)[:80]}'
            break
        steps.append(step)
        if problem:
            continue
        old = before[0]
        dup = any(g in old for g in given) or len(set(given)) != len(given) or any(len(g) != depth for g in given)
        if exc is not None:
            if after != before:
                problem = f'step {k + 1}: {op[0]} {op[1]!r} raised {type(exc).__name__} but the frame changed: columns {before[0][-3:]} -> {after[0][-3:]}, shape {before[1]} -> {after[1]}'
        else:
            if dup:
                problem = f'step {k + 1}: {op[0]} {op[1]!r} gives a label that is already there (or of the wrong depth) and was accepted'
            elif after[0] != old + given:
                problem = f'step {k + 1}: {op[0]} {op[1]!r} accepted, columns are {after[0][len(old) - 1:]} instead of {(old + given)[len(old) - 1:]}'
            elif after[1] != (2, len(old) + len(given)) or after[3] != repr([tuple(l) for l in old + given]):
                problem = f'step {k + 1}: labels and data out of step after {op[0]} {op[1]!r}: shape {after[1]}, columns.values {after[3][-80:]}'
            else:
                for j, g in enumerate(given):
                    try:
                        got = f[g].values.tolist()
                    except Exception as e:  # noqa
                        problem = f'step {k + 1}: after f[{g!r}] = ... reading f[{g!r}] raises {type(e).__name__}'
                        break
                    if got != data[:, j].tolist():
                        problem = f'step {k + 1}: f[{g!r}] holds {got}, given {data[:, j].tolist()}'
                        break
                if not problem and repr(f.iloc[:, :len(old)].values.tolist()) != repr([r[:len(old)] for r in before[2]]):
                    problem = f'step {k + 1}: the columns present before changed'
    desc = {'container': 'FrameGO with IndexHierarchyGO columns', 'depth': depth, 'columns': _j(labels), 'steps': steps}
    return desc, problem


def hier_frame_cases(ctx):
    rng = ctx.rng
    for depth in (3, 4):
        labels, keys = _deep_setup(depth)
        hist = [[('set', k)] for k in keys]
        hist += [[('set', rng.choice(keys)), ('set', rng.choice(keys))] for _ in range(ctx.n(60, 600))]
        new_outer = [k for k in keys if k[0] == 'c']
        old_outer = [k for k in keys if k[0] != 'c']
        for _ in range(ctx.n(20, 200)):
            a = sorted(rng.sample(new_outer, 2))
            hist.append([('extend', a), ('set', rng.choice(keys))])
            hist.append([('extend', [a[0], rng.choice(old_outer)]), ('set', rng.choice(keys))])
        for ops in hist:
            try:
                desc, problem = hier_frame_history(depth, labels, ops)
            except Exception as e:  # noqa
                yield _escaped('api:FrameGO-hier-columns', {'depth': depth, 'ops': _j([list(o) for o in ops])}, e, {'container': 'FrameGO-hier-columns'})
                continue
            ctx.count(f'hierframe:depth{depth}', f'hierframe:len{len(ops)}')
            for st in desc['steps']:
                ctx.count('hierframe:' + ('raised:' + st['raised'] if st['raised'] else 'accepted'))
            yield Case('api:FrameGO-hier-columns', desc, py_fail=problem, tags={'container': 'FrameGO-hier-columns'},
                       nontrivial=any(st['raised'] is None for st in desc['steps']))


# ----------------------------------------------------------------------------- typed grow-only indices (dates)
F_TYPED_EXT = 'C09-typed-indexgo-extend-validates-uncoerced-values'
TYPED = {'IndexYearGO': 'Y', 'IndexYearMonthGO': 'M', 'IndexDateGO': 'D'}


def typed_history(cls_name, labels, ops):
    """IndexYearGO / IndexYearMonthGO / IndexDateGO: labels are coerced to the index's unit on the way in; the
    specification (append-only, duplicates rejected, all-or-nothing) is decided on the Python side with NumPy's own
    coercion np.datetime64(value, unit)."""
    import static_frame as sf
    unit = TYPED[cls_name]
    idx = getattr(sf, cls_name)(labels)
    co = lambda v: str(np.datetime64(v, unit))
    steps, problem = [], None
    kinds = []          # kind of every deviation met: 'extend-kept-prefix-before-duplicate' is the recorded defect
    for k, op in enumerate(ops):
        before = [str(x) for x in idx.values]
        given = [op[1]] if op[0] == 'append' else list(op[1])
        exc = _call(lambda: idx.append(op[1]) if op[0] == 'append' else idx.extend(op[1]))
        try:
            after = [str(x) for x in idx.values]
            npos = len(idx.positions)
        except Exception as e:  # noqa
            after, npos = [_unreadable(e)], -1
        steps.append({'op': [op[0], _j(op[1])], 'raised': None if exc is None else type(exc).__name__, 'values': after, 'positions': npos})
        want = [co(v) for v in given]
        dup = any(w in before for w in want) or len(set(want)) != len(want)
        if exc is not None and after != before:
            first_dup = next((i for i, w in enumerate(want) if w in before or w in want[:i]), None)
            recorded = (op[0] == 'extend' and type(exc).__name__ == 'KeyError' and first_dup is not None and first_dup > 0
                        and after == before + want[:first_dup] and npos == len(after))
            kinds.append('extend-kept-prefix-before-duplicate' if recorded else 'other')
            problem = problem or f'step {k + 1}: {op[0]} {op[1]!r} raised {type(exc).__name__} but the index changed: {before} -> {after}'
        elif exc is None and dup:
            kinds.append('other')
            problem = problem or f'step {k + 1}: {op[0]} {op[1]!r} holds a duplicate label and was accepted: {after}'
        elif exc is None and (after != before + want or npos != len(after)):
            kinds.append('other')
            problem = problem or f'step {k + 1}: {op[0]} {op[1]!r} accepted: {after} (positions {npos}) instead of {before + want}'
    outcome = 'none' if not kinds else ('extend-kept-prefix-before-duplicate' if all(x != 'other' for x in kinds) else 'other')
    return {'container': cls_name, 'labels': _j(labels), 'steps': steps}, problem, outcome


def _typed_class(cls_name, labels, ops):
    """Finding class by construction: an extend where a value after the first coerces to a label that is held or was
    given before it in the same call, while validation (which compares the un-coerced value) cannot see that."""
    unit = TYPED[cls_name]
    co = lambda v: str(np.datetime64(v, unit))
    cur = [co(v) for v in labels]
    for op in ops:
        given = [op[1]] if op[0] == 'append' else list(op[1])
        added, rejected = [], False
        for k, v in enumerate(given):
            if co(v) in cur + added:
                if k > 0 and op[0] == 'extend':
                    return F_TYPED_EXT
                rejected = True
                break
            added.append(co(v))
        if not rejected:
            cur += added
    return None


def typed_cases(ctx):
    rng = ctx.rng
    corpus = [('IndexYearMonthGO', ['2020-01', '2020-02'], [('extend', ['2020-03-01', '2020-03-15']), ('append', '2020-04')]),
              ('IndexDateGO', ['2020-01-01'], [('extend', ['2020-03-01', np.datetime64('2020-03-01')])]),
              ('IndexYearGO', ['2020'], [('extend', ['2021-05', '2021-07'])]),
              ('IndexYearMonthGO', ['2020-01'], [('extend', ['2020-02', '2020-03']), ('append', '2020-02-11'), ('extend', ['2020-01-30', '2020-05'])])]
    hist = list(corpus)
    pool = {'IndexYearGO': ['2019', '2020-03', '2021-07-04', '2021', '2022-01', '2023', '2020'],
            'IndexYearMonthGO': ['2020-01', '2020-01-15', '2020-02', '2020-03-01', '2020-03', '2020-04-30', '2021-01'],
            'IndexDateGO': ['2020-01-01', '2020-01-02', '2020-02-01', '2020-03-01', '2021-01-01', '2020-01-03']}
    for _ in range(ctx.n(60, 600)):
        cls_name = rng.choice(sorted(TYPED))
        vals = pool[cls_name]
        ops = []
        for _ in range(rng.randint(1, 4)):
            if rng.random() < 0.5:
                ops.append(('append', rng.choice(vals)))
            else:
                ops.append(('extend', rng.sample(vals, rng.randint(0, 3))))
        hist.append((cls_name, [vals[0]], ops))
    for cls_name, labels, ops in hist:
        try:
            desc, problem, outcome = typed_history(cls_name, labels, ops)
        except Exception as e:  # noqa
            yield _escaped('api:typed-IndexGO', {'container': cls_name, 'ops': _j([list(o) for o in ops])}, e, {'container': cls_name})
            continue
        tags = {'container': cls_name}
        f = _typed_class(cls_name, labels, ops)
        if f:
            # the finding tag is set only when the input is in the class AND the recorded outcome was observed
            tags['input_class'] = f
            tags['outcome'] = outcome
            if outcome == 'extend-kept-prefix-before-duplicate':
                tags['finding'] = f
        ctx.count('typed:' + cls_name)
        yield Case('api:typed-IndexGO', desc, py_fail=problem, tags=tags,
                   nontrivial=any(st['raised'] is None for st in desc['steps']))



# ----------------------------------------------------------------------------- routes: every way to obtain a grow-only container
def _plain(v):
    if isinstance(v, tuple):
        return tuple(_plain(x) for x in v)
    if isinstance(v, np.datetime64):
        return str(v)
    if isinstance(v, __import__('datetime').date):
        return v.isoformat()
    return _j(v)


def _eq_labels(a, b):
    return len(a) == len(b) and all(x == y for x, y in zip(a, b))


def _labels_of(ix):
    """Labels of an index as Python values: tuples for hierarchies; date labels as ISO strings."""
    return [_plain(tuple(l)) if isinstance(l, tuple) else _plain(l) for l in ix]


def growth_check_index(idx, ops, coerce=None, watched=(), key_of=None):
    """append / extend on any grow-only index, decided on the Python side: refused with the index exactly as it
    was, or the labels are the old labels followed by exactly the given ones (after the index's own coercion),
    duplicates refused, positions / values / membership / loc_to_iloc in step, watched containers untouched."""
    co = coerce or _plain
    steps, problem = [], None
    seen_before = [content(w) for w in watched]
    for k, op in enumerate(ops):
        try:
            before = _labels_of(idx)
        except Exception as e:  # noqa
            problem = problem or f'before step {k + 1} the index cannot be iterated: {type(e).__name__}'
            break
        if op[0] == 'read':
            exc = _call(lambda: (idx.values, len(idx), idx.positions))
            given = []
        elif op[0] == 'append':
            given = [op[1]]
            exc = _call(lambda: idx.append(op[1]))
        else:
            given = list(op[1]) if not hasattr(op[1], 'depth') else [tuple(x) for x in op[1]]
            exc = _call(lambda: idx.extend(op[1]))
        step = {'op': [op[0]] + ([_j(given)] if op[0] != 'read' else []), 'raised': None if exc is None else type(exc).__name__}
        try:
            after = _labels_of(idx)
            step['labels'] = after
            n = len(idx)
            npos = len(idx.positions)
            vals = idx.values.tolist()
            if vals and isinstance(vals[0], list):
                vals = [tuple(str(x) if isinstance(x, np.datetime64) else x for x in r) for r in vals]
        except Exception as e:  # noqa
            steps.append(step)
            problem = problem or f'after step {k + 1} ({op[0]}) the index cannot be read: {type(e).__name__}: {str(e)[:80]}'
            break
        steps.append(step)
        if problem or op[0] == 'read':
            if not problem and not _eq_labels(after, before):
                problem = f'step {k + 1}: a read changed the labels'
            continue
        try:
            want = [co(v) for v in given]
        except Exception:  # noqa -- a value the index cannot hold: it has to be refused
            want = None
        if exc is not None:
            if not _eq_labels(after, before):
                problem = f'step {k + 1}: {op[0]} {given!r} raised {type(exc).__name__} but the labels changed: {before[-3:]} -> {after[-3:]}'
        elif want is None:
            problem = f'step {k + 1}: {op[0]} {given!r} cannot be held by this index and was accepted'
        elif any(any(w == b for b in before) for w in want) or any(want[i] == want[j] for i in range(len(want)) for j in range(i)):
            problem = f'step {k + 1}: {op[0]} {given!r} holds a duplicate label and was accepted: {after[-4:]}'
        elif not _eq_labels(after, before + want):
            problem = f'step {k + 1}: {op[0]} {given!r} accepted: labels {after[-4:]} instead of {(before + want)[-4:]}'
        elif n != len(after) or npos != len(after) or len(vals) != len(after):
            problem = f'step {k + 1}: len {n}, positions {npos}, values {len(vals)} for {len(after)} labels'
        else:
            for i, l in enumerate(after[-len(want):] if want else []):
                pos = len(after) - len(want) + i
                key = key_of(given[i]) if key_of else given[i]
                try:
                    if idx.loc_to_iloc(key) != pos or key not in idx:
                        problem = f'step {k + 1}: label {key!r} is not found at its position {pos}'
                        break
                except Exception as e:  # noqa
                    problem = f'step {k + 1}: looking up the new label {key!r} raises {type(e).__name__}'
                    break
    if not problem:
        for w, b in zip(watched, seen_before):
            if content(w) != b:
                problem = f'growth changed a container the index was built from: {str(b)[:100]} -> {str(content(w))[:100]}'
                break
            if w is idx:
                continue
            mine = {id(o): p_ for p_, o in mutable_parts(idx, grown_only=True)}
            for p_, o in mutable_parts(w):
                if id(o) in mine:
                    problem = f'the index shares the mutable object {mine[id(o)]} with a container it was built from'
                    break
    return steps, problem


def growth_check_frame(f, ops, coerce=None, watched=(), key_of=None):
    """f[key] = values / f.extend(Frame) / f.extend(Series) on any FrameGO, decided on the Python side."""
    import static_frame as sf
    co = coerce or _plain
    steps, problem = [], None
    seen_before = [content(w) for w in watched]
    nrows = None
    for k, op in enumerate(ops):
        try:
            before = (_labels_of(f.columns), tuple(f.shape), [repr((str(d), v)) for d, v in _column_reads(f)], _labels_of(f.index))
            nrows = before[1][0]
        except Exception as e:  # noqa
            problem = problem or f'before step {k + 1} the frame cannot be read: {type(e).__name__}'
            break
        if op[0] == 'set':
            given = [op[1]]
            data = np.array([[100 * (k + 1) + r] for r in range(nrows)]).reshape(nrows, 1)
            exc = _call(lambda: f.__setitem__(op[1], data[:, 0]))
        elif op[0] == 'set-bad':
            given = [op[1]]
            data = None
            exc = _call(lambda: f.__setitem__(op[1], np.arange(nrows + 1)))
        elif op[0] == 'ext_series':
            given = [op[1]]
            data = np.array([[7 * (k + 1) + r] for r in range(nrows)]).reshape(nrows, 1)
            exc = _call(lambda: f.extend(sf.Series(data[:, 0], index=f.index, name=op[1])))
        else:
            given = list(op[1])
            data = (np.arange(nrows * len(given)).reshape(nrows, len(given)) + 1000 * (k + 1))
            kw = op[2] if len(op) > 2 else {}
            exc = _call(lambda: f.extend(sf.Frame(data, index=f.index, columns=given, **kw)))
        step = {'op': [op[0], _j(given)], 'raised': None if exc is None else type(exc).__name__}
        try:
            after = (_labels_of(f.columns), tuple(f.shape), [repr((str(d), v)) for d, v in _column_reads(f)], _labels_of(f.index))
            step['columns'] = after[0]
            step['shape'] = list(after[1])
        except Exception as e:  # noqa
            steps.append(step)
            problem = problem or f'after step {k + 1} ({op[0]} {given!r}) the frame cannot be read: {type(e).__name__}: {str(e)[:80]}'
            break
        steps.append(step)
        if problem:
            continue
        old = before[0]
        try:
            want = [co(v) for v in given]
        except Exception:  # noqa
            want = None
        if exc is not None:
            if not (_eq_labels(after[0], before[0]) and after[1] == before[1] and repr(after[2]) == repr(before[2])):
                problem = f'step {k + 1}: {op[0]} {given!r} raised {type(exc).__name__} but the frame changed: columns {before[0][-3:]} -> {after[0][-3:]}, shape {before[1]} -> {after[1]}'
        elif op[0] == 'set-bad':
            problem = f'step {k + 1}: a value of the wrong length was accepted'
        elif want is None:
            problem = f'step {k + 1}: {given!r} cannot be a label of these columns and was accepted'
        elif any(any(w == b for b in old) for w in want) or any(want[i] == want[j] for i in range(len(want)) for j in range(i)):
            problem = f'step {k + 1}: {op[0]} {given!r} holds a duplicate label and was accepted: {after[0][-4:]}'
        elif not _eq_labels(after[0], old + want) or after[1] != (nrows, len(old) + len(want)) or not _eq_labels(after[3], before[3]):
            problem = f'step {k + 1}: {op[0]} {given!r} accepted: columns {after[0][-4:]} (shape {after[1]}) instead of {(old + want)[-4:]}'
        elif after[2][:len(before[2])] != before[2]:
            problem = f'step {k + 1}: the columns present before changed (values or dtype)'
        else:
            for j, g in enumerate(given):
                try:
                    got = f[key_of(g) if key_of else g].values.tolist()
                except Exception as e:  # noqa
                    problem = f'step {k + 1}: after giving {g!r}, reading f[{g!r}] raises {type(e).__name__}'
                    break
                if got != data[:, j].tolist():
                    problem = f'step {k + 1}: f[{g!r}] holds {got}, given {data[:, j].tolist()}'
                    break
            if not problem:
                why = _alt_reads(f, _column_reads(f))
                if why:
                    problem = f'step {k + 1}: {why}'
    if not problem:
        for w, b in zip(watched, seen_before):
            if content(w) != b:
                problem = f'growth changed a container the frame was built from: {str(b)[:100]} -> {str(content(w))[:100]}'
                break
            mine = {id(o): p_ for p_, o in mutable_parts(f, grown_only=True)}
            for p_, o in mutable_parts(w):
                if id(o) in mine:
                    problem = f'the frame shares the mutable object {mine[id(o)]} with a container it was built from'
                    break
    return steps, problem


def _frame_routes():
    """name -> builder() -> (FrameGO, watched containers, ops, coerce or None)"""
    import static_frame as sf
    idx3 = ('x', 'y', 'z')
    std = [('set', 'n1'), ('extend', ['n2', 'n3']), ('set', 'n1'), ('set-bad', 'n4'), ('extend', ['n5', 'n2']), ('ext_series', 'n6'), ('set', 'n7')]
    ints = [('set', 7), ('extend', [8, 9]), ('set', 7), ('extend', [10, 8]), ('set', 'n1')]
    R = {}

    def add(name, fn):
        R[name] = fn
    a23 = lambda: np.arange(6).reshape(3, 2)
    add('FrameGO(ndarray)', lambda: (sf.FrameGO(a23(), index=idx3, columns=('a', 'b')), [], std, None))
    add('FrameGO(ndarray,own_data)', lambda: (sf.FrameGO(a23(), index=idx3, columns=('a', 'b'), own_data=True), [], std, None))
    add('FrameGO(ndarray)-auto', lambda: (sf.FrameGO(a23()), [], [('set', 2), ('set', 1), ('extend', [3, 4]), ('set', 'n1'), ('extend', [9, 3])], None))
    add('FrameGO(1d ndarray)', lambda: (sf.FrameGO(np.arange(3), index=idx3, columns=('a',)), [], std, None))
    add('FrameGO(index only)', lambda: (sf.FrameGO(index=idx3), [], std, None))
    add('FrameGO(columns only)', lambda: (sf.FrameGO(columns=('a', 'b')), [], [('set', 'n1'), ('extend', ['n2', 'n3']), ('set', 'a')], None))
    add('FrameGO()', lambda: (sf.FrameGO(), [], [('set', 'n1'), ('extend', ['n2']), ('set', 'n1')], None))
    add('FrameGO(index,columns) zero rows', lambda: (sf.FrameGO(index=(), columns=('a', 'b')), [], [('set', 'n1'), ('extend', ['n2'])], None))
    add('from_records', lambda: (sf.FrameGO.from_records([(1, 'p'), (2, 'q'), (3, 'r')], index=idx3, columns=('a', 'b')), [], std, None))
    add('from_records-auto', lambda: (sf.FrameGO.from_records([(1, 'p'), (2, 'q'), (3, 'r')]), [], ints[:0] + [('set', 2), ('extend', [3, 4]), ('set', 0)], None))
    add('from_dict_records', lambda: (sf.FrameGO.from_dict_records([{'a': 1, 'b': 2}, {'a': 3, 'b': 4}, {'a': 5, 'b': 6}], index=idx3), [], std, None))
    add('from_dict', lambda: (sf.FrameGO.from_dict({'a': (1, 2, 3), 'b': (4., 5., 6.)}, index=idx3), [], std, None))
    add('from_items', lambda: (sf.FrameGO.from_items((('a', (1, 2, 3)), ('b', ('p', 'q', 'r'))), index=idx3), [], std, None))
    add('from_fields', lambda: (sf.FrameGO.from_fields(((1, 2, 3), (4, 5, 6)), index=idx3, columns=('a', 'b')), [], std, None))
    add('from_element', lambda: (sf.FrameGO.from_element(0, index=idx3, columns=('a', 'b')), [], std, None))
    add('from_elements', lambda: (sf.FrameGO.from_elements((1, 2, 3), index=idx3, columns=('a',)), [], std, None))
    add('from_structured_array', lambda: (sf.FrameGO.from_structured_array(np.array([(1, 2.5), (3, 4.5), (5, 6.5)], dtype=[('a', int), ('b', float)])), [], [('set', 'n1'), ('extend', ['n2', 'n3']), ('set', 'a')], None))

    def series_route(axis):
        def b():
            s = sf.Series((1, 2, 3), index=idx3, name='a')
            f = s.to_frame_go(axis=axis)
            ops = std if axis == 1 else [('set', 'n1'), ('extend', ['n2', 'x']), ('set', 'y')]
            return f, [s], ops, None
        return b
    add('Series.to_frame_go(axis=1)', series_route(1))
    add('Series.to_frame_go(axis=0)', series_route(0))

    def from_series():
        s = sf.Series((1, 2, 3), index=idx3, name='a')
        return sf.FrameGO.from_series(s), [s], std, None
    add('from_series', from_series)

    def from_concat(axis, go_src):
        def b():
            cls = sf.FrameGO if go_src else sf.Frame
            f1 = cls.from_dict({'a': (1, 2, 3)}, index=idx3)
            f2 = cls.from_dict({'b': (4, 5, 6)}, index=idx3) if axis == 1 else cls.from_dict({'a': (4, 5, 6)}, index=('u', 'v', 'w'))
            return sf.FrameGO.from_concat((f1, f2), axis=axis), [f1, f2], [('set', 'n1'), ('extend', ['n2', 'a']), ('set', 'n3')], None
        return b
    for axis in (0, 1):
        for go_src in (False, True):
            add(f'from_concat(axis={axis},{"FrameGO" if go_src else "Frame"} parts)', from_concat(axis, go_src))

    def from_concat_items(axis):
        def b():
            f1 = sf.Frame.from_dict({'a': (1, 2, 3)}, index=idx3)
            f2 = sf.FrameGO.from_dict({'b': (4, 5, 6)}, index=idx3)
            f = sf.FrameGO.from_concat_items((('A', f1), ('B', f2)), axis=axis)
            if axis == 1:
                return f, [f1, f2], [('set', ('B', 'n1')), ('set', ('A', 'zz')), ('set', ('C', 'n2')), ('set', ('B', 'b'))], None
            return f, [f1, f2], [('set', 'n1'), ('set', 'a')], None
        return b
    add('from_concat_items(axis=1)', from_concat_items(1))
    add('from_concat_items(axis=0)', from_concat_items(0))

    def with_columns_object(kind):
        def b():
            if kind == 'IndexGO':
                c = sf.IndexGO(('a', 'b'))
            elif kind == 'Index':
                c = sf.Index(('a', 'b'))
            elif kind == 'IndexGO-grown':
                c = sf.IndexGO(('a',))
                c.append('b')
            elif kind == 'IndexHierarchyGO':
                c = sf.IndexHierarchyGO.from_labels((('A', 'a'), ('A', 'b')))
            elif kind == 'IndexHierarchy':
                c = sf.IndexHierarchy.from_labels((('A', 'a'), ('A', 'b')))
            elif kind == 'Series':
                c = sf.Series(('a', 'b'))
            f = sf.FrameGO(a23(), index=idx3, columns=c)
            if 'Hierarchy' in kind:
                return f, [c], [('set', ('A', 'n1')), ('set', ('B', 'n1')), ('set', ('A', 'a')), ('set', ('A', 'n2'))], None
            return f, [c], std, None
        return b
    for kind in ('IndexGO', 'Index', 'IndexGO-grown', 'IndexHierarchyGO', 'IndexHierarchy', 'Series'):
        add(f'FrameGO(columns={kind} object)', with_columns_object(kind))

    def with_index_object():
        i = sf.Index(idx3)
        return sf.FrameGO(a23(), index=i, columns=('a', 'b')), [i], std, None
    add('FrameGO(index=Index object)', with_index_object)
    add('FrameGO(columns_constructor=IndexGO)', lambda: (sf.FrameGO(a23(), index=idx3, columns=('a', 'b'), columns_constructor=sf.IndexGO), [], std, None))

    def date_columns(cls_name, explicit):
        def b():
            unit = TYPED[cls_name]
            labels = {'Y': ['2019', '2020'], 'M': ['2020-01', '2020-02'], 'D': ['2020-01-01', '2020-01-02']}[unit]
            ctor = getattr(sf, cls_name)
            f = (sf.FrameGO(a23(), index=idx3, columns=labels, columns_constructor=ctor) if explicit
                 else sf.FrameGO(a23(), index=idx3, columns=ctor(labels)))
            new = {'Y': ['2021', '2022-05', '2021-07', '2023'], 'M': ['2020-03', '2020-04-15', '2020-03-20', '2020-05'],
                   'D': ['2020-01-03', '2020-01-04', '2020-01-03', '2020-01-05']}[unit]
            ops = [('set', new[0]), ('set', np.datetime64(new[1])), ('set', new[2]), ('set', labels[0]), ('extend', [np.datetime64(new[3], unit)])]
            return f, [], ops, (lambda v: str(np.datetime64(v, unit))), (lambda v: np.datetime64(v, unit))
        return b
    for cls_name in sorted(TYPED):
        add(f'FrameGO(columns_constructor={cls_name})', date_columns(cls_name, True))
        add(f'FrameGO(columns={cls_name} object)', date_columns(cls_name, False))

    def derived(how):
        def b():
            g = sf.FrameGO.from_dict({'a': (1, 2, 3), 'b': (4., 5., 6.)}, index=idx3)
            f = {'set_index': lambda: g.set_index('a'), 'set_index_hierarchy': lambda: g.set_index_hierarchy(['a', 'b']),
                 'unset_index': lambda: g.unset_index(), 'relabel_level_add': lambda: g.relabel_level_add(columns='A'),
                 'astype': lambda: g.astype(float), 'iloc-2d-block': lambda: sf.FrameGO(a23(), index=idx3, columns=('a', 'b')).iloc[:, 1:],
                 'transpose': lambda: g.transpose()}[how]()
            ops = std
            if how == 'relabel_level_add':
                ops = [('set', ('A', 'n1')), ('set', ('B', 'n1')), ('set', ('A', 'a'))]
            if how == 'transpose':
                ops = [('set', 'n1'), ('extend', ['n2', 'x']), ('set', 'y')]
            if how == 'unset_index':
                ops = [('set', 'n1'), ('extend', ['n2', 'a']), ('set', '__index0__')]
            return f, [g], ops, None
        return b
    def pickled_frame(kind):
        def b():
            import pickle
            import copy
            g = sf.FrameGO.from_dict({'a': (1, 2, 3), 'b': (4., 5., 6.)}, index=idx3)
            g['c'] = ('p', 'q', 'r')
            f = {'pickle': lambda: pickle.loads(pickle.dumps(g)), 'deepcopy': lambda: copy.deepcopy(g),
                 'pickle-auto': lambda: pickle.loads(pickle.dumps(sf.FrameGO(a23())))}[kind]()
            if kind == 'pickle-auto':
                return f, [], [('set', 2), ('set', 1), ('extend', [3, 4]), ('set', 'n1')], None
            return f, [g], std, None
        return b
    for kind in ('pickle', 'deepcopy', 'pickle-auto'):
        add('FrameGO ' + kind, pickled_frame(kind))
    for how in ('set_index', 'set_index_hierarchy', 'unset_index', 'relabel_level_add', 'astype', 'iloc-2d-block', 'transpose'):
        add('FrameGO.' + how, derived(how))
    return R


def _refused_routes():
    """Constructions that must be refused: a static frame never holds a grow-only index, a FrameGO never a static one."""
    import static_frame as sf
    a = lambda: np.arange(4).reshape(2, 2)
    return {
        'Frame(columns_constructor=IndexGO)': lambda: sf.Frame(a(), columns=('a', 'b'), columns_constructor=sf.IndexGO),
        'FrameGO(columns_constructor=Index)': lambda: sf.FrameGO(a(), columns=('a', 'b'), columns_constructor=sf.Index),
        'Frame(index_constructor=IndexGO)': lambda: sf.Frame(a(), index=('x', 'y'), index_constructor=sf.IndexGO),
        'FrameGO(index_constructor=IndexGO)': lambda: sf.FrameGO(a(), index=('x', 'y'), index_constructor=sf.IndexGO),
        'Frame(index=IndexGO,own_index)': lambda: sf.Frame(a(), index=sf.IndexGO(('x', 'y')), own_index=True),
        'Frame(columns=IndexGO,own_columns)': lambda: sf.Frame(a(), columns=sf.IndexGO(('a', 'b')), own_columns=True),
        'FrameHE(columns_constructor=IndexHierarchyGO.from_labels)': lambda: sf.FrameHE(a(), columns=(('A', 'a'), ('A', 'b')), columns_constructor=sf.IndexHierarchyGO.from_labels),
        'FrameGO(index,columns) without data': lambda: sf.FrameGO(index=('x',), columns=('a',)),
        'FrameGO(dict)': lambda: sf.FrameGO({'a': (1, 2)}),
        'FrameGO(Series)': lambda: sf.FrameGO(sf.Series((1, 2))),
        'FrameGO(list)': lambda: sf.FrameGO([1, 2]),
        'Series(index_constructor=IndexGO)': lambda: sf.Series((1, 2), index=('x', 'y'), index_constructor=sf.IndexGO),
        'Series(index=IndexGO,own_index)': lambda: sf.Series((1, 2), index=sf.IndexGO(('x', 'y')), own_index=True),
    }


def _index_routes():
    import static_frame as sf
    R = {}
    std = [('append', 'n1'), ('extend', ['n2', 'n3']), ('append', 'n1'), ('read',), ('extend', ['n4', 'n2']), ('extend', []), ('append', 'n5')]

    def add(name, fn):
        R[name] = fn
    add('IndexGO(generator)', lambda: (sf.IndexGO(x for x in 'ab'), [], std, None))
    add('IndexGO(ndarray)', lambda: (sf.IndexGO(np.array(['a', 'b'])), [], std, None))
    add('IndexGO(dtype=object)', lambda: (sf.IndexGO(('a', 'b'), dtype=object), [], std + [('append', 5), ('append', None), ('append', 5)], None))
    add('IndexGO(name=)', lambda: (sf.IndexGO(('a', 'b'), name='nm'), [], std, None))

    def from_container(kind):
        def b():
            src = {'Series': lambda: sf.Series(('a', 'b')), 'Frame-2d': lambda: sf.Frame(np.array([['a', 'b'], ['c', 'd']])),
                   'Index': lambda: sf.Index(('a', 'b')), 'IndexGO': lambda: sf.IndexGO(('a', 'b')),
                   'IndexHierarchy': lambda: sf.IndexHierarchy.from_labels((('a', 1), ('b', 1))),
                   'IndexDate': lambda: sf.IndexDate(('2020-01-01', '2020-01-02'))}[kind]()
            idx = sf.IndexGO(src)
            ops = std
            if kind in ('Frame-2d', 'IndexHierarchy'):
                ops = [('append', ('z', 9)), ('append', 'n1'), ('extend', [('q', 1), ('z', 9)]), ('append', idx.values[0])]
            if kind == 'IndexDate':
                ops = [('append', np.datetime64('2020-01-03')), ('append', np.datetime64('2020-01-01')), ('append', 'n1')]
            return idx, [src], ops, None
        return b
    for kind in ('Series', 'Frame-2d', 'Index', 'IndexGO', 'IndexHierarchy', 'IndexDate'):
        add(f'IndexGO({kind})', from_container(kind))

    def typed(cls_name, how):
        def b():
            unit = TYPED[cls_name]
            ctor = getattr(sf, cls_name)
            co = lambda v: str(np.datetime64(v, unit))
            if how == 'labels':
                idx = ctor({'Y': ['2019'], 'M': ['2020-01'], 'D': ['2020-01-01']}[unit])
            elif how == 'ndarray-other-unit':
                idx = ctor(np.array(['2020-01-01', '2021-02-01'], dtype='datetime64[D]'))
            elif how == 'from_date_range':
                idx = ctor.from_date_range('2020-01-01', '2020-03-05')
            elif how == 'from_year_month_range':
                idx = ctor.from_year_month_range('2020-01', '2020-02')
            elif how == 'from_year_range':
                idx = ctor.from_year_range('2019', '2020')
            elif how == 'from-static':
                idx = ctor(getattr(sf, cls_name[:-2])(['2020-01-01', '2021-01-01']))
            new = ['2030', '2031-02', '2032-03-04', '2030-05-06']
            ops = [('append', new[0]), ('append', np.datetime64(new[1])), ('extend', [new[2]]), ('append', new[3]), ('read',),
                   ('append', __import__('datetime').date(2033, 1, 1)), ('append', str(idx.values[0]))]
            return idx, [], ops, co, (lambda v: np.datetime64(v, unit))
        return b
    for cls_name in sorted(TYPED):
        for how in ('labels', 'ndarray-other-unit', 'from_date_range', 'from_year_month_range', 'from_year_range', 'from-static'):
            add(f'{cls_name}:{how}', typed(cls_name, how))

    def hier(how):
        def b():
            IH = sf.IndexHierarchyGO
            watched = []
            co = None
            if how == 'from_product':
                a, c = sf.Index(('a', 'b')), sf.IndexGO((1, 2))
                watched = [a, c]
                ih = IH.from_product(a, c)
            elif how == 'from_product-iterables':
                ih = IH.from_product(('a', 'b'), (1, 2))
            elif how == 'from_tree':
                ih = IH.from_tree({'a': (1, 2), 'b': (1, 2)})
            elif how == 'from_tree-deep':
                ih = IH.from_tree({'a': {'x': (1, 2), 'y': (1,)}, 'b': {'x': (1,), 'y': (1, 2)}})
            elif how == 'from_index_items':
                a, c = sf.Index((1, 2)), sf.IndexGO((1, 2))
                watched = [a, c]
                ih = IH.from_index_items((('a', a), ('b', c)))
            elif how == 'from_labels_delimited':
                ih = IH.from_labels_delimited(("'a' 1", "'a' 2", "'b' 1", "'b' 2"))
            elif how == 'from_labels-reorder':
                ih = IH.from_labels((('b', 1), ('a', 1), ('b', 2), ('a', 2)), reorder_for_hierarchy=True)
            elif how == 'from_labels-continuation':
                ih = IH.from_labels((('a', 1), (None, 2), ('b', 1), (None, 2)), continuation_token=None)
            elif how == 'from_labels-generator':
                ih = IH.from_labels(x for x in (('a', 1), ('a', 2), ('b', 1), ('b', 2)))
            elif how == 'from_names':
                ih = IH.from_names(('p', 'q'))
            elif how == 'from_labels-empty':
                ih = IH.from_labels((), depth_reference=2)
            elif how == 'GO(static)':
                s = sf.IndexHierarchy.from_product(('a', 'b'), (1, 2))
                watched = [s]
                ih = IH(s)
            elif how == 'GO(GO)':
                s = IH.from_product(('a', 'b'), (1, 2))
                watched = [s]
                ih = IH(s)
            elif how == 'copy-of-grown':
                s = IH.from_product(('a', 'b'), (1, 2))
                s.append(('b', 3))
                watched = [s]
                ih = s.copy()
            elif how == 'set_index_hierarchy':
                f = sf.Frame.from_records((('a', 1, 0), ('a', 2, 0), ('b', 1, 0), ('b', 2, 0)), columns=('p', 'q', 'r')).set_index_hierarchy(('p', 'q'))
                watched = [f]
                ih = IH(f.index)
            elif how == 'level_add':
                s = sf.IndexGO((1, 2))
                watched = [s]
                ih = s.level_add('b')
                return ih, watched, [('append', ('b', 3)), ('append', ('c', 1)), ('append', ('b', 1)), ('append', ('a', 1)), ('read',), ('append', ('c', 2))], None
            elif how in ('date-inner', 'date-outer'):
                ctors = (sf.IndexGO, sf.IndexDateGO) if how == 'date-inner' else (sf.IndexDateGO, sf.IndexGO)
                labs = ((('a', '2020-01-01'), ('a', '2020-01-02'), ('b', '2020-01-01'), ('b', '2020-01-02')) if how == 'date-inner'
                        else (('2020-01-01', 1), ('2020-01-01', 2), ('2020-01-02', 1), ('2020-01-02', 2)))
                ih = IH.from_labels(labs, index_constructors=ctors)
                d = lambda s: np.datetime64(s, 'D')
                cod = lambda v: tuple(str(np.datetime64(x, 'D')) if (i == (1 if how == 'date-inner' else 0)) else _j(x) for i, x in enumerate(v))
                if how == 'date-inner':
                    ops = [('append', ('b', d('2020-01-03'))), ('append', ('b', '2020-01-04')), ('append', ('b', d('2020-01-02'))), ('append', ('b', '2020-01-03')),
                           ('append', ('c', d('2020-01-01'))), ('append', ('a', d('2020-01-09'))), ('read',), ('append', ('c', '2020-01-02'))]
                else:
                    ops = [('append', (d('2020-01-02'), 3)), ('append', ('2020-01-02', 4)), ('append', (d('2020-01-03'), 1)), ('append', ('2020-01-03', 2)),
                           ('append', (d('2020-01-01'), 9)), ('append', (d('2020-01-03'), 1)), ('read',)]
                pos_d = 1 if how == 'date-inner' else 0
                return ih, [], ops, cod, (lambda v: tuple(np.datetime64(x, 'D') if i == pos_d else x for i, x in enumerate(v)))
            if how in ('from_names', 'from_labels-empty'):
                ops = [('append', ('a', 1)), ('append', ('a', 2)), ('append', ('a', 1)), ('append', ('b', 1)), ('read',), ('append', ('a', 3)),
                       ('extend', sf.IndexHierarchy.from_labels((('c', 1), ('c', 2))))]
            elif how == 'from_tree-deep':
                ops = [('append', ('b', 'y', 3)), ('append', ('b', 'x', 3)), ('append', ('b', 'z', 1)), ('append', ('a', 'y', 9)), ('append', ('c', 'x', 1)),
                       ('read',), ('append', ('c', 'x', 1)), ('extend', sf.IndexHierarchy.from_labels((('d', 'x', 1), ('d', 'y', 1))))]
            else:
                ops = [('append', ('b', 3)), ('append', ('b', 1)), ('append', ('a', 3)), ('append', ('c', 1)), ('read',), ('append', ('c', 2)),
                       ('extend', sf.IndexHierarchy.from_labels((('d', 1), ('e', 1)))), ('extend', sf.IndexHierarchyGO.from_labels((('f', 1), ('b', 9)))),
                       ('append', ('f',)), ('append', ('e', 2))]
            return ih, watched, ops, co
        return b
    def pickled(kind):
        def b():
            import pickle
            src = {'IndexGO': lambda: sf.IndexGO(('a', 'b')), 'IndexGO-grown': lambda: _grown_index(),
                   'IndexGO-auto': lambda: sf.IndexGO(range(2), loc_is_iloc=True),
                   'IndexHierarchyGO': lambda: sf.IndexHierarchyGO.from_product(('a', 'b'), (1, 2)),
                   'IndexHierarchyGO-3': lambda: sf.IndexHierarchyGO.from_product(('a', 'b'), ('x', 'y'), (1, 2)),
                   'IndexDateGO': lambda: sf.IndexDateGO(('2020-01-01', '2020-01-02'))}[kind]()
            if kind == 'IndexHierarchyGO':
                src.append(('b', 3))
            idx = pickle.loads(pickle.dumps(src))
            if kind == 'IndexGO-auto':
                return idx, [src], [('append', 2), ('append', 1), ('extend', [3, 4]), ('append', 'n1'), ('read',), ('extend', [9, 3])], None
            if kind == 'IndexHierarchyGO':
                return idx, [src], [('append', ('b', 4)), ('append', ('b', 1)), ('append', ('a', 5)), ('append', ('c', 1)), ('read',),
                                    ('extend', sf.IndexHierarchy.from_labels((('d', 1), ('e', 1))))], None
            if kind == 'IndexHierarchyGO-3':
                return idx, [src], [('append', ('b', 'y', 3)), ('append', ('b', 'x', 3)), ('append', ('b', 'z', 1)), ('append', ('c', 'x', 1)), ('read',)], None
            if kind == 'IndexDateGO':
                return idx, [src], [('append', '2020-01-03'), ('append', np.datetime64('2020-01-01')), ('extend', ['2020-02-01'])], \
                    (lambda v: str(np.datetime64(v, 'D'))), (lambda v: np.datetime64(v, 'D'))
            return idx, [src], std, None
        return b
    for kind in ('IndexGO', 'IndexGO-grown', 'IndexGO-auto', 'IndexHierarchyGO', 'IndexHierarchyGO-3', 'IndexDateGO'):
        add('pickle round trip:' + kind, pickled(kind))
    add('IndexGO((), dtype=int64)', lambda: (sf.IndexGO((), dtype=np.int64), [], [('append', 5), ('append', 5), ('extend', [6, 7]), ('read',), ('extend', [8, 6])], None))
    add('IndexGO(())', lambda: (sf.IndexGO(()), [], std, None))
    add('IndexGO(ndarray, dtype=same)', lambda: (sf.IndexGO(np.array([3, 4]), dtype=np.int64), [], [('append', 5), ('append', 3), ('extend', [6, 7]), ('read',)], None))

    def hier_more(how):
        def b():
            IH = sf.IndexHierarchyGO
            ops = [('append', ('b', 3)), ('append', ('b', 1)), ('append', ('a', 3)), ('append', ('c', 1)), ('read',), ('append', ('c', 2)),
                   ('extend', sf.IndexHierarchy.from_labels((('d', 1), ('e', 1))))]
            if how == 'from_labels-empty-2d-array':
                return IH.from_labels(np.empty((0, 2), dtype=object)), [], [('append', ('a', 1)), ('append', ('a', 2)), ('append', ('a', 1)), ('append', ('b', 1)), ('read',)], None
            s = IH.from_product(('a', 'b'), (1, 2))
            if how == 'GO(GO)-after-read':
                s.values
                return IH(s), [s], ops, None
            if how == 'GO(GO)-grown-unread':
                s.append(('b', 9))
                return IH(s), [s], ops[1:], None
            if how == 'GO(levels)':
                return IH(s._levels), [s], ops, None
            if how == 'GO(levels,blocks)':
                s.values
                return IH(s._levels, blocks=s._blocks), [s], ops, None
            if how == 'GO(static levels)':
                st = sf.IndexHierarchy.from_product(('a', 'b'), (1, 2))
                return IH(st._levels), [st], ops, None
            if how == 'level_drop(-1)':
                s3 = IH.from_product(('k',), ('a', 'b'), (1, 2))
                return s3.level_drop(1), [s3], ops, None
            if how == 'to_frame_go-columns':
                fr = sf.FrameGO(np.arange(8).reshape(2, 4), columns=s)
                return fr.columns.copy(), [s, fr], ops, None
        return b
    for how in ('from_labels-empty-2d-array', 'GO(GO)-after-read', 'GO(GO)-grown-unread', 'GO(levels)', 'GO(levels,blocks)', 'GO(static levels)',
                'level_drop(-1)', 'to_frame_go-columns'):
        add('IndexHierarchyGO:' + how, hier_more(how))
    for how in ('from_product', 'from_product-iterables', 'from_tree', 'from_tree-deep', 'from_index_items', 'from_labels_delimited', 'from_labels-reorder',
                'from_labels-continuation', 'from_labels-generator', 'from_names', 'from_labels-empty', 'GO(static)', 'GO(GO)', 'copy-of-grown',
                'set_index_hierarchy', 'level_add', 'date-inner', 'date-outer'):
        add('IndexHierarchyGO:' + how, hier(how))
    return R


def array_go_history(how, ops):
    """ArrayGO (the grow-only array behind IndexLevelGO.targets): a list that only grows; copies are independent."""
    from static_frame.core.array_go import ArrayGO
    base = ['a', 'b', 'c']
    src = None
    if how == 'list':
        a = ArrayGO(list(base))
    elif how == 'tuple':
        a = ArrayGO(tuple(base))
    elif how == 'ndarray':
        src = np.array(base, dtype=object)
        a = ArrayGO(src)
    elif how == 'ndarray-own':
        src = np.array(base, dtype=object)
        a = ArrayGO(src, own_iterable=True)
    elif how == 'pickled':
        import pickle
        a0 = ArrayGO(list(base[:2]))
        a0.append('c')
        a = pickle.loads(pickle.dumps(a0))
        src = a0
    elif how == 'copy-of-grown':
        a0 = ArrayGO(list(base[:2]))
        a0.append('c')
        a = a0.copy()
        src = a0
    model = list(base)
    copies = []
    steps, problem = [], None
    for k, op in enumerate(ops):
        try:
            if op[0] == 'append':
                a.append(op[1])
                model.append(op[1])
            elif op[0] == 'extend':
                a.extend(op[1])
                model.extend(op[1])
            elif op[0] == 'copy':
                copies.append((a.copy() if op[1] == 'copy' else __import__('copy').deepcopy(a), list(model)))
            elif op[0] == 'grow-copy':
                if copies:
                    copies[-1][0].append('k' + str(k))
                    copies[-1][1].append('k' + str(k))
            got = (list(a), len(a), list(a.values), a[-1] if model else None, list(a[1:]))
        except Exception as e:  # noqa
            steps.append({'op': _j(list(op)), 'raised': type(e).__name__})
            problem = problem or f'step {k + 1}: {op!r} raised {type(e).__name__}: {str(e)[:80]}'
            break
        steps.append({'op': _j(list(op)), 'values': _j(got[0])})
        if problem:
            continue
        if got[0] != model or got[1] != len(model) or got[2] != model or (model and got[3] != model[-1]) or got[4] != model[1:]:
            problem = f'step {k + 1}: after {op!r} the array reads {got[0]} (len {got[1]}, values {got[2]}), expected {model}'
        for c, m in copies:
            if list(c) != m or list(c.values) != m:
                problem = problem or f'step {k + 1}: a copy taken earlier reads {list(c)}, expected {m}'
        if a.values.flags.writeable:
            problem = problem or f'step {k + 1}: ArrayGO.values is writeable'
    if not problem and isinstance(src, np.ndarray) and src.tolist() != base:
        problem = f'the array the ArrayGO was built from changed: {src.tolist()}'
    if not problem and how in ('copy-of-grown', 'pickled') and list(src) != base:
        problem = f'the ArrayGO that was copied changed: {list(src)}'
    return {'container': 'ArrayGO', 'built_from': how, 'steps': steps}, problem


def routes_cases(ctx):
    rng = ctx.rng
    for name, build in sorted(_frame_routes().items()):
        try:
            f, watched, ops, co, *rest = build()
            steps, problem = growth_check_frame(f, ops, co, watched, rest[0] if rest else None)
        except Exception as e:  # noqa
            yield _escaped('api:routes-FrameGO', {'route': name}, e, {'container': 'FrameGO', 'route': name})
            continue
        ctx.count('routes:FrameGO')
        tags = {'container': 'FrameGO', 'route': name}
        yield Case('api:routes-FrameGO', {'route': name, 'steps': steps}, py_fail=problem, tags=tags,
                   nontrivial=any(s['raised'] is None for s in steps), key='route|' + name)
    for name, build in sorted(_refused_routes().items()):
        exc = _call(build)
        ctx.count('routes:refused')
        yield Case('api:routes-refused', {'route': name, 'raised': None if exc is None else type(exc).__name__},
                   py_fail=None if exc is not None else f'{name} was accepted: a static container holding a grow-only index (or a FrameGO holding static columns)',
                   tags={'container': 'constructor', 'route': name}, key='refused|' + name)
    for name, build in sorted(_index_routes().items()):
        try:
            idx, watched, ops, co, *rest = build()
            steps, problem = growth_check_index(idx, ops, co, watched, rest[0] if rest else None)
        except Exception as e:  # noqa
            yield _escaped('api:routes-index', {'route': name}, e, {'container': 'index', 'route': name})
            continue
        ctx.count('routes:index')
        yield Case('api:routes-index', {'route': name, 'steps': steps}, py_fail=problem, tags={'container': 'index', 'route': name},
                   nontrivial=any(s['raised'] is None for s in steps), key='iroute|' + name)
    alphabet = [('append', 'x'), ('extend', ['y', 'z']), ('extend', []), ('copy', 'copy'), ('copy', 'deepcopy'), ('grow-copy',), ('append', None)]
    for how in ('list', 'tuple', 'ndarray', 'ndarray-own', 'copy-of-grown', 'pickled'):
        for n in (1, 2, 3):
            for ops in itertools.product(alphabet, repeat=n):
                if n == 3 and rng.random() > (0.12 if ctx.tier == 'quick' else 1.0):
                    continue
                try:
                    desc, problem = array_go_history(how, list(ops))
                except Exception as e:  # noqa
                    yield _escaped('api:ArrayGO', {'built_from': how, 'ops': _j([list(o) for o in ops])}, e, {'container': 'ArrayGO'})
                    continue
                ctx.count('routes:ArrayGO')
                yield Case('api:ArrayGO', desc, py_fail=problem, tags={'container': 'ArrayGO'})


# ----------------------------------------------------------------------------- TypeBlocks grown directly (kernel level)
TB_KINDS = {
    'i': (np.int64, [1, 2, 3, -4]), 'u': (np.uint8, [0, 7, 200]), 'f': (np.float64, [1.5, -0.25, NAN]), 'b': (np.bool_, [True, False]),
    'U': (np.dtype('<U2'), ['p', 'qq']), 'W': (np.dtype('<U5'), ['hello', 'z']), 'S': (np.dtype('S2'), [b'ab', b'c']),
    'O': (np.dtype(object), [1, 'a', None]), 'D': (np.dtype('<M8[D]'), [np.datetime64('2020-01-01'), np.datetime64('2021-06-05')]),
    'Y': (np.dtype('<M8[Y]'), [np.datetime64('2020'), np.datetime64('1999')]), 'm': (np.dtype('<m8[D]'), [np.timedelta64(3, 'D'), np.timedelta64(0, 'D')]),
}


def _tb_block(rng, rows, width=None, kind=None):
    dt, pool = TB_KINDS[kind or rng.choice(sorted(TB_KINDS))]
    if width is None:                                     # 1-D
        return _arr(dt, [rng.choice(pool) for _ in range(rows)])
    a = np.empty((rows, width), dtype=dt)
    for j in range(width):
        a[:, j] = _arr(dt, [rng.choice(pool) for _ in range(rows)]) if rows else a[:, j]
    a.flags.writeable = False
    return a


def _tbseen_lit(tb):
    cols = _column_reads(type('F', (), {'_blocks': tb})())
    shape = tuple(int(x) for x in tb.shape)
    rd = 'None' if tb._row_dtype is None else f'(Some {lit.dtype(tb._row_dtype)})'
    lay = [((b.shape[1] if b.ndim == 2 else 1), b.ndim == 2) for b in tb._blocks]
    return (f'(mk_tbseen {lit.lst([f"({lit.dtype(d)}, {lit.vlist(v)})" for d, v in cols])} ({lit.z(shape[0])}, {lit.z(shape[1])}) '
            f'{lit.lst([lit.dtype(d) for d in tb._dtypes])} {rd} {lit.lst([f"({lit.z(w)}, {lit.b(d)})" for w, d in lay])})'), cols, shape


def tb_history(rows, init_blocks, ops):
    from static_frame.core.type_blocks import TypeBlocks
    tb = TypeBlocks.from_blocks(init_blocks) if init_blocks else TypeBlocks.from_zero_size_shape((rows, 0))
    copy0 = tb.copy()
    copy0_seen = _tbseen_lit(copy0)[0]
    blocks0 = lit.lst([_blk_lit(b) for b in tb._blocks])
    before0 = lit.lst([f'({lit.dtype(d)}, {lit.vlist(v)})' for d, v in _tbseen_lit(tb)[1]])
    recs, steps, py_fail = [], [], None
    for op in ops:
        if op[0] == 'append':
            exc = _call(lambda: tb.append(op[1]))
            ol = f'(TAppend {_blk_lit(op[1])})'
            what = ['append', str(op[1].dtype), list(op[1].shape)]
        elif op[0] == 'extend_tb':
            other = TypeBlocks.from_blocks(op[2]) if op[2] else TypeBlocks.from_zero_size_shape((op[1], 0))
            exc = _call(lambda: tb.extend(other))
            ol = f'(TExtendTB {lit.z(other.shape[0])} {lit.lst([_blk_lit(b) for b in other._blocks])})'
            what = ['extend(TypeBlocks)', list(other.shape), [str(b.dtype) for b in other._blocks]]
        else:
            exc = _call(lambda: tb.extend(iter(op[1])))
            ol = f'(TExtendList {lit.lst([_blk_lit(b) for b in op[1]])})'
            what = ['extend(iterable)', [[str(b.dtype), list(b.shape)] for b in op[1]]]
        seen, cols, shape = _tbseen_lit(tb)
        recs.append(f'({ol}, {_out(exc)}, {seen})')
        steps.append({'op': what, 'raised': None if exc is None else type(exc).__name__, 'shape': list(shape), 'dtypes': [str(d) for d in tb._dtypes]})
        try:
            if py_fail is None and tb.values.shape != (shape if shape[1] else (shape[0], 0)):
                py_fail = f'values has shape {tb.values.shape}, shape is {shape}'
        except Exception as e:  # noqa
            py_fail = py_fail or f'values raises {type(e).__name__} after {what}'
    if py_fail is None:
        if _tbseen_lit(copy0)[0] != copy0_seen:
            py_fail = 'a copy taken before the growth changed'
        elif any(getattr(copy0, a) is getattr(tb, a) for a in ('_blocks', '_index', '_dtypes')):
            py_fail = 'the copy shares a list with the TypeBlocks it was copied from'
    h = lit.lst(recs)
    desc = {'container': 'TypeBlocks', 'rows': rows, 'init': [[str(b.dtype), list(b.shape)] for b in init_blocks], 'steps': steps}
    return desc, f'check_tb_M {lit.z(rows)} {blocks0} {h}', f'check_tb_S {lit.z(rows)} {before0} {h}', py_fail


def tb_cases(ctx):
    rng = ctx.rng
    for _ in range(ctx.n(250, 2500)):
        rows = rng.choice([0, 1, 2, 2, 3])
        init = []
        for _ in range(rng.randint(0, 3)):
            init.append(_tb_block(rng, rows, rng.choice([None, None, 1, 2])))

        def arg(r=None):
            r = rows if r is None else r
            w = rng.choice([None, None, 1, 2, 2, 0])
            return _tb_block(rng, r, w)
        ops = []
        for _ in range(rng.randint(1, 4)):
            c = rng.random()
            if c < 0.45:
                ops.append(('append', arg(rows if rng.random() < 0.8 else rows + 1)))
            elif c < 0.75:
                r = rows if rng.random() < 0.75 else rows + rng.choice([1, -1]) if rows else 1
                r = max(r, 0)
                bs = [_tb_block(rng, r, rng.choice([None, 1, 2])) for _ in range(rng.randint(0, 2))]
                ops.append(('extend_tb', r, bs))
            else:
                bs = [arg() for _ in range(rng.randint(0, 3))]
                if bs and rng.random() < 0.2:
                    bs[-1] = arg(rows + 1)
                ops.append(('extend_list', bs))
        try:
            desc, m, s, py_fail = tb_history(rows, init, ops)
        except Exception as e:  # noqa
            yield _escaped('kernel:TypeBlocks-growth', {'rows': rows, 'ops': [o[0] for o in ops]}, e, {'container': 'TypeBlocks'})
            continue
        ctx.count(f'tb:rows{rows}')
        for st in desc['steps']:
            ctx.count('tb:' + st['op'][0] + (':raised' if st['raised'] else ''))
        yield Case('kernel:TypeBlocks-growth', desc, m=m, s=s, py_fail=py_fail, tags={'container': 'TypeBlocks'},
                   nontrivial=any(st['raised'] is None for st in desc['steps']))


# ----------------------------------------------------------------------------- chains: growth calls with NO read in between
def _chain_ops(depth, base, kinds):
    """Concrete calls for a chain of op kinds; labels are made fresh per position so that every kind keeps its meaning."""
    import static_frame as sf
    tail = (1,) if depth == 2 else ('x', 1)
    last = list(base[-1])
    ops = []
    for k, kind in enumerate(kinds):
        if kind == 'append-new-outer':
            ops.append(('append', (f'n{k}',) + tail))
        elif kind == 'append-under-last':
            ops.append(('append', tuple(last[:-1]) + (100 + k,)))
        elif kind == 'append-dup':
            ops.append(('append', tuple(base[0])))
        elif kind == 'extend':
            ops.append(('extend', [(f'e{k}a',) + tail, (f'e{k}a',) + tail[:-1] + (2,), (f'e{k}b',) + tail]))
        elif kind == 'extend-go':
            ops.append(('extend', [(f'g{k}',) + tail], depth, True))
        elif kind == 'extend-rejected':
            ops.append(('extend', [(f'r{k}',) + tail, (base[0][0],) + tail[:-1] + (77,)]))
        elif kind == 'contains-settled':
            ops.append(('contains', tuple(base[0])))
        # the last label moves when an accepted call appends
        if kind == 'append-new-outer':
            last = [f'n{k}'] + list(tail)
        elif kind == 'append-under-last':
            last = last[:-1] + [100 + k]
        elif kind == 'extend':
            last = [f'e{k}b'] + list(tail)
        elif kind == 'extend-go':
            last = [f'g{k}'] + list(tail)
    return ops


CHAIN_KINDS = ['append-new-outer', 'append-under-last', 'extend', 'extend-go', 'extend-rejected', 'append-dup', 'contains-settled']


def hier_chain_history(labels, depth, ops):
    ih = _make_ih(labels, depth)
    tree0 = _tree_lit(ih._levels)
    recs, steps = [], []
    for op in ops:
        if op[0] == 'append':
            exc = _call(lambda: ih.append(op[1]))
            ol = f'(HAppend {lit.vlist(list(op[1]))})'
        elif op[0] == 'extend':
            other = _make_ih(op[1], depth, go=bool(len(op) > 3 and op[3]))
            exc = _call(lambda: ih.extend(other))
            ol = f'(HExtend (mk_hgo {_tree_lit(other._levels)} {lit.z(other.depth)}))'
        else:
            exc = _call(lambda: op[1] in ih)          # membership under a settled outer label: does not flush
            ol = 'HRead'
        recs.append(f'({ol}, {_out(exc)})')
        steps.append({'op': [op[0], _j(op[1])], 'raised': None if exc is None else type(exc).__name__})
    try:
        snap = snap_hier(ih, True)
    except Exception as e:  # noqa
        snap = ([('unreadable', type(e).__name__)], -1, False)
    final = _hseen_lit(snap)
    desc = {'container': 'IndexHierarchyGO', 'labels': _j(labels), 'depth': depth, 'chain (no read in between)': steps,
            'seen at the end': {'labels': _j(snap[0]), 'len': snap[1], 'coherent': snap[2]}}
    h = lit.lst(recs)
    return desc, f'check_hgo_M_chain {tree0} {lit.z(depth)} {h} {final}', f'check_hgo_S_chain {lit.z(depth)} {_tuples_lit(labels)} {h} {final}'


def hier_frame_chain(depth, labels, ops):
    """FrameGO with IndexHierarchyGO columns: a chain of growth calls with no read in between, everything read at the end."""
    import static_frame as sf
    n = len(labels)
    f = sf.FrameGO(np.arange(2 * n).reshape(2, n), index=('r0', 'r1'), columns=sf.IndexHierarchyGO.from_labels(labels))
    want = [tuple(l) for l in labels]
    data = {}
    steps = []
    for k, op in enumerate(ops):
        if op[0] == 'append':                          # f[key] = values
            key = tuple(op[1])
            vals = np.array([100 + k, 200 + k])
            exc = _call(lambda: f.__setitem__(key, vals))
            given = [(key, vals.tolist())]
        elif op[0] == 'extend':
            keys = [tuple(x) for x in op[1]]
            arr = np.arange(2 * len(keys)).reshape(2, len(keys)) + 1000 * (k + 1)
            other = sf.Frame(arr, index=('r0', 'r1'), columns=sf.IndexHierarchy.from_labels(keys))
            exc = _call(lambda: f.extend(other))
            given = [(key, arr[:, j].tolist()) for j, key in enumerate(keys)]
        else:
            exc = _call(lambda: tuple(op[1]) in f.columns)
            given = []
        steps.append({'op': [op[0], _j(op[1])], 'raised': None if exc is None else type(exc).__name__})
        if exc is None:
            for key, vals in given:
                want.append(key)
                data[key] = vals
    problem = None
    try:
        shape = tuple(f.shape)
        ncol = len(f.columns)
        got = [tuple(_j(x) for x in l) for l in f.columns]
        vals = [tuple(r) for r in f.columns.values.tolist()]
        if got != want:
            problem = f'after the chain the columns are {got[n - 1:]}, expected {want[n - 1:]}'
        elif shape != (2, len(want)) or ncol != len(want) or vals != want:
            problem = f'labels and data out of step: shape {shape}, len(columns) {ncol}, columns.values {vals[-3:]}, {len(want)} labels expected'
        else:
            for key, v in data.items():
                if key not in f.columns or f[key].values.tolist() != v:
                    problem = f'f[{key!r}] does not hold the data given for it'
                    break
            if not problem and [k_ for k_, _ in f.to_pairs(0)] != want:
                problem = 'to_pairs omits or reorders columns'
            if not problem and f.values[:, :n].tolist() != np.arange(2 * n).reshape(2, n).tolist():
                problem = 'the columns present before the chain changed'
    except Exception as e:  # noqa
        problem = f'after the chain the frame cannot be read: {type(e).__name__}: {str(e)[:100]}'
    return {'container': 'FrameGO with IndexHierarchyGO columns', 'depth': depth, 'columns': _j(labels),
            'chain (no read in between)': steps}, problem


def chain_cases(ctx):
    rng = ctx.rng
    bases = {2: [('a', 1), ('a', 2), ('b', 1)], 3: [('a', 'x', 1), ('a', 'y', 1), ('b', 'x', 1)]}
    chains = []
    for n in (2, 3):
        chains += list(itertools.product(CHAIN_KINDS, repeat=n))
    if ctx.tier == 'thorough':
        chains += list(itertools.product(CHAIN_KINDS, repeat=4))
    else:
        chains += [tuple(rng.choice(CHAIN_KINDS) for _ in range(rng.choice([4, 5]))) for _ in range(150)]
    for depth in (2, 3):
        for kinds in chains:
            if depth == 3 and len(kinds) == 3 and ctx.tier == 'quick' and rng.random() > 0.4:
                continue
            ops = _chain_ops(depth, bases[depth], kinds)
            try:
                desc, m, s = hier_chain_history(bases[depth], depth, ops)
                yield Case('api:IndexHierarchyGO-chains', desc, m=m, s=s, tags={'container': 'IndexHierarchyGO'},
                           nontrivial=any(st['raised'] is None and st['op'][0] != 'contains' for st in desc['chain (no read in between)']))
            except Exception as e:  # noqa
                yield _escaped('api:IndexHierarchyGO-chains', {'depth': depth, 'chain': list(kinds)}, e, {'container': 'IndexHierarchyGO'})
            ctx.count(f'chains:depth{depth}:len{len(kinds)}')
            try:
                desc, problem = hier_frame_chain(depth, bases[depth], ops)
                yield Case('api:FrameGO-hier-columns-chains', desc, py_fail=problem, tags={'container': 'FrameGO-hier-columns'},
                           nontrivial=any(st['raised'] is None for st in desc['chain (no read in between)']))
            except Exception as e:  # noqa
                yield _escaped('api:FrameGO-hier-columns-chains', {'depth': depth, 'chain': list(kinds)}, e, {'container': 'FrameGO-hier-columns'})


# ----------------------------------------------------------------------------- generate(repo): decision tables
def _u(node):
    import ast
    return ast.unparse(node).replace('"', "'")


def _find_class(tree, name):
    import ast
    for n in tree.body:
        if isinstance(n, ast.ClassDef) and n.name == name:
            return n
    raise ValueError(f'class {name} not found')


def _find_def(body, name):
    import ast
    for n in body:
        if isinstance(n, ast.FunctionDef) and n.name == name:
            return n
    return None


def _strip_doc(body):
    import ast
    if body and isinstance(body[0], ast.Expr) and isinstance(getattr(body[0], 'value', None), ast.Constant) and isinstance(body[0].value.value, str):
        return body[1:]
    return body


CLASSES = ('Frame', 'FrameGO', 'FrameHE')
KCLS = {'Frame': 'KFrame', 'FrameGO': 'KFrameGO', 'FrameHE': 'KFrameHE'}


def _flag_table(node, what):
    """own_* keyword value -> {dst class: bool}: a constant, or `constructor is X` / `constructor is not X`."""
    import ast
    if isinstance(node, ast.Constant) and isinstance(node.value, bool):
        return {c: node.value for c in CLASSES}
    if (isinstance(node, ast.Compare) and len(node.ops) == 1 and isinstance(node.left, ast.Name) and node.left.id == 'constructor'
            and isinstance(node.comparators[0], ast.Name) and node.comparators[0].id in CLASSES):
        x = node.comparators[0].id
        if isinstance(node.ops[0], ast.Is):
            return {c: c == x for c in CLASSES}
        if isinstance(node.ops[0], ast.IsNot):
            return {c: c != x for c in CLASSES}
    raise ValueError(f'{what}: unsupported flag expression {_u(node)}')


def _to_frame_site(cls_node):
    """The constructor call of <class>._to_frame: is the block list copied, which members are handed over, the own_* flags."""
    import ast
    fn = _find_def(cls_node.body, '_to_frame')
    if fn is None:
        return None
    body = _strip_doc(fn.body)
    if len(body) != 1 or not isinstance(body[0], ast.Return) or not isinstance(body[0].value, ast.Call):
        raise ValueError(f'{cls_node.name}._to_frame: expected a single `return constructor(...)`')
    call = body[0].value
    if _u(call.func) != 'constructor' or len(call.args) != 1:
        raise ValueError(f'{cls_node.name}._to_frame: expected constructor(<blocks>, ...)')
    data = _u(call.args[0])
    if data == 'self._blocks.copy()':
        copied = True
    elif data == 'self._blocks':
        copied = False
    else:
        raise ValueError(f'{cls_node.name}._to_frame: unsupported data argument {data}')
    kws = {k.arg: k.value for k in call.keywords}
    if _u(kws.get('columns', ast.Constant(None))) not in ('self._columns', 'self.columns'):
        raise ValueError(f'{cls_node.name}._to_frame: columns is not self._columns')
    out = {'copied': copied}
    for flag in ('own_data', 'own_index', 'own_columns'):
        out[flag] = _flag_table(kws[flag], f'{cls_node.name}._to_frame {flag}') if flag in kws else {c: False for c in CLASSES}
    return out


def _conv_method(cls_node, name):
    """to_frame / to_frame_go / to_frame_he of a class: 'self' or the class passed to _to_frame (None: inherited)."""
    import ast
    fn = _find_def(cls_node.body, name)
    if fn is None:
        return None
    body = _strip_doc(fn.body)
    if len(body) != 1 or not isinstance(body[0], ast.Return):
        raise ValueError(f'{cls_node.name}.{name}: expected a single return')
    v = _u(body[0].value)
    if v == 'self':
        return 'self'
    for c in CLASSES:
        if v == f'self._to_frame({c})':
            return c
    raise ValueError(f'{cls_node.name}.{name}: unsupported body {v}')


def _class_attr(cls_node, name):
    import ast
    for n in cls_node.body:
        if isinstance(n, ast.Assign) and len(n.targets) == 1 and _u(n.targets[0]) == name:
            return _u(n.value)
        if isinstance(n, ast.AnnAssign) and _u(n.target) == name and n.value is not None:
            return _u(n.value)
    return None


def _static_of(index_tree, container_tree, cls_name, depth=0):
    """STATIC of an index class: own body, else the first base that defines it, else ContainerBase's default."""
    import ast
    if depth > 6:
        raise ValueError('STATIC lookup too deep')
    try:
        node = _find_class(index_tree, cls_name)
    except ValueError:
        node = None
    if node is not None:
        v = _class_attr(node, 'STATIC')
        if v is not None:
            return {'True': True, 'False': False}[v]
        for b in node.bases:
            r = _static_of(index_tree, container_tree, _u(b), depth + 1)
            if r is not None:
                return r
        return None
    for n in container_tree.body:
        if isinstance(n, ast.ClassDef):
            v = _class_attr(n, 'STATIC')
            if v is not None and depth > 0 and cls_name in ('IndexBase', 'ContainerOperand', 'ContainerBase'):
                return {'True': True, 'False': False}[v]
    return None


ACTIONS = {
    'value': 'ASame', 'index': 'ASame',
    'value._IMMUTABLE_CONSTRUCTOR(value)': 'AImmutable', 'index._IMMUTABLE_CONSTRUCTOR(index)': 'AImmutable',
    'value.copy()': 'ACopy', 'value.__class__(value)': 'ACopy', 'index.__class__(index)': 'ACopy', 'index.copy()': 'ACopy',
    'value._MUTABLE_CONSTRUCTOR(value)': 'AMutable', 'index._MUTABLE_CONSTRUCTOR(index)': 'AMutable',
}


def _ret_action(stmts, what):
    """The action of a statement list that ends in `return <expr>` (nothing before it)."""
    import ast
    stmts = _strip_doc(stmts)
    if len(stmts) == 1 and isinstance(stmts[0], ast.Return):
        v = _u(stmts[0].value)
        if v in ACTIONS:
            return ACTIONS[v]
        raise ValueError(f'{what}: unsupported return {v}')
    raise ValueError(f'{what}: expected a single return')


def _if_not_static(stmts, var, what):
    """`if not <var>.STATIC: return A` followed by `return B`  ->  (action for mutable, action for static);
    or `if <var>.STATIC: return B` followed by `return A`."""
    import ast
    stmts = _strip_doc(stmts)
    if len(stmts) == 2 and isinstance(stmts[0], ast.If) and not stmts[0].orelse:
        t = _u(stmts[0].test)
        a = _ret_action(stmts[0].body, what)
        b = _ret_action(stmts[1:], what)
        if t == f'not {var}.STATIC':
            return a, b
        if t == f'{var}.STATIC':
            return b, a
    raise ValueError(f'{what}: unsupported shape')


def generate(repo):
    """Decision tables of the code that decides sharing, read off the AST of /repo (fail closed)."""
    import ast
    import os
    core = os.path.join(repo, 'static_frame', 'core')

    def parse(fn):
        with open(os.path.join(core, fn)) as f:
            return ast.parse(f.read())
    frame_t, cu_t, index_t, tb_t, cont_t = (parse(x) for x in ('frame.py', 'container_util.py', 'index.py', 'type_blocks.py', 'container.py'))
    nodes = {c: _find_class(frame_t, c) for c in CLASSES}

    # --- _to_frame sites and the public conversion methods
    sites = {}
    for c in CLASSES:
        s = _to_frame_site(nodes[c])
        if s is None:
            raise ValueError(f'{c}._to_frame not found')
        sites[c] = s
    conv = {}
    meth = {'Frame': 'to_frame', 'FrameGO': 'to_frame_go', 'FrameHE': 'to_frame_he'}
    for c in CLASSES:
        for dst in CLASSES:
            r = _conv_method(nodes[c], meth[dst])
            if r is None:                      # inherited from Frame
                r = _conv_method(nodes['Frame'], meth[dst])
            if r is None:
                raise ValueError(f'{c}.{meth[dst]} not found')
            if r != 'self' and r != dst:
                raise ValueError(f'{c}.{meth[dst]} converts to {r}')
            conv[(c, dst)] = (r == 'self')

    # --- Frame.__init__
    init = _find_def(nodes['Frame'].body, '__init__')
    own_data_takes = rebuilds = frame_copies = own_cols_takes = static_check = index_static_check = None
    ifoc_default = None
    for n in ast.walk(init):
        if isinstance(n, ast.If):
            t = _u(n.test)
            if t == 'data.__class__ is TypeBlocks':
                inner = [x for x in n.body if isinstance(x, ast.If)]
                if len(inner) != 1 or _u(inner[0].test) != 'own_data':
                    raise ValueError('Frame.__init__: TypeBlocks branch without `if own_data`')
                a = [_u(x) for x in inner[0].body if isinstance(x, ast.Assign)]
                b = [_u(x) for x in inner[0].orelse if isinstance(x, ast.Assign)]
                if a == ['self._blocks = data']:
                    own_data_takes = True
                else:
                    raise ValueError(f'Frame.__init__: own_data branch is {a}')
                if b == ['self._blocks = TypeBlocks.from_blocks(data._blocks)']:
                    rebuilds = True
                elif b == ['self._blocks = data']:
                    rebuilds = False
                else:
                    raise ValueError(f'Frame.__init__: not-own_data branch is {b}')
            elif t == 'isinstance(data, Frame)':
                a = [_u(x) for x in n.body if isinstance(x, ast.Assign) and _u(x).startswith('self._blocks')]
                if a == ['self._blocks = data._blocks.copy()']:
                    frame_copies = True
                elif a == ['self._blocks = data._blocks']:
                    frame_copies = False
                else:
                    raise ValueError(f'Frame.__init__: Frame branch is {a}')
            elif t == 'own_columns':
                a = [_u(x) for x in n.body if isinstance(x, ast.Assign)]
                if 'self._columns = columns' not in a:
                    raise ValueError(f'Frame.__init__: own_columns branch is {a}')
                own_cols_takes = True
                rest = _u(n)
                if 'index_from_optional_constructor(columns, default_constructor=self._COLUMNS_CONSTRUCTOR' not in rest:
                    raise ValueError('Frame.__init__: columns are not passed through index_from_optional_constructor with the class default')
                ifoc_default = True
            elif t == 'self._COLUMNS_CONSTRUCTOR.STATIC != self._columns.STATIC':
                static_check = any(isinstance(x, ast.Raise) for x in n.body)
            elif t == 'not self._index.STATIC':
                index_static_check = any(isinstance(x, ast.Raise) for x in n.body)
    if None in (own_data_takes, rebuilds, frame_copies, own_cols_takes, ifoc_default):
        raise ValueError('Frame.__init__: expected branches not found')
    static_check = bool(static_check)
    index_static_check = bool(index_static_check)

    # --- _COLUMNS_CONSTRUCTOR of each class and whether it is static
    cols_static = {}
    for c in CLASSES:
        ctor = _class_attr(nodes[c], '_COLUMNS_CONSTRUCTOR') or _class_attr(nodes['Frame'], '_COLUMNS_CONSTRUCTOR')
        st = _static_of(index_t, cont_t, ctor)
        if st is None:
            raise ValueError(f'cannot resolve STATIC of {ctor}')
        cols_static[c] = st

    # --- index_from_optional_constructor (container_util.py)
    fn = _find_def(cu_t.body, 'index_from_optional_constructor')
    ifoc = None
    for n in _strip_doc(fn.body):
        if isinstance(n, ast.If) and _u(n.test) == 'isinstance(value, IndexBase)':
            inner = _strip_doc(n.body)
            if len(inner) == 1 and isinstance(inner[0], ast.If) and _u(inner[0].test) == 'is_static(default_constructor)':
                s_mut, s_stat = _if_not_static(inner[0].body, 'value', 'index_from_optional_constructor (static default)')
                m_mut, m_stat = _if_not_static(inner[0].orelse, 'value', 'index_from_optional_constructor (mutable default)')
                ifoc = {(True, False): s_mut, (True, True): s_stat, (False, False): m_mut, (False, True): m_stat}
    if ifoc is None:
        raise ValueError('index_from_optional_constructor: unsupported shape')

    # --- mutable_immutable_index_filter / immutable_index_filter (index.py)
    imm = _find_def(index_t.body, 'immutable_index_filter')
    i_mut, i_stat = _if_not_static(imm.body, 'index', 'immutable_index_filter')
    mif = _find_def(index_t.body, 'mutable_immutable_index_filter')
    body = _strip_doc(mif.body)
    if not (len(body) == 3 and isinstance(body[0], ast.If) and _u(body[0].test) == 'target_static'
            and _u(body[0].body[0]) == 'return immutable_index_filter(index)'):
        raise ValueError('mutable_immutable_index_filter: unsupported shape')
    g_mut, g_stat = _if_not_static(body[1:], 'index', 'mutable_immutable_index_filter')
    miif = {(True, False): i_mut, (True, True): i_stat, (False, False): g_mut, (False, True): g_stat}

    # --- TypeBlocks.__copy__
    tbc = _find_def(_find_class(tb_t, 'TypeBlocks').body, '__copy__')
    body = _strip_doc(tbc.body)
    if len(body) != 1 or not isinstance(body[0], ast.Return) or not isinstance(body[0].value, ast.Call):
        raise ValueError('TypeBlocks.__copy__: unsupported shape')
    kws = {k.arg: _u(k.value) for k in body[0].value.keywords}
    fresh = {'blocks': {'[b for b in self._blocks]': True, 'list(self._blocks)': True, 'self._blocks.copy()': True, 'self._blocks': False},
             'dtypes': {'self._dtypes.copy()': True, 'list(self._dtypes)': True, 'self._dtypes': False},
             'index': {'self._index.copy()': True, 'list(self._index)': True, 'self._index': False}}
    tb_fresh = True
    for k, table in fresh.items():
        if kws.get(k) not in table:
            raise ValueError(f'TypeBlocks.__copy__: unsupported {k}={kws.get(k)}')
        tb_fresh = tb_fresh and table[kws[k]]

    def b(x):
        return 'true' if x else 'false'

    def by_cls(name, f, ret='bool'):
        arms = ' '.join(f'| {KCLS[c]} => {f(c)}' for c in CLASSES)
        return f'Definition {name} (k : fcls) : {ret} := match k with {arms} end.\n'

    def by_pair(name, f):
        arms = ' '.join('| %s => match dst with %s end' % (KCLS[c], ' '.join(f'| {KCLS[d]} => {f(c, d)}' for d in CLASSES)) for c in CLASSES)
        return f'Definition {name} (src dst : fcls) : bool := match src with {arms} end.\n'

    def by_bools(name, table):
        return (f'Definition {name} (target_static value_static : bool) : idx_action :=\n'
                f'  match target_static, value_static with\n'
                f'  | true, true => {table[(True, True)]} | true, false => {table[(True, False)]}\n'
                f'  | false, true => {table[(False, True)]} | false, false => {table[(False, False)]}\n  end.\n')
    text = ('(* GENERATED on every run by tools/sfv/props/c09.py:generate from the AST of\n'
            '   static_frame/core/frame.py (Frame/FrameGO/FrameHE._to_frame, to_frame*, Frame.__init__, _COLUMNS_CONSTRUCTOR),\n'
            '   container_util.py (index_from_optional_constructor), index.py (mutable_immutable_index_filter, STATIC),\n'
            '   type_blocks.py (TypeBlocks.__copy__).  Do not edit. *)\n'
            'Require Import SF.Prelude SF.GrowOnlyShare.\n\n')
    text += by_cls('gen_to_frame_blocks_copied', lambda c: b(sites[c]['copied']))
    for flag in ('own_data', 'own_index', 'own_columns'):
        text += by_pair(f'gen_to_frame_{flag}', lambda c, d, flag=flag: b(sites[c][flag][d]))
    text += by_pair('gen_conv_returns_self', lambda c, d: b(conv[(c, d)]))
    text += by_cls('gen_columns_static', lambda c: b(cols_static[c]))
    text += f'Definition gen_init_own_data_takes : bool := {b(own_data_takes)}.\n'
    text += f'Definition gen_init_copy_rebuilds : bool := {b(rebuilds)}.\n'
    text += f'Definition gen_init_frame_data_copies : bool := {b(frame_copies)}.\n'
    text += f'Definition gen_init_own_columns_takes : bool := {b(own_cols_takes)}.\n'
    text += f'Definition gen_init_static_check : bool := {b(static_check)}.\n'
    text += f'Definition gen_init_index_static_check : bool := {b(index_static_check)}.\n'
    text += f'Definition gen_tb_copy_fresh : bool := {b(tb_fresh)}.\n'
    text += by_bools('gen_ifoc', ifoc)
    text += by_bools('gen_miif', miif)
    return {'Gen/Gen_c09.v': text}

# ----------------------------------------------------------------------------- worlds: conversions x growth
KNAME = {'Frame': 'KFrame', 'FrameGO': 'KFrameGO', 'FrameHE': 'KFrameHE'}


def _fview_lit(fr):
    cols = [f'({lit.dtype(dt)}, {lit.vlist(vs)})' for dt, vs in _column_reads(fr)]
    try:
        labels = fr.columns.values.tolist()
    except Exception as e:  # noqa
        labels = [_unreadable(e)]
    return f'({KNAME[type(fr).__name__]}, {lit.vlist(labels)}, {lit.lst(cols)})'


def _world_problems(live):
    """Python-side observations of a world: directory-walking reads of every live frame, and identity of the
    growable LISTS inside distinct TypeBlocks objects (_blocks, _index, _dtypes) when a grow-only frame is involved."""
    import static_frame as sf
    for i, f in enumerate(live):
        why = _alt_reads(f, _column_reads(f))
        if why:
            return f'live[{i}] ({type(f).__name__}): {why}'
    for i in range(len(live)):
        for j in range(i + 1, len(live)):
            a, b = live[i], live[j]
            if a is b or a._blocks is b._blocks:
                continue                         # the same TypeBlocks object is compared with the model
            if not (isinstance(a, sf.FrameGO) or isinstance(b, sf.FrameGO)):
                continue
            for attr in ('_blocks', '_index', '_dtypes'):
                if getattr(a._blocks, attr) is getattr(b._blocks, attr):
                    return f'live[{i}] and live[{j}] are different TypeBlocks sharing the list TypeBlocks.{attr}'
    return None


def _same_pairs(objs):
    out = []
    for i in range(len(objs)):
        for j in range(i + 1, len(objs)):
            if objs[i] is objs[j]:
                out.append((i, j))
    return out


def _wseen_lit(live):
    pc = _same_pairs([f._columns for f in live])
    pb = _same_pairs([f._blocks for f in live])
    pl = lambda ps: lit.lst([f'({lit.z(a)}, {lit.z(b)})' for a, b in ps])
    return f'(mk_wseen {lit.lst([_fview_lit(f) for f in live])} {pl(pc)} {pl(pb)})', pc, pb


def world_history(cls_name, init, ops):
    import static_frame as sf
    classes = {'Frame': sf.Frame, 'FrameGO': sf.FrameGO, 'FrameHE': sf.FrameHE}
    cols = [_arr(dt, vs) for dt, vs in init['cols']]
    f0 = zoo.frame_from_columns(cols, tuple(tuple(x) for x in init['layout']), index=init['rows'],
                                columns=init['labels'], cls=classes[cls_name])
    auto = init['labels'] is None
    labels0 = list(range(len(init['cols']))) if auto else list(init['labels'])
    blocks0 = lit.lst([_blk_lit(b) for b in f0._blocks._blocks])
    live = [f0]
    recs, srecs, steps = [], [], []
    py_fail = None
    prev_views = lit.lst([_fview_lit(f0)])
    failed_conversion = False
    for op in ops:
        if failed_conversion:
            break          # later steps name frames that do not exist
        kind = op[0]
        if kind == 'grow':
            i, gop = op[1], op[2]
            exc, gl = apply_frame_op(live[i], gop)
            ol = f'(WGrow {i}%nat {gl})'
            what = {'grow': i, 'op': _j_op(gop)}
        else:
            i, dst = op[1], op[2]
            if kind == 'to':
                meth = {'Frame': 'to_frame', 'FrameGO': 'to_frame_go', 'FrameHE': 'to_frame_he'}[dst]
                try:
                    res, exc = getattr(live[i], meth)(), None
                except Exception as e:  # noqa
                    res, exc = None, e
                ol = f'(WToFrame {i}%nat {KNAME[dst]})'
                what = {'call': f'live[{i}].{meth}()'}
            else:
                try:
                    res, exc = classes[dst](live[i]), None
                except Exception as e:  # noqa
                    res, exc = None, e
                ol = f'(WConstruct {i}%nat {KNAME[dst]})'
                what = {'call': f'sf.{dst}(live[{i}])'}
            if res is not None:
                live.append(res)
            else:
                failed_conversion = True
        seen, pc, pb = _wseen_lit(live)
        if py_fail is None:
            why = _world_problems(live)
            if why:
                py_fail = f'after step {len(recs) + 1}: {why}'
        recs.append(f'({ol}, {_out(exc)}, {seen})')
        srecs.append(f'({"SGrow" if kind == "grow" else "SConv"} {i}%nat, {_out(exc)}, {seen})')
        what.update({'raised': None if exc is None else type(exc).__name__, 'live': [type(f).__name__ for f in live],
                     'same_columns_object': pc, 'same_blocks_object': pb,
                     'columns': [_j(f.columns.values.tolist()) for f in live]})
        steps.append(what)
    h = lit.lst(recs)
    desc = {'container': 'world of frames', 'first': cls_name,
            'init': {'rows': _j(init['rows']), 'columns': 'auto' if auto else _j(init['labels']),
                     'data': [[str(np.dtype(dt)), _j(vs)] for dt, vs in init['cols']]},
            'steps': steps}
    m = (f'check_world_M {KNAME[cls_name]} {lit.b(auto)} {lit.vlist(init["rows"])} {lit.vlist(labels0)} {blocks0} {h}')
    s = f'check_world_S {prev_views} {lit.lst(srecs)}'
    return desc, m, s, py_fail


def world_cases(ctx):
    rng = ctx.rng
    i8 = np.int64
    init0 = {'rows': ['x', 'y'], 'labels': ['a', 'b'], 'cols': [(i8, [1, 2]), (np.float64, [0.5, 1.5])], 'layout': [(1, False), (1, False)]}
    classes = ['Frame', 'FrameGO', 'FrameHE']

    def grow_op(k):
        return {'op': 'set', 'key': f'n{k}', 'value': ('arr', i8, [k, k + 1])}

    def emit(kind, cls_name, init, ops):
        try:
            desc, m, s, py_fail = world_history(cls_name, init, ops)
        except Exception as e:  # noqa
            return _escaped(kind, {'first': cls_name, 'ops': [[o[0], o[1], o[2] if o[0] != 'grow' else _j_op(o[2])] for o in ops]}, e, {'container': 'world'})
        ctx.count('world:first:' + cls_name, f'world:len{len(ops)}')
        for op in ops:
            ctx.count('world:op:' + op[0] + (':' + op[2] if op[0] != 'grow' else ''))
        return Case(kind, desc, m=m, s=s, py_fail=py_fail, tags={'container': 'world'}, nontrivial=any(o[0] == 'grow' for o in ops))
    # exhaustive: every source class x every conversion x (grow the source / the result, when grow-only) x a second conversion
    for src in classes:
        for kind in ('to', 'ctor'):
            for dst in classes:
                for kind2 in ('to', 'ctor'):
                    for dst2 in classes:
                        ops = [(kind, 0, dst)]
                        k = 0
                        if src == 'FrameGO':
                            ops.append(('grow', 0, grow_op(k)))
                            k += 1
                        if dst == 'FrameGO':
                            ops.append(('grow', 1, grow_op(k)))
                            k += 1
                        if src == 'FrameGO' and dst == 'FrameGO':
                            for side in (0, 1, 0, 1):          # interleaved growth on both sides of the pair
                                ops.append(('grow', side, grow_op(k)))
                                k += 1
                        ops.append((kind2, 1, dst2))
                        if dst2 == 'FrameGO':
                            ops.append(('grow', 2, grow_op(k)))
                            k += 1
                        if src == 'FrameGO':
                            ops.append(('grow', 0, grow_op(k)))
                        yield emit('api:world-exhaustive', src, init0, ops)
    # random worlds
    for _ in range(ctx.n(60, 800)):
        nrows = rng.choice([1, 2, 3])
        rows = ['x', 'y', 'z'][:nrows]
        ncols = rng.randint(0, 3)
        cols = [_col(rng, nrows) for _ in range(ncols)]
        auto = rng.random() < 0.25
        init = {'rows': rows, 'labels': None if auto else ['a', 'b', 'c'][:ncols], 'cols': cols,
                'layout': _rand_layout(rng, cols) if cols else []}
        src = rng.choice(classes)
        live_cls = [src]
        ops = []
        k = 0
        for _ in range(rng.randint(2, 8)):
            gos = [i for i, c in enumerate(live_cls) if c == 'FrameGO']
            if gos and rng.random() < 0.5:
                i = rng.choice(gos)
                r = rng.random()
                if r < 0.6:
                    g = {'op': 'set', 'key': f'n{k}', 'value': ('arr',) + _col(rng, nrows)}
                elif r < 0.8:
                    cs = [_col(rng, nrows), _col(rng, nrows)]
                    g = {'op': 'ext_frame', 'fidx': rows, 'fcols': [f'n{k}', f'm{k}'], 'cols': cs, 'layout': _rand_layout(rng, cs)}
                else:
                    g = {'op': 'set', 'key': f'n{k}', 'value': ('arr',) + _col(rng, nrows + 1)}     # rejected
                k += 1
                ops.append(('grow', i, g))
            else:
                i = rng.randrange(len(live_cls))
                dst = rng.choice(classes)
                ops.append((rng.choice(['to', 'ctor']), i, dst))
                live_cls.append(dst)
        yield emit('api:world-random', src, init, ops)


def cases(ctx):
    yield from index_cases(ctx)
    yield from frame_cases(ctx)
    yield from hier_cases(ctx)
    yield from hier_frame_cases(ctx)
    yield from chain_cases(ctx)
    yield from typed_cases(ctx)
    yield from routes_cases(ctx)
    yield from tb_cases(ctx)
    yield from world_cases(ctx)
    yield from sharing_cases(ctx)
