'''C09 -- grow-only containers: append-only, all-or-nothing, never shared.'''
import itertools

import numpy as np

from .. import lit
from .. import zoo
from ..core import Case

ID = 'C09'
MANIFEST = {
    'text': 'TODO',
    'note': 'TODO',
    'technique': 'state-machine refinement (Coq) + recorded histories replayed through the model inside Coq',
}
PROPERTY_FILES = ['Properties/C09.v']
REFUTED_FILES = []
MODEL_FILES = ['SF/GrowOnly.v', 'SF/GrowOnlyVal.v']
IMPORTS = 'Require Import SF.Prelude SF.Dtype SF.Value SF.GrowOnly SF.GrowOnlyVal.'
RULE = 'TODO'
ASSUMPTIONS = []
TRUSTED = []
EXHAUSTIVE = {'quick': False, 'thorough': False}
TRANSLATED = ['resolve_dtype']

F_IDX_EXT = 'C09-indexgo-extend-partial'
F_FRM_EXT = 'C09-framego-extend-partial'
F_ITEMS = 'C09-framego-extend-items-partial'
F_AUTO = 'C09-autoindex-nonint-equal-label'


# ----------------------------------------------------------------------------- literals
def _out(exc):
    return '(Ok tt)' if exc is None else f'(Err {lit.s(lit.err_class(exc))})'


def _olist(items, printer):
    return lit.lst([printer(x) for x in items])


def _oz(v):
    return lit.oz(v)


def _call(fn):
    try:
        fn()
        return None
    except Exception as e:  # noqa
        return e


def _in(label, labels):
    '''Python equality membership (what dict / AutoMap use).'''
    return any(label == x for x in labels)


# ----------------------------------------------------------------------------- IndexGO histories
def snap_index(idx):
    vals = idx.values.tolist()
    npos = len(idx.positions)
    locs = []
    for l in vals:
        try:
            r = idx.loc_to_iloc(l)
        except Exception:  # noqa
            r = None
        ok = isinstance(r, (int, np.integer, bool, np.bool_))      # a bool position is the int it equals
        locs.append(int(r) if ok else None)
    return vals, npos, locs


def _iobs_lit(snap):
    vals, npos, locs = snap
    return f'(Some (mk_iobs {lit.vlist(vals)} {lit.z(npos)} {_olist(locs, _oz)}))'


def _iop_lit(op):
    if op[0] == 'append':
        return f'(IAppend {lit.val(op[1])})'
    if op[0] == 'extend':
        return f'(IExtend {lit.vlist(op[1])})'
    return 'IRead'


def index_history(auto, labels, ops, look):
    '''Run a history on a real IndexGO; returns (desc, m, s, py_fail).  look[i]: snapshot after step i.'''
    import static_frame as sf
    idx = sf.IndexGO(range(len(labels)), loc_is_iloc=True) if auto else sf.IndexGO(labels)
    recs, steps = [], []
    for op, see in zip(ops, look):
        if op[0] == 'append':
            exc = _call(lambda: idx.append(op[1]))
        elif op[0] == 'extend':
            exc = _call(lambda: idx.extend(op[1]))
        else:
            exc = _call(lambda: (idx.values, len(idx)))
        snap = snap_index(idx) if see else None
        recs.append(f'({_iop_lit(op)}, {_out(exc)}, {_iobs_lit(snap) if snap else "None"})')
        steps.append({'op': [op[0]] + ([_j(op[1])] if len(op) > 1 else []),
                      'raised': None if exc is None else type(exc).__name__,
                      'seen': None if snap is None else {'values': _j(snap[0]), 'positions': snap[1], 'loc_to_iloc': snap[2]}})
    h = lit.lst(recs)
    desc = {'container': 'IndexGO', 'loc_is_iloc': auto, 'labels': _j(labels), 'steps': steps}
    m = f'check_igo_M {lit.b(auto)} {lit.vlist(labels)} {h}'
    s = f'check_igo_S {lit.vlist(labels)} {h}'
    return desc, m, s


def _j(v):
    if isinstance(v, (list, tuple)):
        return [_j(x) for x in v]
    if isinstance(v, (np.generic,)):
        return v.item()
    if isinstance(v, float) and v != v:
        return 'nan'
    return v


def classify_index_ops(auto, labels, ops):
    '''Finding class of a history BY CONSTRUCTION of its inputs (the first one met), tracking only what the
    generator knows: the labels given so far and whether the index still is a pure 0..n-1 auto index.'''
    cur = list(labels)
    is_auto = auto
    for op in ops:
        if op[0] == 'read':
            continue
        vs = [op[1]] if op[0] == 'append' else list(op[1])
        added = []
        rejected = False
        for k, v in enumerate(vs):
            intlike = isinstance(v, (int, np.integer))      # bool is an int
            now = cur + added
            if _in(v, now):
                if is_auto and not intlike:
                    return F_AUTO
                if k > 0:
                    return F_IDX_EXT
                rejected = True                               # rejected at the first label: nothing appended
                break
            if is_auto and not (intlike and v == len(now)):
                is_auto = False
            added.append(v)
        if not rejected:
            cur += added
    return None


IDX_POOL = ['a', 'b', 'c', 'd', 'e']


def index_exhaustive(ctx):
    '''All histories of length <= N over a small op alphabet on the labels {a, b} (explicit map) and on
    a 0..n-1 auto index with int / float / str labels.'''
    N = 3 if ctx.tier == 'quick' else 4
    alphabets = [
        (False, ['a'], [('append', 'a'), ('append', 'b'), ('extend', ['b', 'c']), ('extend', ['c', 'a']),
                        ('extend', ['a', 'c']), ('extend', ['c', 'c']), ('extend', []), ('read',)]),
        (True, [0, 1], [('append', 2), ('append', 1), ('append', 1.0), ('append', 'x'), ('append', 3),
                        ('extend', [2, 3]), ('extend', [5, 1]), ('append', True), ('read',)]),
    ]
    for auto, labels, alpha in alphabets:
        for n in range(1, N + 1):
            for ops in itertools.product(alpha, repeat=n):
                # look after every step except directly after the first (exercises append-append without a read)
                look = [i != 0 for i in range(n)]
                yield auto, labels, list(ops), look


def index_random(ctx, count):
    rng = ctx.rng
    for _ in range(count):
        auto = rng.random() < 0.4
        n0 = rng.randint(0, 3)
        if auto:
            labels = list(range(n0))
            pool = [0, 1, 2, 3, 4, 5, 6, 'x', 'y', 2.5, 7.5, True, None]
        else:
            kind = rng.choice(['str', 'int', 'mixed'])
            pool = {'str': IDX_POOL + ['f', 'g'], 'int': [3, 1, 4, 5, 9, 2, 6], 'mixed': ['a', 1, 'b', 2.5, 3, None, 'c']}[kind]
            labels = rng.sample(pool, min(n0, len(pool)))
        ops = []
        cur = list(labels)
        is_auto = auto
        special_at = rng.randrange(8) if rng.random() < 0.15 else -1
        nops = rng.randint(1, 8)
        for i in range(nops):
            r = rng.random()
            if i == special_at:
                # exactly one finding-class op: partial extend, or (auto) a non-int label equal to a position
                if is_auto and cur and rng.random() < 0.5:
                    ops.append(('append', float(rng.randrange(len(cur)))))
                    continue
                fresh = [p for p in pool if not _in(p, cur) and not (is_auto and not isinstance(p, int))]
                if fresh and cur:
                    ops.append(('extend', [rng.choice(fresh), rng.choice(cur)]))
                    continue
            if r < 0.15:
                ops.append(('read',))
                continue
            fresh = [p for p in pool if not _in(p, cur)]
            if is_auto and rng.random() < 0.6:
                fresh = [len(cur)]
            if r < 0.55:
                if fresh and rng.random() < 0.8:
                    v = rng.choice(fresh)
                elif cur:
                    v = rng.choice(cur)
                    if is_auto and not isinstance(v, int):
                        continue
                else:
                    continue
                ops.append(('append', v))
                if not _in(v, cur):
                    if is_auto and not (isinstance(v, int) and v == len(cur)):
                        is_auto = False
                    cur.append(v)
            else:
                k = rng.randint(0, 3)
                if rng.random() < 0.75 or not cur:
                    vs = []
                    for v in rng.sample(fresh, min(k, len(fresh))):
                        if _in(v, vs):
                            continue
                        vs.append(v)
                    if is_auto:
                        vs = [v for v in vs if isinstance(v, int) or not _in(v, cur)]
                    ok = True
                else:
                    # rejected at the first label: nothing may be appended
                    vs = [rng.choice(cur)] + rng.sample(fresh, min(k, len(fresh)))
                    if is_auto and not isinstance(vs[0], int):
                        continue
                    ok = False
                ops.append(('extend', vs))
                if ok:
                    for v in vs:
                        if is_auto and not (isinstance(v, int) and v == len(cur)):
                            is_auto = False
                        cur.append(v)
        look = [rng.random() < 0.6 for _ in ops]
        if look:
            look[-1] = True
        yield auto, labels, ops, look


CORPUS_INDEX = [
    # (auto, labels, ops): minimal replays of the known findings
    (False, ['a', 'b'], [('extend', ['c', 'a', 'd']), ('read',), ('append', 'e')]),
    (True, [0, 1, 2], [('append', 1.0), ('append', 3), ('read',)]),
]


def index_cases(ctx):
    def emit(kind, auto, labels, ops, look):
        desc, m, s = index_history(auto, labels, ops, look)
        f = classify_index_ops(auto, labels, ops)
        ctx.count(f'index:{"auto" if auto else "map"}', f'index:len{len(ops)}')
        for op in ops:
            ctx.count('index:op:' + op[0])
        for st in desc['steps']:
            if st['raised']:
                ctx.count('index:raised:' + st['raised'])
        tags = {'container': 'IndexGO'}
        if f:
            tags['finding'] = f
        return Case(kind, desc, m=m, s=s, tags=tags,
                    nontrivial=any(st['raised'] is None and st['op'][0] != 'read' for st in desc['steps']))
    for auto, labels, ops in CORPUS_INDEX:
        yield emit('api:IndexGO-corpus', auto, labels, ops, [True] * len(ops))
    for auto, labels, ops, look in index_exhaustive(ctx):
        yield emit('api:IndexGO-exhaustive', auto, labels, ops, look)
    for auto, labels, ops, look in index_random(ctx, ctx.n(150, 3000)):
        if ops:
            yield emit('api:IndexGO-random', auto, labels, ops, look)


def cases(ctx):
    yield from index_cases(ctx)
