'''C17 -- Bus and multi-table stores: faithful, lazy, bounded, and stale-file safe.'''
import ast
import os

from .. import lit
from ..core import Case

ID = 'C17'
MANIFEST = {
    'text': 'placeholder',
    'note': 'placeholder',
}
PROPERTY_FILES = ['Properties/C17.v']
REFUTED_FILES = []
MODEL_FILES = ['SF/BusInst.v']
IMPORTS = 'Require Import SF.Prelude SF.PySlice SF.Value SF.Dtype SF.BusSpec SF.Bus SF.BusInst.'
IMPORTS_SPEC_ONLY = 'Require Import SF.Prelude SF.PySlice SF.Value SF.Dtype SF.BusSpec SF.BusSpecInst.'
RULE = 'placeholder'
ASSUMPTIONS = []
TRUSTED = []
EXHAUSTIVE = {'quick': False, 'thorough': False}
TRANSLATED = []

STORE_PY = 'static_frame/core/store.py'
STORE_ZIP_PY = 'static_frame/core/store_zip.py'
STORE_SQLITE_PY = 'static_frame/core/store_sqlite.py'


# ----------------------------------------------------------------------------------------------
# generate(): Store._mtime_coherent / _mtime_update and the coherence decorators, regenerated from
# the source text on every run by a small fail-closed translator (decision functions over
# `os.path.exists(self._fp)`, `os.path.getmtime(self._fp)`, `self._last_modified`, `np.nan`).
class GenError(Exception):
    pass


def _is_attr_chain(node, chain):
    '''node is the dotted name chain, e.g. ('os', 'path', 'exists').'''
    parts = []
    while isinstance(node, ast.Attribute):
        parts.append(node.attr)
        node = node.value
    if not isinstance(node, ast.Name):
        return False
    parts.append(node.id)
    return tuple(reversed(parts)) == tuple(chain)


def _is_self_fp_call(node, chain):
    return (isinstance(node, ast.Call) and _is_attr_chain(node.func, chain) and len(node.args) == 1 and not node.keywords
            and _is_attr_chain(node.args[0], ('self', '_fp')))


_CMP = {ast.NotEq: 'f_ne', ast.Eq: 'f_eq', ast.Lt: 'f_lt', ast.LtE: 'f_le', ast.Gt: 'f_gt', ast.GtE: 'f_ge'}


def _fnum(node):
    if _is_self_fp_call(node, ('os', 'path', 'getmtime')):
        return 'mtime'
    if _is_attr_chain(node, ('self', '_last_modified')):
        return 'last_modified'
    if _is_attr_chain(node, ('np', 'nan')):
        return 'None'
    raise GenError(f'unsupported float expression: {ast.dump(node)[:120]}')


def _bexp(node):
    if _is_self_fp_call(node, ('os', 'path', 'exists')):
        return 'file_exists'
    if isinstance(node, ast.UnaryOp) and isinstance(node.op, ast.Not):
        return f'(negb {_bexp(node.operand)})'
    if isinstance(node, ast.BoolOp):
        op = 'andb' if isinstance(node.op, ast.And) else 'orb'
        out = _bexp(node.values[0])
        for v in node.values[1:]:
            out = f'({op} {out} {_bexp(v)})'
        return out
    if isinstance(node, ast.Compare) and len(node.ops) == 1 and type(node.ops[0]) in _CMP:
        return f'({_CMP[type(node.ops[0])]} {_fnum(node.left)} {_fnum(node.comparators[0])})'
    if (isinstance(node, ast.Call) and _is_attr_chain(node.func, ('np', 'isnan')) and len(node.args) == 1
            and not node.keywords):
        return f'(f_isnan {_fnum(node.args[0])})'
    if isinstance(node, ast.Constant) and isinstance(node.value, bool):
        return 'true' if node.value else 'false'
    raise GenError(f'unsupported condition: {ast.dump(node)[:120]}')


def _is_docstring(st):
    return isinstance(st, ast.Expr) and isinstance(st.value, ast.Constant) and isinstance(st.value.value, str)


def _decision(stmts, rest):
    '''Statements of a function that either raises StoreFileMutation or falls through:
    Gallina bool, true = returned normally.'''
    if not stmts:
        return rest
    st, tail = stmts[0], stmts[1:]
    if _is_docstring(st) or isinstance(st, ast.Pass):
        return _decision(tail, rest)
    if isinstance(st, ast.If):
        k = _decision(tail, rest)
        return f'(if {_bexp(st.test)} then {_decision(st.body, k)} else {_decision(st.orelse, k)})'
    if isinstance(st, ast.Raise):
        exc = st.exc
        if isinstance(exc, ast.Call):
            exc = exc.func
        if isinstance(exc, ast.Name) and exc.id == 'StoreFileMutation':
            return 'false'
        raise GenError(f'raise of an unexpected class: {ast.dump(st)[:120]}')
    if isinstance(st, ast.Return) and st.value is None:
        return 'true'
    raise GenError(f'unsupported statement in a decision function: {ast.dump(st)[:120]}')


def _assigned(stmts):
    '''Statements that assign self._last_modified exactly once on every path: the Gallina value.'''
    stmts = [s for s in stmts if not _is_docstring(s) and not isinstance(s, ast.Pass)]
    if len(stmts) != 1:
        raise GenError('expected exactly one statement per path in _mtime_update')
    st = stmts[0]
    if isinstance(st, ast.If):
        return f'(if {_bexp(st.test)} then {_assigned(st.body)} else {_assigned(st.orelse)})'
    if (isinstance(st, ast.Assign) and len(st.targets) == 1 and _is_attr_chain(st.targets[0], ('self', '_last_modified'))):
        return _fnum(st.value)
    raise GenError(f'unsupported statement in _mtime_update: {ast.dump(st)[:120]}')


def _classes(path):
    with open(path) as f:
        tree = ast.parse(f.read())
    funcs, classes = {}, {}
    for node in tree.body:
        if isinstance(node, ast.FunctionDef):
            funcs[node.name] = node
        elif isinstance(node, ast.ClassDef):
            classes[node.name] = {s.name: s for s in node.body if isinstance(s, ast.FunctionDef)}
    return funcs, classes


def _decorators(fn):
    return [d.id for d in fn.decorator_list if isinstance(d, ast.Name)]


def _wrapper_of(dec):
    inner = [s for s in dec.body if isinstance(s, ast.FunctionDef)]
    if len(inner) != 1:
        raise GenError(f'{dec.name}: expected one inner wrapper')
    return [s for s in inner[0].body if not _is_docstring(s)]


def _is_self_call(st, name):
    return (isinstance(st, ast.Expr) and isinstance(st.value, ast.Call) and _is_attr_chain(st.value.func, ('self', name))
            and not st.value.args and not st.value.keywords)


def _is_call_f(node):
    return isinstance(node, ast.Call) and isinstance(node.func, ast.Name) and node.func.id == 'f'


def generate(repo):
    funcs, classes = _classes(os.path.join(repo, STORE_PY))
    store = classes.get('Store')
    if store is None or '_mtime_coherent' not in store or '_mtime_update' not in store or '__init__' not in store:
        raise GenError('Store._mtime_coherent/_mtime_update/__init__ not found')
    coherent = _decision(store['_mtime_coherent'].body, 'true')
    update = _assigned(store['_mtime_update'].body)
    # Store.__init__ must record the mtime: ... self._last_modified = np.nan; self._mtime_update()
    init_records = any(_is_self_call(s, '_mtime_update') for s in store['__init__'].body)

    # decorators: non-write = check, then call; write = call, then record
    nw = _wrapper_of(funcs['store_coherent_non_write']) if 'store_coherent_non_write' in funcs else None
    if nw is None:
        raise GenError('store_coherent_non_write not found')
    nonwrite_checks = (len(nw) == 2 and _is_self_call(nw[0], '_mtime_coherent')
                       and isinstance(nw[1], ast.Return) and _is_call_f(nw[1].value))
    if not nonwrite_checks:
        # a different shape is only acceptable if the check is plainly absent (then the model says: no check)
        if any(_is_self_call(s, '_mtime_coherent') for s in nw):
            raise GenError('store_coherent_non_write: unexpected shape')
    w = _wrapper_of(funcs['store_coherent_write']) if 'store_coherent_write' in funcs else None
    if w is None:
        raise GenError('store_coherent_write not found')
    write_records = (len(w) == 3 and isinstance(w[0], ast.Assign) and _is_call_f(w[0].value)
                     and _is_self_call(w[1], '_mtime_update') and isinstance(w[2], ast.Return))

    _, zc = _classes(os.path.join(repo, STORE_ZIP_PY))
    _, sc = _classes(os.path.join(repo, STORE_SQLITE_PY))
    entries = []
    for cname, table, names in (('Store', classes, ('read',)),
                                ('_StoreZip', zc, ('labels', 'read_many')),
                                ('StoreZipPickle', zc, ('read_many',)),
                                ('StoreSQLite', sc, ('labels', 'read_many'))):
        for n in names:
            fn = table.get(cname, {}).get(n)
            if fn is None:
                raise GenError(f'{cname}.{n} not found')
            entries.append((f'{cname}.{n}', 'store_coherent_non_write' in _decorators(fn)))
    wentries = []
    for cname, table in (('_StoreZip', zc), ('StoreSQLite', sc)):
        fn = table.get(cname, {}).get('write')
        if fn is None:
            raise GenError(f'{cname}.write not found')
        wentries.append((f'{cname}.write', 'store_coherent_write' in _decorators(fn)))

    b = lambda v: 'true' if v else 'false'
    text = f'''(* GENERATED on every run by tools/sfv/props/c17.py:generate from /repo/{STORE_PY},
   {STORE_ZIP_PY}, {STORE_SQLITE_PY}.  Do not edit. *)
Require Import SF.Prelude.

(* modification times: the harness only uses integral mtimes; None is nan *)
Definition f_eq (a b : option Z) : bool := match a, b with Some x, Some y => x =? y | _, _ => false end.
Definition f_ne (a b : option Z) : bool := negb (f_eq a b).
Definition f_lt (a b : option Z) : bool := match a, b with Some x, Some y => x <? y | _, _ => false end.
Definition f_le (a b : option Z) : bool := match a, b with Some x, Some y => x <=? y | _, _ => false end.
Definition f_gt (a b : option Z) : bool := f_lt b a.
Definition f_ge (a b : option Z) : bool := f_le b a.
Definition f_isnan (a : option Z) : bool := match a with None => true | Some _ => false end.

(* Store._mtime_coherent: true = returns, false = raises StoreFileMutation *)
Definition mtime_coherent (file_exists : bool) (mtime last_modified : option Z) : bool :=
  {coherent}.

(* Store._mtime_update: the new value of _last_modified *)
Definition mtime_update (file_exists : bool) (mtime : option Z) : option Z :=
  {update}.

(* Store.__init__ calls self._mtime_update() *)
Definition init_records : bool := {b(init_records)}.
(* store_coherent_non_write: self._mtime_coherent() and then the wrapped function *)
Definition nonwrite_decorator_checks : bool := {b(nonwrite_checks)}.
(* store_coherent_write: the wrapped function and then self._mtime_update() *)
Definition write_decorator_records : bool := {b(write_records)}.
(* which read entry points carry @store_coherent_non_write *)
Definition read_entry_points : list (string * bool) :=
  [{'; '.join(f'("{n}"%string, {b(v)})' for n, v in entries)}].
Definition write_entry_points : list (string * bool) :=
  [{'; '.join(f'("{n}"%string, {b(v)})' for n, v in wentries)}].

Definition reads_checked : bool := nonwrite_decorator_checks && forallb snd read_entry_points.
Definition writes_recorded : bool := write_decorator_records && forallb snd write_entry_points.
'''
    return {'Gen/Gen_c17.v': text}


def cases(ctx):
    return
    yield
