'''C17 -- Bus and multi-table stores: faithful, lazy, bounded, and stale-file safe.'''
import ast
import os

from .. import lit
from ..core import Case

ID = 'C17'
MANIFEST = {
    'text': ('Coq: S = eager association list + abstract LRU cache (SF/BusSpec.v); M = Bus.__init__/_store_reader/_update_series_cache_iloc/'
             '_extract_*/items/values/get/iter_element/drop/reindex/sort_* of bus.py modelled statement by statement (SF/Bus.v); the store '
             'coherence decision Store._mtime_coherent/_mtime_update, the presence of the coherence decorators and the shape of the six '
             'history-sensitive statements of bus.py are REGENERATED from the source on every run (Gen/Gen_c17.v), M branches on them. '
             'Theorems (all unbounded): C17_bus_refines_spec -- for every store, every max_persist in {None, >=1} and EVERY history '
             '(selections by label/list/slice/Boolean/position, items, values, keys, status, get, iter_element(_items), drop, reindex, '
             'sort_index, sort_values, derived Bus continued or not, file touched/rewritten/removed/put back at any point) M returns exactly '
             'the Frames, labels, loaded flags and exceptions of S -- no domain restriction; C17_init_refines_spec -- the same for a Bus built by the public constructor (or _derive) from ANY Series already holding Frames: refused iff more are held than max_persist, else every history refines S started with the held labels; C17_repairs_in_place -- the regenerated '
             'constants say bus.py has the repaired statements (commits 71280f9 dee625c 949c364 5b16856 615b06f); the refinement proof '
             'rests on it, so reverting a repair breaks both; C17_spec_bounded -- never more than max_persist loaded, all histories; '
             'C17_spec_is_lru / C17_spec_no_limit_keeps_all -- the cache holds exactly the min(k, distinct) most recently used labels; '
             'C17_stale_read_raises -- a stale file makes the next read raise StoreFileMutation, no data, nothing loaded; '
             'C17_mtime_decision -- the regenerated decision passes iff the file exists with the recorded mtime and every read entry point is '
             'decorated; C17_reader_batches / C17_reads_are_lazy -- reads are the deferred labels of the key, once, in order, in batches <= '
             'max_persist. Correspondence: API-level histories on real store files (zip pickle/csv/tsv, sqlite) in a per-run temp dir, '
             'exhaustive over a 10-operation alphabet, random long histories with derived Buses, file mutation at every point, malformed keys, '
             'write/reopen round trips, the inputs of the five repaired defects as regression strata; kernel level: _loaded/_last_accessed/'
             'store read calls after every step, Bus._store_reader with a stub.'),
    'note': ('partial. Known findings: integer column labels come back as strings from an SQLite store (format limitation); Bus.dtypes raises '
             'once loaded Frames have column indexes of different depth. '
             'Observed, not proved: the byte codecs (csv/tsv/pickle/sqlite are oracles; their fidelity is sampled by the round-trip stratum), '
             'Series/Index key resolution (modelled in resolve, tied by the correspondence), mtime granularity (the harness forces distinct '
             'integral mtimes with os.utime), the window between the coherence check and the lazy read. Optional formats (xlsx, hdf5, '
             'parquet) are absent here and not exercised (from_/to_xlsx, hdf5, zip_parquet and the include_*_name branches of '
             'Store.get_field_names_and_dtypes only they use are never reached). The descriptors (shapes, nbytes, mloc, status, dtypes, '
             'index, len/shape/size/ndim/dtype, reversed, in, repr), Bus.equals, rename, roll(include_index=True), the constructors '
             'from_items/from_dict, StoreConfigMap.from_frames / StoreConfig.from_frame, StoreConfigMap validation and the worker-pool read/write '
             'paths are exercised and checked on the Python side (rename/roll also against M and S as a reindex); they are not part of the Coq '
             'model beyond that. relabel*, rehierarch, shift, roll(include_index=False) (they detach labels from the store) and hierarchical '
             'Bus labels are outside the property and not exercised. StoreConfigHE hashing/equality is not exercised.'),
    'technique': 'forward simulation M ~ S over operation histories (Coq), differential histories on real store files',
}
PROPERTY_FILES = ['Properties/C17.v']
REFUTED_FILES = []
GENERATED_FILES = ['Gen/Gen_c17.v']
MODEL_FILES = ['SF/BusSpecInst.v', 'SF/BusInst.v']
IMPORTS = 'Require Import SF.Prelude SF.PySlice SF.Value SF.Dtype SF.BusSpec SF.Bus SF.BusInst.'
IMPORTS_SPEC_ONLY = 'Require Import SF.Prelude SF.PySlice SF.Value SF.Dtype SF.BusSpec SF.BusSpecInst.'
RULE = ('a case is one HISTORY: a store of 2..6 small Frames (9 kinds: string/int/auto/hierarchical index, int or hierarchical columns, mixed '
        'dtypes, chosen block layout) written with Bus.to_<format>, opened with Bus.from_<format>(max_persist), then a list of public '
        'operations; after every operation the result (Frames identified by the canonical literal of what was written, labels, exception '
        'class) and bus.status["loaded"] are compared with M and with S evaluated in Coq on the same history. Strata: exhaustive (all '
        'histories of length 3 x max_persist None,1,2 quick / length 4 x None,1,2,3 thorough, over a fixed 10-operation alphabet on 3 labels), '
        'random (online generation from the current labels incl. derived Buses, get/iter_element/sort_values and per-label configurations '
        'with any max_persist), stale (file touched / replaced by a file with OTHER Frames under the same labels / deleted at every point, the new mtime both newer and OLDER than the recorded one), wide-slice (5..7 labels, max_persist 2..3: one or two single loads, then iloc[a:b] / loc[x:y] / head / tail needing more loads than max_persist, then every label read back, the still-loaded ones first; all 5104 shapes thorough, 240 sampled quick, two thirds of them shapes where a loaded Frame is evicted and re-instated mid-call), pickle-classes (a zip-pickle store mixing Frame / FrameGO / FrameHE members, multi-label selections with max_persist None/2/3/4: class and equals(compare_class/dtype/name) of every served Frame against the eager single-label load, a served FrameGO is grown and later answers must not change), malformed keys, kernel (private _loaded/_last_accessed '
        'and the read calls reaching the store), Bus._store_reader against a stub, write/reopen round trip with full Frame literals (also crossed: 4 formats x label kinds str/int/date/tuple/None through label_encoder/decoder x one StoreConfig vs a per-label StoreConfigMap with differing index_depth/columns_depth/include_index), '
        'init (the public constructor Bus(series, store=, max_persist=) on a Series already holding Frames: refused iff more are held '
        'than max_persist, then a short history), constructors (from_frames/from_items/from_dict x library-derived configurations x worker '
        'pools, with Bus.equals and StoreConfigMap validation), the descriptors and rename/roll inside the random histories; one '
        'regression stratum per repaired defect (the former witness inputs, specification = the correct behaviour). Non-trivial: max_persist '
        'active or the stale file actually refused a read; distinct = distinct (store, max_persist, history).')
ASSUMPTIONS = [
    'a store file is (label -> Frame decoded with its own StoreConfig, Frame decoded with the default StoreConfig); csv/tsv/pickle/sqlite codecs are oracles',
    'file mtimes are integral; the harness puts the recorded mtime back only together with the original bytes (os.utime forces distinct mtimes otherwise)',
    'labels f0..f9 <-> integers by rank (string order = integer order); Frames <-> rank of their canonical literal',
    'Index._loc_to_iloc / NumPy indexing of a 1-D index = BusSpec.resolve (tied by the malformed and random strata)',
]
TRUSTED = ['tools/sfv/props/c17.py:generate -- fail-closed mini translator of Store._mtime_coherent/_mtime_update, decorator presence and the shape of six bus.py statements (Gen/Gen_c17.v)']
EXHAUSTIVE = {'quick': True, 'thorough': True}
TRANSLATED = []

STORE_PY = 'static_frame/core/store.py'
STORE_ZIP_PY = 'static_frame/core/store_zip.py'
STORE_SQLITE_PY = 'static_frame/core/store_sqlite.py'


# ----------------------------------------------------------------------------------------------
# generate(): Store._mtime_coherent / _mtime_update and the coherence decorators, regenerated from
# the source text on every run by a small fail-closed translator (decision functions over
# `os.path.exists(self._fp)`, `os.path.getmtime(self._fp)`, `self._last_modified`, `np.nan`).
class GenError(Exception):
    pass


def _is_attr_chain(node, chain):
    '''node is the dotted name chain, e.g. ('os', 'path', 'exists').'''
    parts = []
    while isinstance(node, ast.Attribute):
        parts.append(node.attr)
        node = node.value
    if not isinstance(node, ast.Name):
        return False
    parts.append(node.id)
    return tuple(reversed(parts)) == tuple(chain)


def _is_self_fp_call(node, chain):
    return (isinstance(node, ast.Call) and _is_attr_chain(node.func, chain) and len(node.args) == 1 and not node.keywords
            and _is_attr_chain(node.args[0], ('self', '_fp')))


_CMP = {ast.NotEq: 'f_ne', ast.Eq: 'f_eq', ast.Lt: 'f_lt', ast.LtE: 'f_le', ast.Gt: 'f_gt', ast.GtE: 'f_ge'}


def _fnum(node):
    if _is_self_fp_call(node, ('os', 'path', 'getmtime')):
        return 'mtime'
    if _is_attr_chain(node, ('self', '_last_modified')):
        return 'last_modified'
    if _is_attr_chain(node, ('np', 'nan')):
        return 'None'
    raise GenError(f'unsupported float expression: {ast.dump(node)[:120]}')


def _bexp(node):
    if _is_self_fp_call(node, ('os', 'path', 'exists')):
        return 'file_exists'
    if isinstance(node, ast.UnaryOp) and isinstance(node.op, ast.Not):
        return f'(negb {_bexp(node.operand)})'
    if isinstance(node, ast.BoolOp):
        op = 'andb' if isinstance(node.op, ast.And) else 'orb'
        out = _bexp(node.values[0])
        for v in node.values[1:]:
            out = f'({op} {out} {_bexp(v)})'
        return out
    if isinstance(node, ast.Compare) and len(node.ops) == 1 and type(node.ops[0]) in _CMP:
        return f'({_CMP[type(node.ops[0])]} {_fnum(node.left)} {_fnum(node.comparators[0])})'
    if (isinstance(node, ast.Call) and _is_attr_chain(node.func, ('np', 'isnan')) and len(node.args) == 1
            and not node.keywords):
        return f'(f_isnan {_fnum(node.args[0])})'
    if isinstance(node, ast.Constant) and isinstance(node.value, bool):
        return 'true' if node.value else 'false'
    raise GenError(f'unsupported condition: {ast.dump(node)[:120]}')


def _is_docstring(st):
    return isinstance(st, ast.Expr) and isinstance(st.value, ast.Constant) and isinstance(st.value.value, str)


def _decision(stmts, rest):
    '''Statements of a function that either raises StoreFileMutation or falls through:
    Gallina bool, true = returned normally.'''
    if not stmts:
        return rest
    st, tail = stmts[0], stmts[1:]
    if _is_docstring(st) or isinstance(st, ast.Pass):
        return _decision(tail, rest)
    if isinstance(st, ast.If):
        k = _decision(tail, rest)
        return f'(if {_bexp(st.test)} then {_decision(st.body, k)} else {_decision(st.orelse, k)})'
    if isinstance(st, ast.Raise):
        exc = st.exc
        if isinstance(exc, ast.Call):
            exc = exc.func
        if isinstance(exc, ast.Name) and exc.id == 'StoreFileMutation':
            return 'false'
        raise GenError(f'raise of an unexpected class: {ast.dump(st)[:120]}')
    if isinstance(st, ast.Return) and st.value is None:
        return 'true'
    raise GenError(f'unsupported statement in a decision function: {ast.dump(st)[:120]}')


def _assigned(stmts):
    '''Statements that assign self._last_modified exactly once on every path: the Gallina value.'''
    stmts = [s for s in stmts if not _is_docstring(s) and not isinstance(s, ast.Pass)]
    if len(stmts) != 1:
        raise GenError('expected exactly one statement per path in _mtime_update')
    st = stmts[0]
    if isinstance(st, ast.If):
        return f'(if {_bexp(st.test)} then {_assigned(st.body)} else {_assigned(st.orelse)})'
    if (isinstance(st, ast.Assign) and len(st.targets) == 1 and _is_attr_chain(st.targets[0], ('self', '_last_modified'))):
        return _fnum(st.value)
    raise GenError(f'unsupported statement in _mtime_update: {ast.dump(st)[:120]}')


def _classes(path):
    with open(path) as f:
        tree = ast.parse(f.read())
    funcs, classes = {}, {}
    for node in tree.body:
        if isinstance(node, ast.FunctionDef):
            funcs[node.name] = node
        elif isinstance(node, ast.ClassDef):
            classes[node.name] = {s.name: s for s in node.body if isinstance(s, ast.FunctionDef)}
    return funcs, classes


def _decorators(fn):
    return [d.id for d in fn.decorator_list if isinstance(d, ast.Name)]


def _wrapper_of(dec):
    inner = [s for s in dec.body if isinstance(s, ast.FunctionDef)]
    if len(inner) != 1:
        raise GenError(f'{dec.name}: expected one inner wrapper')
    return [s for s in inner[0].body if not _is_docstring(s)]


def _is_self_call(st, name):
    return (isinstance(st, ast.Expr) and isinstance(st.value, ast.Call) and _is_attr_chain(st.value.func, ('self', name))
            and not st.value.args and not st.value.keywords)


def _is_call_f(node):
    return isinstance(node, ast.Call) and isinstance(node.func, ast.Name) and node.func.id == 'f'


BUS_PY = 'static_frame/core/bus.py'


def _walk_no_nested(node):
    """ast.walk without descending into nested function definitions."""
    todo = list(ast.iter_child_nodes(node))
    while todo:
        n = todo.pop()
        yield n
        if not isinstance(n, (ast.FunctionDef, ast.Lambda)):
            todo.extend(ast.iter_child_nodes(n))


def bus_flags(repo):
    """Which of the two known shapes each history-sensitive statement of bus.py has now (fail closed on a third shape).
    The implementation model M branches on these constants, so it follows the code through the repairs proposed for the
    C17 findings without being rewritten."""
    _, classes = _classes(os.path.join(repo, BUS_PY))
    bus = classes.get('Bus')
    if bus is None:
        raise GenError('class Bus not found')
    for name in ('_store_reader', '_update_series_cache_iloc', 'get', '_axis_element', '_axis_element_items', 'sort_values'):
        if name not in bus:
            raise GenError(f'Bus.{name} not found')
    flags = {}

    # (a) _store_reader, max_persist == 1 branch: store.read(label, config=config[label]) or config[labels]
    keys = []
    for n in _walk_no_nested(bus['_store_reader']):
        if isinstance(n, ast.Call) and _is_attr_chain(n.func, ('store', 'read')):
            for kw in n.keywords:
                if kw.arg == 'config':
                    v = kw.value
                    if (isinstance(v, ast.Subscript) and isinstance(v.value, ast.Name) and v.value.id == 'config'
                            and isinstance(v.slice, ast.Name)):
                        keys.append(v.slice.id)
                    else:
                        raise GenError('_store_reader: unexpected config argument of store.read')
    if keys == ['label']:
        flags['reader_cfg_by_label'] = True
    elif keys == ['labels']:
        flags['reader_cfg_by_label'] = False
    else:
        raise GenError(f'_store_reader: unexpected store.read calls {keys}')

    # (b) _update_series_cache_iloc: inside `for label, frame in targets_items:` is the LRU position updated before or
    #     after `frame = next(store_reader)`?
    loops = [n for n in _walk_no_nested(bus['_update_series_cache_iloc'])
             if isinstance(n, ast.For) and isinstance(n.iter, ast.Name) and n.iter.id == 'targets_items']
    if len(loops) != 1:
        raise GenError('_update_series_cache_iloc: loop over targets_items not found')
    lru_at = read_at = None
    for i, st in enumerate(loops[0].body):
        if not isinstance(st, ast.If):
            continue
        for sub in st.body:
            if (isinstance(sub, ast.Assign) and len(sub.targets) == 1 and isinstance(sub.targets[0], ast.Subscript)
                    and _is_attr_chain(sub.targets[0].value, ('self', '_last_accessed')) and lru_at is None
                    and isinstance(st.test, ast.Name) and st.test.id == 'max_persist_active'):
                lru_at = i
            if (isinstance(sub, ast.Assign) and isinstance(sub.value, ast.Call) and isinstance(sub.value.func, ast.Name)
                    and sub.value.func.id == 'next' and read_at is None):
                read_at = i
    if lru_at is None or read_at is None or lru_at == read_at:
        raise GenError('_update_series_cache_iloc: LRU update / next(store_reader) statements not found')
    flags['lru_update_after_read'] = lru_at > read_at

    # (c) get: return self._series.__getitem__(key) (no load) or self._extract_loc(key) / self.__getitem__(key) / self[key]
    rets = [n for n in _walk_no_nested(bus['get']) if isinstance(n, ast.Return)]
    if not rets:
        raise GenError('Bus.get: no return')
    last = rets[0] if len(rets) == 1 else max(rets, key=lambda n: n.lineno)
    v = last.value
    if isinstance(v, ast.Call) and _is_attr_chain(v.func, ('self', '_series', '__getitem__')):
        flags['get_loads'] = False
    elif (isinstance(v, ast.Call) and (_is_attr_chain(v.func, ('self', '_extract_loc')) or _is_attr_chain(v.func, ('self', '__getitem__')))) \
            or (isinstance(v, ast.Subscript) and isinstance(v.value, ast.Name) and v.value.id == 'self'):
        flags['get_loads'] = True
    else:
        raise GenError('Bus.get: unexpected return expression')

    # (d) _axis_element / _axis_element_items: raw slots or loading accessors
    def yield_from(fn):
        ys = [n for n in _walk_no_nested(fn) if isinstance(n, ast.YieldFrom)]
        if len(ys) != 1:
            raise GenError(f'Bus.{fn.name}: expected one `yield from`')
        return ys[0].value
    v = yield_from(bus['_axis_element'])
    if _is_attr_chain(v, ('self', '_series', 'values')):
        flags['iter_element_loads'] = False
    elif _is_attr_chain(v, ('self', 'values')):
        flags['iter_element_loads'] = True
    else:
        raise GenError('Bus._axis_element: unexpected source')
    v = yield_from(bus['_axis_element_items'])
    if isinstance(v, ast.Call) and isinstance(v.func, ast.Name) and v.func.id == 'zip':
        flags['iter_element_items_loads'] = False
    elif isinstance(v, ast.Call) and _is_attr_chain(v.func, ('self', 'items')) and not v.args:
        flags['iter_element_items_loads'] = True
    else:
        raise GenError('Bus._axis_element_items: unexpected source')

    # (e) sort_values: the Series handed to _derive is the sorted Series of loaded Frames, or the Bus's own Series reindexed
    assigns = [n for n in _walk_no_nested(bus['sort_values'])
               if isinstance(n, ast.Assign) and len(n.targets) == 1 and isinstance(n.targets[0], ast.Name) and n.targets[0].id == 'series']
    derives = [n for n in _walk_no_nested(bus['sort_values'])
               if isinstance(n, ast.Return) and isinstance(n.value, ast.Call) and _is_attr_chain(n.value.func, ('self', '_derive'))
               and len(n.value.args) == 1 and isinstance(n.value.args[0], ast.Name) and n.value.args[0].id == 'series']
    if len(assigns) != 1 or len(derives) != 1 or not isinstance(assigns[0].value, ast.Call):
        raise GenError('Bus.sort_values: unexpected shape')
    f = assigns[0].value.func
    if _is_attr_chain(f, ('cfs', 'sort_values')):
        flags['sort_values_from_own_series'] = False
    elif _is_attr_chain(f, ('self', '_series', 'reindex')):
        flags['sort_values_from_own_series'] = True
    else:
        raise GenError('Bus.sort_values: unexpected source of the derived Series')
    return flags


def generate(repo):
    flags = bus_flags(repo)
    funcs, classes = _classes(os.path.join(repo, STORE_PY))
    store = classes.get('Store')
    if store is None or '_mtime_coherent' not in store or '_mtime_update' not in store or '__init__' not in store:
        raise GenError('Store._mtime_coherent/_mtime_update/__init__ not found')
    coherent = _decision(store['_mtime_coherent'].body, 'true')
    update = _assigned(store['_mtime_update'].body)
    # Store.__init__ must record the mtime: ... self._last_modified = np.nan; self._mtime_update()
    init_records = any(_is_self_call(s, '_mtime_update') for s in store['__init__'].body)

    # decorators: non-write = check, then call; write = call, then record
    nw = _wrapper_of(funcs['store_coherent_non_write']) if 'store_coherent_non_write' in funcs else None
    if nw is None:
        raise GenError('store_coherent_non_write not found')
    nonwrite_checks = (len(nw) == 2 and _is_self_call(nw[0], '_mtime_coherent')
                       and isinstance(nw[1], ast.Return) and _is_call_f(nw[1].value))
    if not nonwrite_checks:
        # a different shape is only acceptable if the check is plainly absent (then the model says: no check)
        if any(_is_self_call(s, '_mtime_coherent') for s in nw):
            raise GenError('store_coherent_non_write: unexpected shape')
    w = _wrapper_of(funcs['store_coherent_write']) if 'store_coherent_write' in funcs else None
    if w is None:
        raise GenError('store_coherent_write not found')
    write_records = (len(w) == 3 and isinstance(w[0], ast.Assign) and _is_call_f(w[0].value)
                     and _is_self_call(w[1], '_mtime_update') and isinstance(w[2], ast.Return))

    _, zc = _classes(os.path.join(repo, STORE_ZIP_PY))
    _, sc = _classes(os.path.join(repo, STORE_SQLITE_PY))
    entries = []
    # the entry points every Bus read goes through (Store.read and StoreZipPickle.read_many delegate to these)
    for cname, table, names in (('_StoreZip', zc, ('labels', 'read_many')),
                                ('StoreSQLite', sc, ('labels', 'read_many'))):
        for n in names:
            fn = table.get(cname, {}).get(n)
            if fn is None:
                raise GenError(f'{cname}.{n} not found')
            entries.append((f'{cname}.{n}', 'store_coherent_non_write' in _decorators(fn)))
    wentries = []
    for cname, table in (('_StoreZip', zc), ('StoreSQLite', sc)):
        fn = table.get(cname, {}).get('write')
        if fn is None:
            raise GenError(f'{cname}.write not found')
        wentries.append((f'{cname}.write', 'store_coherent_write' in _decorators(fn)))

    b = lambda v: 'true' if v else 'false'
    text = f'''(* GENERATED on every run by tools/sfv/props/c17.py:generate from /repo/{STORE_PY},
   {STORE_ZIP_PY}, {STORE_SQLITE_PY}.  Do not edit. *)
Require Import SF.Prelude.

(* modification times: the harness only uses integral mtimes; None is nan *)
Definition f_eq (a b : option Z) : bool := match a, b with Some x, Some y => x =? y | _, _ => false end.
Definition f_ne (a b : option Z) : bool := negb (f_eq a b).
Definition f_lt (a b : option Z) : bool := match a, b with Some x, Some y => x <? y | _, _ => false end.
Definition f_le (a b : option Z) : bool := match a, b with Some x, Some y => x <=? y | _, _ => false end.
Definition f_gt (a b : option Z) : bool := f_lt b a.
Definition f_ge (a b : option Z) : bool := f_le b a.
Definition f_isnan (a : option Z) : bool := match a with None => true | Some _ => false end.

(* Store._mtime_coherent: true = returns, false = raises StoreFileMutation *)
Definition mtime_coherent (file_exists : bool) (mtime last_modified : option Z) : bool :=
  {coherent}.

(* Store._mtime_update: the new value of _last_modified *)
Definition mtime_update (file_exists : bool) (mtime : option Z) : option Z :=
  {update}.

(* Store.__init__ calls self._mtime_update() *)
Definition init_records : bool := {b(init_records)}.
(* store_coherent_non_write: self._mtime_coherent() and then the wrapped function *)
Definition nonwrite_decorator_checks : bool := {b(nonwrite_checks)}.
(* store_coherent_write: the wrapped function and then self._mtime_update() *)
Definition write_decorator_records : bool := {b(write_records)}.
(* which read entry points carry @store_coherent_non_write *)
Definition read_entry_points : list (string * bool) :=
  [{'; '.join(f'("{n}"%string, {b(v)})' for n, v in entries)}].
Definition write_entry_points : list (string * bool) :=
  [{'; '.join(f'("{n}"%string, {b(v)})' for n, v in wentries)}].

Definition reads_checked : bool := nonwrite_decorator_checks && forallb snd read_entry_points.
Definition writes_recorded : bool := write_decorator_records && forallb snd write_entry_points.

(* from /repo/{BUS_PY}: which shape each history-sensitive statement has now *)
(* Bus._store_reader, max_persist == 1 branch: config[label] (true) or config[labels], a generator key (false) *)
Definition reader_cfg_by_label : bool := {b(flags['reader_cfg_by_label'])}.
(* Bus._update_series_cache_iloc: the LRU position is updated after next(store_reader) (true) or before it (false) *)
Definition lru_update_after_read : bool := {b(flags['lru_update_after_read'])}.
(* Bus.get goes through _extract_loc (true) or reads self._series directly (false) *)
Definition get_loads : bool := {b(flags['get_loads'])}.
(* Bus._axis_element yields from self.values (true) or from self._series.values (false) *)
Definition iter_element_loads : bool := {b(flags['iter_element_loads'])}.
(* Bus._axis_element_items yields from self.items() (true) or from the raw Series (false) *)
Definition iter_element_items_loads : bool := {b(flags['iter_element_items_loads'])}.
(* Bus.sort_values derives from self._series reindexed in sorted order (true) or from the sorted Series of Frames (false) *)
Definition sort_values_from_own_series : bool := {b(flags['sort_values_from_own_series'])}.
'''
    return {'Gen/Gen_c17.v': text}



# ==============================================================================================
# the implementation side: frames, stores on disk, operations, observations
import itertools
import shutil
import tempfile

import numpy as np

T0 = 1_000_000_000          # mtime given to every store file after writing (integral, far from "now")
FORMATS = ('zip_pickle', 'zip_csv', 'zip_tsv', 'sqlite')
EXT = {'zip_pickle': '.zip', 'zip_csv': '.zip', 'zip_tsv': '.zip', 'sqlite': '.sqlite'}
OPTIONAL = {'xlsx': ('xlsxwriter', '.xlsx'), 'hdf5': ('tables', '.h5'), 'zip_parquet': ('pyarrow', '.zip')}
UNKNOWN_LABEL = 'zz'        # a label no store has (rank 99)

# frame kinds -> (index_depth, columns_depth, include_index): the StoreConfig needed to read them back
KIND_CFG = {   # kind -> (index_depth, columns_depth, include_index, include_columns)
    'str_idx': (1, 1, True, True), 'mixed': (1, 1, True, True), 'int_idx': (1, 1, True, True), 'one': (1, 1, True, True),
    'wide': (1, 1, True, True), 'int_cols': (1, 1, True, True),
    'auto': (0, 1, False, True), 'ih_idx': (2, 1, True, True), 'ih_cols': (1, 2, True, True),
    'auto_cols': (1, 0, True, False), 'auto_both': (0, 0, False, False),
}
KINDS_BY_CLASS = {}
for _k, _c in KIND_CFG.items():
    KINDS_BY_CLASS.setdefault(_c, []).append(_k)


def kinds_pool(fmt, pool=None):
    '''Frame kinds a format can hold faithfully: SQL column names are text, so integer column labels are kept out of
    sqlite stores everywhere except the dedicated round-trip case (known finding C17-sqlite-int-column-labels).'''
    pool = list(KIND_CFG) if pool is None else list(pool)
    return [k for k in pool if not (fmt == 'sqlite' and k == 'int_cols')]


def _rank(label):
    label = str(label)
    if label == UNKNOWN_LABEL:
        return 99
    return int(label[1:])


def _label(rank):
    return f'f{rank}'


def make_frame(kind, label, v, rng):
    """A small Frame of the given kind whose [0, 0] cell is the integer v (the sort_values key)."""
    import static_frame as sf
    from .. import zoo
    r = lambda: rng.randrange(-50, 50)
    if kind == 'str_idx':
        return sf.Frame.from_records([(v, r()), (r(), r())], columns=('x', 'y'), index=('p', 'q'), name=label)
    if kind == 'mixed':
        return sf.Frame.from_fields(([v, r(), r()], [rng.choice(['a', 'bb', 'c d']) for _ in range(3)],
                                     [rng.random() < .5 for _ in range(3)], [rng.randrange(-8, 8) / 4 for _ in range(3)]),
                                    columns=('i', 's', 'b', 'f'), index=('p', 'q', 'r'), name=label)
    if kind == 'int_idx':
        return sf.Frame.from_records([(v, rng.randrange(-8, 8) / 2)], columns=('x', 'y'), index=(10,), name=label)
    if kind == 'one':
        return sf.Frame.from_records([(v,)], columns=('x',), index=('p',), name=label)
    if kind == 'auto_cols':
        return sf.Frame.from_records([(v, r()), (r(), r())], index=('p', 'q'), name=label)
    if kind == 'auto_both':
        return sf.Frame.from_records([(v, 'a', r()), (r(), 'b', r())], name=label)
    if kind == 'int_cols':
        return sf.Frame.from_records([(v, r()), (r(), r())], columns=(7, 8), index=('p', 'q'), name=label)
    if kind == 'wide':
        cols = [np.array([v, r()])] + [np.array([r(), r()]) for _ in range(3)]
        layouts = list(zoo.layouts_for([c.dtype for c in cols]))
        return zoo.frame_from_columns(cols, rng.choice(layouts), index=('p', 'q'), columns=('a', 'b', 'c', 'd'), name=label)
    if kind == 'auto':
        return sf.Frame.from_records([(v, 'a'), (r(), 'b')], columns=('x', 'y'), name=label)
    if kind == 'ih_idx':
        return sf.Frame.from_records([(v, r()), (r(), r()), (r(), r())], columns=('x', 'y'),
                                     index=sf.IndexHierarchy.from_labels([('a', 1), ('a', 2), ('b', 1)]), name=label)
    if kind == 'ih_cols':
        return sf.Frame.from_records([(v, r(), r()), (r(), r(), r())],
                                     columns=sf.IndexHierarchy.from_labels([('a', 'u'), ('a', 'v'), ('b', 'u')]),
                                     index=('p', 'q'), name=label)
    raise ValueError(kind)


def store_config(kind):
    import static_frame as sf
    idx, col, inc, incc = KIND_CFG[kind]
    return sf.StoreConfig(index_depth=idx, columns_depth=col, include_index=inc, include_columns=incc)


class Env:
    """One store file on disk + what was written into it."""

    def __init__(self, tmp, name, fmt, order, kinds, mapped, rng, classes=None):
        import static_frame as sf
        self.fmt = fmt
        self.order = list(order)                     # labels in store order
        self.kinds = dict(zip(order, kinds))
        self.mapped = bool(mapped) and fmt != 'zip_pickle'
        keys = rng.sample(range(-40, 40), len(order))
        self.frames = {l: make_frame(k, l, v, rng) for l, k, v in zip(order, kinds, keys)}
        if classes is not None:
            # members of other Frame classes (a pickle store keeps them): 'Frame' | 'FrameGO' | 'FrameHE'
            conv = {'Frame': lambda f: f, 'FrameGO': lambda f: f.to_frame_go(), 'FrameHE': lambda f: f.to_frame_he()}
            self.frames = {l: conv[c](self.frames[l]) for l, c in zip(order, classes)}
            self.classes = dict(zip(order, classes))
        self.reference = None                        # label -> Frame an eager single-label load returns (set by the class stratum)
        self.class_fail = []
        self.fid = {l: 10 + _rank(l) for l in order}
        self.sortkey = {self.fid[l]: v for l, v in zip(order, keys)}
        self.lit2id = {lit.oframe(f): self.fid[l] for l, f in self.frames.items()}
        if len(self.lit2id) != len(order):
            raise RuntimeError('zoo frames are not pairwise distinct')
        if fmt == 'zip_pickle':
            self.cfg = None
        elif self.mapped:
            self.cfg = {l: store_config(k) for l, k in self.kinds.items()}
        else:
            self.cfg = store_config(kinds[0])
        self.fp = os.path.join(tmp, name + EXT[fmt])
        bus = sf.Bus.from_frames([self.frames[l] for l in order])
        if self.cfg is None:
            getattr(bus, 'to_' + fmt)(self.fp)
        else:
            getattr(bus, 'to_' + fmt)(self.fp, config=self.cfg)
        os.utime(self.fp, (T0, T0))
        self.backup = self.fp + '.orig'
        shutil.copyfile(self.fp, self.backup)
        os.utime(self.backup, (T0, T0))

    def clone(self, tmp, name):
        """A private copy of the file for a history that touches it."""
        other = Env.__new__(Env)
        other.__dict__.update(self.__dict__)
        other.fp = os.path.join(tmp, name + EXT[self.fmt])
        shutil.copyfile(self.backup, other.fp)
        os.utime(other.fp, (T0, T0))
        return other

    def open(self, mp):
        import static_frame as sf
        ctor = getattr(sf.Bus, 'from_' + self.fmt)
        if self.cfg is None:
            return ctor(self.fp, max_persist=mp)
        return ctor(self.fp, config=self.cfg, max_persist=mp)

    def file_op(self, what, t):
        if what == 'delete':
            if os.path.exists(self.fp):
                os.remove(self.fp)
        elif what == 'touch':
            if not os.path.exists(self.fp):
                shutil.copyfile(self.backup, self.fp)
            os.utime(self.fp, (t, t))
        elif what == 'rewrite':
            # a REPLACEMENT file: same labels, but under every label the Frame of the next label (so a Bus that serves
            # from it hands out Frames that were never written under that label), then a distinct mtime -- newer or OLDER
            import static_frame as sf
            n = len(self.order)
            bus = sf.Bus.from_frames([self.frames[self.order[(i + 1) % n]].rename(l) for i, l in enumerate(self.order)])
            if os.path.exists(self.fp):
                os.remove(self.fp)
            if self.cfg is None:
                getattr(bus, 'to_' + self.fmt)(self.fp)
            else:
                getattr(bus, 'to_' + self.fmt)(self.fp, config=self.cfg)
            os.utime(self.fp, (t, t))
        elif what == 'restore':
            shutil.copyfile(self.backup, self.fp)
            os.utime(self.fp, (T0, T0))
        else:
            raise ValueError(what)

    # ---- literals
    def content_lit(self, default_differs=None):
        items = []
        for l in self.order:
            f = self.fid[l]
            fd = f + 100 if (self.mapped if default_differs is None else default_differs) else f
            items.append(f'({_rank(l)}, ({f}, {fd}))')
        return lit.lst(items)

    def keytbl_lit(self):
        return lit.lst([f'({f}, {lit.z(v)})' for f, v in sorted(self.sortkey.items())])

    def describe(self):
        return {'format': self.fmt, 'labels': self.order, 'kinds': [self.kinds[l] for l in self.order],
                'config': 'none' if self.cfg is None else ('per-label map' if self.mapped else 'one StoreConfig'),
                'frames': {l: {'index': [str(x) for x in lit.labels(self.frames[l].index)],
                               'columns': [str(x) for x in lit.labels(self.frames[l].columns)],
                               'values': self.frames[l].values.tolist()} for l in self.order}}


# ---------------------------------------------------------------------------------- operations
def key_py(key):
    kind, v = key
    if kind == 'mask':
        return np.array(v, dtype=bool)
    if kind == 'slice':
        return slice(*v)
    if kind == 'lslice':
        return slice(v[0], v[1])
    if kind in ('list', 'labels'):
        return list(v)
    return v


def key_coq(key):
    kind, v = key
    oz = lambda l: 'None' if l is None else f'(Some {_rank(l)})'
    if kind == 'int':
        return f'(kI {lit.z(v)})'
    if kind == 'list':
        return f'(kL {lit.lst([lit.z(x) for x in v])})'
    if kind == 'slice':
        return f'(kS {lit.slice_(slice(*v))})'
    if kind == 'mask':
        return f'(kM {lit.lst([lit.b(x) for x in v])})'
    if kind == 'label':
        return f'(kl {_rank(v)})'
    if kind == 'labels':
        return f'(kls {lit.lst([str(_rank(x)) for x in v])})'
    if kind == 'lslice':
        return f'(klS {oz(v[0])} {oz(v[1])})'
    raise ValueError(kind)


def key_size(key, n_labels, cur):
    """How many labels the key selects (None if it is malformed) -- used to keep derived Buses non-empty."""
    kind, v = key
    try:
        if kind in ('int', 'label'):
            return 1
        if kind in ('list', 'labels'):
            return len(v)
        if kind == 'slice':
            return len(range(n_labels)[slice(*v)])
        if kind == 'mask':
            return sum(v)
        if kind == 'lslice':
            lo = 0 if v[0] is None else cur.index(v[0])
            hi = n_labels if v[1] is None else cur.index(v[1]) + 1
            return max(0, hi - lo)
    except Exception:  # noqa
        return None


def op_coq(op):
    k = op[0]
    if k == 'sel':
        return f'oSel {key_coq(op[2])} {lit.b(op[3])}'
    if k == 'head':
        return f'oSel (kS (mk_slice None (Some {lit.z(op[1])}) None)) {lit.b(op[2])}'
    if k == 'tail':
        return f'oSel (kS (mk_slice (Some {lit.z(-op[1])}) None None)) {lit.b(op[2])}'
    if k == 'items':
        return 'oItems'
    if k == 'values':
        return 'oValues'
    if k in ('keys', 'iter'):
        return 'oKeys'
    if k in ('status', 'describe', 'dtypes'):
        return 'oStatus'
    if k in ('rename', 'roll'):
        # a derived Bus over the same slots: the same labels (rename) or the labels rotated with their values (roll, include_index=True)
        return f'oReindex {lit.lst([str(_rank(x)) for x in op[1]])} {lit.b(op[2])}'
    if k == 'get':
        return f'oGet {_rank(op[1])}'
    if k == 'iter_element':
        return 'oIterElem'
    if k == 'iter_element_items':
        return 'oIterItems'
    if k == 'drop':
        return f'oDrop {key_coq(op[2])} {lit.b(op[3])}'
    if k == 'reindex':
        return f'oReindex {lit.lst([str(_rank(x)) for x in op[1]])} {lit.b(op[2])}'
    if k == 'sort_index':
        return f'oSortIndex {lit.b(op[1])} {lit.b(op[2])}'
    if k == 'sort_values':
        return f'oSortValues {lit.b(op[1])} {lit.b(op[2])}'
    if k == 'file':
        return 'oFile None' if op[1] == 'delete' else f'oFile (Some {T0 if op[1] == "restore" else op[2]})'
    raise ValueError(k)


def op_desc(op):
    k = op[0]
    if k == 'sel':
        via, key = op[1], op[2]
        acc = 'bus' if via == 'getitem' else f'bus.{via}'
        return f'{acc}[{key_py(key)!r}]' + (' -> continue on the result' if op[3] else '')
    if k == 'drop':
        via, key = op[1], op[2]
        acc = 'bus.drop' if via == 'getitem' else f'bus.drop.{via}'
        return f'{acc}[{key_py(key)!r}]' + (' -> continue on the result' if op[3] else '')
    if k in ('head', 'tail'):
        return f'bus.{k}({op[1]})' + (' -> continue on the result' if op[2] else '')
    if k == 'items':
        return 'list(bus.items())'
    if k == 'values':
        return 'tuple(bus.values)'
    if k == 'keys':
        return 'list(bus.keys())'
    if k == 'iter':
        return 'list(iter(bus))'
    if k == 'describe':
        return ('bus.shapes, .nbytes, .mloc, .status, .index, .name, .shape, .size, .ndim, .dtype, len(), reversed(), `in`, repr() '
                '-- none of them may load anything')
    if k == 'dtypes':
        return 'bus.dtypes -- must not load anything'
    if k == 'rename':
        return "bus.rename('renamed')" + (' -> continue on the result' if op[2] else '')
    if k == 'roll':
        return f'bus.roll({op[3]}, include_index=True)' + (' -> continue on the result' if op[2] else '')
    if k == 'status':
        return "bus.status['loaded']"
    if k == 'get':
        return f'bus.get({op[1]!r})'
    if k == 'iter_element':
        return 'tuple(bus.iter_element())'
    if k == 'iter_element_items':
        return 'tuple(bus.iter_element_items())'
    if k == 'reindex':
        return f'bus.reindex({op[1]!r}, fill_value=None)' + (' -> continue on the result' if op[2] else '')
    if k == 'sort_index':
        return f'bus.sort_index(ascending={op[1]})' + (' -> continue on the result' if op[2] else '')
    if k == 'sort_values':
        return (f'bus.sort_values(ascending={op[1]}, key=lambda s: np.array([int(f.iloc[0, 0]) for f in s.values]))'
                + (' -> continue on the result' if op[2] else ''))
    if k == 'file':
        t = op[2] if len(op) > 2 else None
        return {'touch': f'os.utime(fp, ({t}, {t}))', 'rewrite': f'write other frames to fp; os.utime(fp, ({t}, {t}))',
                'delete': 'os.remove(fp)', 'restore': f'put the original bytes back; os.utime(fp, ({T0}, {T0}))'}[op[1]]
    raise ValueError(k)


def _flags(bus):
    return [bool(x) for x in bus.status['loaded'].values.tolist()]


def _canon_frame(env, f):
    from static_frame.core.bus import FrameDeferred
    import static_frame as sf
    if f is FrameDeferred:
        return None
    if isinstance(f, sf.Frame):
        if getattr(env, 'reference', None) is not None:
            _check_against_eager(env, f)
        try:
            return env.lit2id.get(lit.oframe(f), -1)
        except ValueError:
            return -1
    return -2


def _check_against_eager(env, f):
    '''A Frame the Bus served, against the Frame an eager single-label load of the same label returns: same class,
    equals(compare_class, compare_dtype, compare_name); a served grow-only Frame is then GROWN, so that a Bus which caches
    the mutable object shows it in its later answers (which are checked the same way).'''
    import static_frame as sf
    ref = env.reference.get(f.name)
    if ref is None:
        env.class_fail.append(f'served a Frame named {f.name!r} that no label of the store has')
        return
    if f.__class__ is not ref.__class__:
        env.class_fail.append(f'label {f.name!r}: the Bus served a {f.__class__.__name__}, an eager load of that label returns a {ref.__class__.__name__}')
    elif not f.equals(ref, compare_class=True, compare_dtype=True, compare_name=True):
        env.class_fail.append(f'label {f.name!r}: the Frame served differs from the eager load (equals with compare_class/dtype/name); '
                              f'columns served {list(f.columns)}')
    if isinstance(f, sf.FrameGO):
        try:
            f[f'__grown_{len(f.columns)}__'] = 0
        except Exception:  # noqa
            pass


def _describe(env, bus):
    """The descriptors that must not load anything and must agree with the loaded flags and the Frames written."""
    import numpy as np
    import static_frame as sf
    fails = env.class_fail
    labels = [str(l) for l in bus.keys()]
    before = _flags(bus)
    want_shape = {l: env.frames[l].shape for l in labels if l in env.frames}
    shapes = bus.shapes
    if [str(l) for l in shapes.index] != labels or any((sh is not None) != ld or (ld and tuple(sh) != want_shape[l])
                                                       for l, sh, ld in zip(labels, shapes.values.tolist(), before)):
        fails.append(f'shapes {shapes.values.tolist()} disagree with the loaded flags {before} / the shapes written')
    mloc = bus.mloc
    if any((m is not None) != ld for m, ld in zip(mloc.values.tolist(), before)):
        fails.append(f'mloc {mloc.values.tolist()} disagrees with the loaded flags {before}')
    loaded_frames = [f for f in bus._series.values if isinstance(f, sf.Frame)] if hasattr(bus, '_series') else None
    if loaded_frames is not None and bus.nbytes != sum(f.nbytes for f in loaded_frames):
        fails.append(f'nbytes {bus.nbytes} is not the sum over the loaded Frames')
    st = bus.status
    if st.shape != (len(labels), 4) or [str(c) for c in st.columns] != ['loaded', 'size', 'nbytes', 'shape']:
        fails.append(f'status has shape {st.shape} columns {list(st.columns)}')
    else:
        for l, ld, size, nb, sh in zip(labels, st['loaded'].values.tolist(), st['size'].values.tolist(), st['nbytes'].values.tolist(),
                                       st['shape'].values.tolist()):
            if ld and (size != env.frames[l].size or tuple(sh) != want_shape[l] or not nb > 0):
                fails.append(f'status row of loaded {l}: size {size} nbytes {nb} shape {sh}')
            if not ld and not (size != size and nb != nb and sh is None):
                fails.append(f'status row of unloaded {l}: size {size} nbytes {nb} shape {sh}')
    if [str(l) for l in bus.index] != labels or [str(l) for l in reversed(bus)] != labels[::-1]:
        fails.append('index / reversed() disagree with keys()')
    if len(bus) != len(labels) or bus.shape != (len(labels),) or bus.size != len(labels) or bus.ndim != 1 or bus.dtype != np.dtype(object):
        fails.append(f'len/shape/size/ndim/dtype: {len(bus)} {bus.shape} {bus.size} {bus.ndim} {bus.dtype}')
    if any(l not in bus for l in labels) or UNKNOWN_LABEL in bus:
        fails.append('`in` disagrees with keys()')
    text = repr(bus)
    if any(l not in text for l in labels):
        fails.append('repr() does not show every label')
    after = _flags(bus)
    if after != before:
        fails.append(f'a descriptor loaded or dropped Frames: flags {before} -> {after}')


def _bus_obs(bus):
    return ('bus', [_rank(l) for l in bus.keys()], _flags(bus))


def _sort_key(s):
    return np.array([int(f.iloc[0, 0]) for f in s.values])


def apply_op(env, bus, op):
    """Run one operation on the implementation. Returns (observation, the Bus the history continues on)."""
    import static_frame as sf
    k = op[0]
    if k in ('sel', 'drop'):
        via, key, into = op[1], op[2], op[3]
        target = bus if k == 'sel' else bus.drop
        r = target[key_py(key)] if via == 'getitem' else getattr(target, via)[key_py(key)]
        if isinstance(r, sf.Bus):
            return _bus_obs(r), (r if into else bus)
        return ('slot', _canon_frame(env, r)), bus
    if k in ('head', 'tail'):
        r = getattr(bus, k)(op[1])
        return _bus_obs(r), (r if op[2] else bus)
    if k == 'items':
        return ('items', [(_rank(l), _canon_frame(env, f)) for l, f in list(bus.items())]), bus
    if k == 'values':
        return ('slots', [_canon_frame(env, f) for f in tuple(bus.values)]), bus
    if k == 'keys':
        return ('labels', [_rank(l) for l in bus.keys()]), bus
    if k == 'iter':
        return ('labels', [_rank(l) for l in iter(bus)]), bus
    if k == 'describe':
        _describe(env, bus)
        return ('flags', _flags(bus)), bus
    if k == 'dtypes':
        before = _flags(bus)
        labels = [str(l) for l in bus.keys()]
        dt = bus.dtypes
        if [str(l) for l in dt.index] != labels:
            env.class_fail.append(f'dtypes index {list(dt.index)} is not the labels {labels}')
        if _flags(bus) != before:
            env.class_fail.append(f'dtypes loaded or dropped Frames: flags {before} -> {_flags(bus)}')
        return ('flags', _flags(bus)), bus
    if k == 'rename':
        r = bus.rename('renamed')
        if r.name != 'renamed':
            env.class_fail.append(f'rename: the derived Bus is named {r.name!r}')
        return _bus_obs(r), (r if op[2] else bus)
    if k == 'roll':
        r = bus.roll(op[3], include_index=True)
        return _bus_obs(r), (r if op[2] else bus)
    if k == 'status':
        return ('flags', _flags(bus)), bus
    if k == 'get':
        r = bus.get(op[1])
        if r is None:
            return ('unit',), bus
        return ('slot', _canon_frame(env, r)), bus
    if k == 'iter_element':
        return ('slots', [_canon_frame(env, f) for f in tuple(bus.iter_element())]), bus
    if k == 'iter_element_items':
        return ('items', [(_rank(l), _canon_frame(env, f)) for l, f in tuple(bus.iter_element_items())]), bus
    if k == 'reindex':
        r = bus.reindex(list(op[1]), fill_value=None)
        return _bus_obs(r), (r if op[2] else bus)
    if k == 'sort_index':
        r = bus.sort_index(ascending=op[1])
        return _bus_obs(r), (r if op[2] else bus)
    if k == 'sort_values':
        r = bus.sort_values(ascending=op[1], key=_sort_key)
        return _bus_obs(r), (r if op[2] else bus)
    if k == 'file':
        env.file_op(op[1], op[2] if len(op) > 2 else None)
        return ('unit',), bus
    raise ValueError(k)


def _slot_lit(v):
    return 'None' if v is None else f'(Some {lit.z(v)})'


def obs_coq(ob):
    k = ob[0]
    if k == 'slot':
        return f'bSlot {_slot_lit(ob[1])}'
    if k == 'bus':
        return f'bBus {lit.lst([str(x) for x in ob[1]])} {lit.lst([lit.b(x) for x in ob[2]])}'
    if k == 'items':
        return 'bItems ' + lit.lst([f'({l}, {_slot_lit(v)})' for l, v in ob[1]])
    if k == 'slots':
        return 'bSlots ' + lit.lst([_slot_lit(v) for v in ob[1]])
    if k == 'labels':
        return 'bLabels ' + lit.lst([str(x) for x in ob[1]])
    if k == 'flags':
        return 'bFlags ' + lit.lst([lit.b(x) for x in ob[1]])
    if k == 'unit':
        return 'bUnit'
    if k == 'err':
        return f'bErr {lit.s(ob[1])}'
    raise ValueError(k)


def _logging_store(store, log):
    """The same store, recording every read_many call that passes the coherence check (kernel level)."""
    cls = type(store)

    class Logged(cls):
        __slots__ = ()

        def read_many(self, labels, **kw):
            labels = list(labels)
            it = cls.read_many(self, labels, **kw)
            log.append([_rank(l) for l in labels])
            return it
    new = Logged.__new__(Logged)
    new._fp = store._fp
    new._last_modified = store._last_modified
    return new


def run_history(env, mp, ops, kernel=False, online=None):
    """Run a history on the implementation. ops: a list, or with online=fn(step, bus, labels) a generator of the
    next operation from the current labels.  Returns (ops, trace); a trace entry is (obs, flags[, la, log])."""
    env.class_fail = []                               # Python-side observations of THIS history (class / descriptor checks)
    bus = env.open(mp)
    log = []
    if kernel:
        bus._store = _logging_store(bus._store, log)
    trace = []
    done = []
    step = 0
    while True:
        if online is not None:
            op = online(step, [str(l) for l in bus.keys()])
            if op is None:
                break
        else:
            if step >= len(ops):
                break
            op = ops[step]
        step += 1
        done.append(op)
        try:
            ob, bus = apply_op(env, bus, op)
        except Exception as e:  # noqa
            ob = ('err', lit.err_class(e))
        flags = _flags(bus)
        if kernel:
            # private state; a missing attribute is a lost kernel tie (sentinel -99), never a harness crash
            try:
                private = [bool(x) for x in bus._loaded.tolist()]
            except AttributeError:
                private = None
            if private != flags:
                ob = ('err', f'status/_loaded disagree {flags} {private}')
            if mp is None:
                la = []
            else:
                la = [_rank(l) for l in getattr(bus, '_last_accessed', {UNKNOWN_LABEL: None, 'f-99': None})]
            trace.append((ob, flags, la, [list(b) for b in log]))
            del log[:]
        else:
            trace.append((ob, flags))
    return done, trace


def trace_coq(trace, kernel=False):
    out = []
    for t in trace:
        base = f'({obs_coq(t[0])}, {lit.lst([lit.b(x) for x in t[1]])}'
        if kernel:
            base += f', {lit.lst([lit.z(x) for x in t[2]])}, {lit.lst([lit.lst([lit.z(x) for x in b]) for b in t[3]])}'
        out.append(base + ')')
    return lit.lst(out)


def mp_coq(mp):
    return 'None' if mp is None else f'(Some {lit.z(mp)})'


def history_case(kind, env, mp, ops, trace, kernel=False, tags=None, nontrivial=True, extra=None, default_differs=None, py_fail=None):
    ops_lit = lit.lst([op_coq(o) for o in ops])
    args = f'{env.content_lit(default_differs)} {T0} {mp_coq(mp)} {env.keytbl_lit()} {ops_lit}'
    if kernel:
        m = f'z_ktrace_eqb (z_m_run_k {args}) {trace_coq(trace, True)}'
        pub = [(t[0], t[1]) for t in trace]
    else:
        m = f'z_trace_eqb (z_m_run {args}) {trace_coq(trace)}'
        pub = trace
    s = f'z_trace_eqb (z_s_run {args}) {trace_coq(pub)}'
    desc = {'store': env.describe(), 'open': f'sf.Bus.from_{env.fmt}(fp, config=..., max_persist={mp})',
            'history': [op_desc(o) for o in ops],
            'observed': [obs_coq(t[0]) + ' loaded=' + ''.join('1' if x else '0' for x in t[1]) for t in trace]}
    if kernel:
        desc['observed_private'] = [{'_last_accessed': t[2], 'store reads': t[3]} for t in trace]
    if extra:
        desc.update(extra)
    if py_fail is None and getattr(env, 'class_fail', None):
        py_fail = f'{env.class_fail[0]} ({len(env.class_fail)} such observations)'
    return Case(kind, desc, m=m, s=s, py_fail=py_fail, tags=dict(tags or {}), nontrivial=nontrivial)


# ---------------------------------------------------------------------------------- strata
class Work:
    """Per-run temporary directory (removed when the generator is closed or exhausted)."""

    def __init__(self):
        import atexit
        self.tmp = tempfile.mkdtemp(prefix='sfv_c17_')
        self.n = 0
        atexit.register(self.close)          # also when the generator is abandoned before it is exhausted

    def name(self, stem):
        self.n += 1
        return f'{stem}_{self.n}'

    def close(self):
        shutil.rmtree(self.tmp, ignore_errors=True)


def uniform_kinds(rng, n, fmt, cls=None):
    cls = cls or rng.choice(list(KINDS_BY_CLASS))
    return [rng.choice(kinds_pool(fmt, KINDS_BY_CLASS[cls])) for _ in range(n)]


def roundtrip_cases(ctx, work):
    """write a Bus of 1..n Frames, open it again: same labels in the same order, an equal Frame under each label."""
    import static_frame as sf
    rng = ctx.rng
    for fmt in FORMATS:
        for i in range(ctx.n(6, 60)):
            n = rng.randrange(1, 6)
            order = rng.sample([_label(r) for r in range(8)], n)
            mapped = fmt != 'zip_pickle' and rng.random() < .6
            kinds = [rng.choice(kinds_pool(fmt)) for _ in range(n)] if (mapped or fmt == 'zip_pickle') else uniform_kinds(rng, n, fmt)
            tags = {'stratum': 'roundtrip', 'format': fmt}
            if fmt == 'sqlite' and i == 0:
                kinds[0] = 'int_cols'                # by construction: integer column labels in an SQLite store
                mapped = True
                tags['finding'] = 'C17-sqlite-int-column-labels'
            env = Env(work.tmp, work.name('rt'), fmt, order, kinds, mapped, rng)
            ctx.count(f'roundtrip:{fmt}', f'roundtrip:n={n}', *(f'kind:{k}' for k in set(kinds)))
            mp = rng.choice([None, 1, 2, n])
            py_fail = None
            try:
                bus = env.open(mp)
                got_labels = [str(l) for l in bus.keys()]
                got = [f for _, f in bus.items()]           # items() is correct for every max_persist
                read_lit = lit.lst([lit.oframe(f) for f in got])
            except Exception as e:  # noqa
                got_labels, read_lit = [], '[]'
                py_fail = f'reading the store back raised {type(e).__name__}: {e}'
            written_lit = lit.lst([lit.oframe(env.frames[l]) for l in order])
            term = f'rt_ok {lit.vlist(order)} {lit.vlist(got_labels)} {written_lit} {read_lit}'
            yield Case('api:roundtrip', {'store': env.describe(), 'max_persist': mp,
                                         'call': f'Bus.from_frames(frames).to_{fmt}(fp, config); Bus.from_{fmt}(fp, config, max_persist).items()',
                                         'labels_read': got_labels},
                       m=term, s=term, py_fail=py_fail, tags=tags)
    # optional formats: recorded, exercised only when the library is there
    for fmt, (module, ext) in OPTIONAL.items():
        try:
            __import__(module)
            ctx.count(f'optional:{fmt}:available-but-not-exercised')
        except Exception:  # noqa
            ctx.count(f'optional:{fmt}:library-missing')


def _decode_none(fn):
    return lambda text: None if text == 'None' else fn(text)


def label_kinds():
    """Bus label kinds and the label_encoder / label_decoder a store needs for them (labels that differ from their encoding)."""
    import ast as _ast
    import datetime as _dt
    return {
        'str': (['a', 'b', 'c', 'd e', 'f'], None, None),
        'int': ([2020, 2021, 7, -3, 0], str, int),
        'date': ([_dt.date(2020, 1, 1), _dt.date(2021, 5, 17), _dt.date(1999, 12, 31), _dt.date(2000, 2, 29), _dt.date(2024, 7, 4)],
                 str, _dt.date.fromisoformat),
        'tuple': ([('a', 1), ('b', 2), ('a', 3), ('c', 0), ('b', -1)], str, _ast.literal_eval),
        'none+str': ([None, 'x', 'y', 'z', 'w'], str, _decode_none(str)),
    }


def roundtrip_label_cases(ctx, work):
    """formats x label kinds (str, int, date, tuple, None -- through label_encoder/label_decoder) x the configuration given as
    ONE StoreConfig or as a per-label StoreConfigMap whose entries DIFFER from the default and from each other in
    index_depth / columns_depth / include_index (an auto-index Frame next to labelled and hierarchical ones):
    every label gives back a Frame equal to the one written, labels in the same order."""
    import static_frame as sf
    rng = ctx.rng
    for rep_ in range(ctx.n(1, 12)):
        for fmt in FORMATS:
            for lk, (pool, enc, dec) in label_kinds().items():
                for mapped in (False, True):
                    n = rng.randrange(2, 6)
                    labels = pool[:1] + rng.sample(pool[1:], n - 1) if lk == 'none+str' else rng.sample(pool, n)
                    if mapped:
                        # by construction: include_index=False (auto) beside include_index=True entries, different depths
                        kinds = ['auto', rng.choice(['ih_idx', 'ih_cols'])] + [rng.choice(kinds_pool(fmt)) for _ in range(n - 2)]
                        rng.shuffle(kinds)
                    else:
                        kinds = uniform_kinds(rng, n, fmt)
                    keys = rng.sample(range(-40, 40), n)
                    frames = [make_frame(k, l, v, rng) for k, l, v in zip(kinds, labels, keys)]

                    def mk(kind):
                        idx, col, inc, incc = KIND_CFG[kind]
                        return sf.StoreConfig(index_depth=idx, columns_depth=col, include_index=inc, include_columns=incc,
                                              label_encoder=enc, label_decoder=dec)
                    if fmt == 'zip_pickle':
                        cfg = None if enc is None else sf.StoreConfig(label_encoder=enc, label_decoder=dec)
                        form = 'none' if cfg is None else 'one StoreConfig (label codec only)'
                    elif mapped:
                        cfg = sf.StoreConfigMap({l: mk(k) for l, k in zip(labels, kinds)},
                                                default=sf.StoreConfig(label_encoder=enc, label_decoder=dec))
                        form = 'per-label StoreConfigMap'
                    else:
                        cfg = mk(kinds[0])
                        form = 'one StoreConfig'
                    mp = rng.choice([None, 1, 2, n])
                    fp = os.path.join(work.tmp, work.name('rl') + EXT[fmt])
                    py_fail, got_labels, read_lit = None, [], '[]'
                    try:
                        bus = sf.Bus.from_frames(frames)
                        if cfg is None:
                            getattr(bus, 'to_' + fmt)(fp)
                            back = getattr(sf.Bus, 'from_' + fmt)(fp, max_persist=mp)
                        else:
                            getattr(bus, 'to_' + fmt)(fp, config=cfg)
                            back = getattr(sf.Bus, 'from_' + fmt)(fp, config=cfg, max_persist=mp)
                        got_labels = list(back.keys())
                        got = [f for _, f in back.items()]
                        read_lit = lit.lst([lit.oframe(f) for f in got])
                        labels_lit = lit.vlist(got_labels)
                    except Exception as e:  # noqa
                        labels_lit = '[]'
                        py_fail = f'writing / reading the store back raised {type(e).__name__}: {e}'
                    finally:
                        os.path.exists(fp) and os.remove(fp)
                    ctx.count(f'roundtrip-labels:{fmt}', f'roundtrip-labels:{lk}', f'roundtrip-labels:{"map" if mapped else "one"}')
                    term = f'rt_ok {lit.vlist(labels)} {labels_lit} {lit.lst([lit.oframe(f) for f in frames])} {read_lit}'
                    yield Case('api:roundtrip-labels',
                               {'format': fmt, 'label kind': lk, 'labels': [repr(l) for l in labels], 'kinds': kinds, 'config': form,
                                'max_persist': mp, 'labels_read': [repr(l) for l in got_labels],
                                'call': f'Bus.from_frames(frames).to_{fmt}(fp, config); list(Bus.from_{fmt}(fp, config, max_persist).items())',
                                'shapes_written': [list(f.shape) for f in frames]},
                               m=term, s=term, py_fail=py_fail,
                               tags={'stratum': 'roundtrip-labels', 'format': fmt, 'labels': lk, 'mapped': mapped})


# the fixed alphabet of the exhaustive stratum: 3 labels in store order f1, f2, f0
EXH_ORDER = ['f1', 'f2', 'f0']
EXH_ALPHABET = [
    ('sel', 'getitem', ('label', 'f1'), False),
    ('sel', 'loc', ('label', 'f2'), False),
    ('sel', 'iloc', ('int', -1), False),
    ('sel', 'loc', ('labels', ['f0', 'f1']), False),
    ('sel', 'iloc', ('slice', (0, 2, None)), False),
    ('sel', 'getitem', ('mask', [False, True, True]), False),
    ('sel', 'iloc', ('list', [1, 2, 0]), False),
    ('values',),
    ('items',),
    ('sort_index', False, False),
]


def exhaustive_cases(ctx, work):
    rng = ctx.rng
    length = 3 if ctx.tier == 'quick' else 4
    env = Env(work.tmp, work.name('exh'), 'zip_pickle', EXH_ORDER, ['str_idx', 'mixed', 'one'], False, rng)
    for mp in ((None, 1, 2) if ctx.tier == 'quick' else (None, 1, 2, 3)):
        for hist in itertools.product(EXH_ALPHABET, repeat=length):
            ops, trace = run_history(env, mp, list(hist))
            ctx.count(f'exhaustive:mp={mp}')
            yield history_case('api:history-exhaustive', env, mp, ops, trace, tags={'stratum': 'exhaustive', 'mp': mp},
                               nontrivial=mp is not None)



# ---------------------------------------------------------------------------------- random histories
def rand_key(rng, cur, bulk_ok=True):
    """A well-formed key over the current labels: (via, key)."""
    n = len(cur)
    kinds = ['label', 'int'] if n else []
    if bulk_ok:
        kinds += ['list', 'slice', 'mask', 'lslice', 'slice'] + (['labels'] if n else [])
    kind = rng.choice(kinds)
    if kind == 'label':
        return rng.choice(['getitem', 'loc']), ('label', rng.choice(cur))
    if kind == 'int':
        return 'iloc', ('int', rng.randrange(-n, n))
    if kind == 'labels':
        return rng.choice(['getitem', 'loc']), ('labels', rng.sample(cur, rng.randrange(1, n + 1)))
    if kind == 'list':
        ps = rng.sample(range(n), rng.randrange(0, n + 1))
        return 'iloc', ('list', [p - n if rng.random() < .3 else p for p in ps])
    if kind == 'slice':
        b = lambda: rng.choice([None] + list(range(-n - 1, n + 2)))
        return 'iloc', ('slice', (b(), b(), rng.choice([None, None, 1, 2, -1, -2])))
    if kind == 'mask':
        return rng.choice(['getitem', 'loc', 'iloc']), ('mask', [rng.random() < .5 for _ in range(n)])
    if kind == 'lslice':
        e = lambda: rng.choice([None] + cur) if cur else None
        return rng.choice(['getitem', 'loc']), ('lslice', (e(), e()))
    raise ValueError(kind)


class RandomHistory:
    """Online generator of well-formed operations over the current labels.  Since the five C17 repairs every public
    operation is inside the theorem: get / iter_element on partly loaded Buses, sort_values with any max_persist, bulk
    selections with max_persist == 1 under a per-label configuration map."""

    def __init__(self, rng, env, mp, length, count=None):
        self.rng, self.env, self.mp, self.length, self.count = rng, env, mp, length, count

    def __call__(self, step, cur):
        if step >= self.length:
            return None
        rng, n = self.rng, len(cur)
        menu = ['sel'] * 10 + ['values', 'items', 'values', 'items', 'keys', 'iter', 'status', 'sort_index', 'sort_index',
                               'head', 'tail', 'iter_element', 'iter_element_items', 'describe', 'describe', 'rename']
        if len({KIND_CFG[k][1] for k in self.env.kinds.values()}) == 1:
            menu.append('dtypes')          # Bus.dtypes over Frames of different column depth: known finding, its own stratum
        if n:
            menu += ['drop', 'drop', 'reindex', 'reindex', 'sort_values', 'sort_values', 'get', 'get', 'roll', 'roll']
        k = rng.choice(menu)
        into = rng.random() < .3
        if self.count:
            self.count(f'op:{k}')
        if k == 'sel':
            via, key = rand_key(rng, cur, True)
            size = key_size(key, n, cur)
            if self.count:
                self.count(f'key:{key[0]}')
            return ('sel', via, key, bool(into and size))
        if k == 'drop':
            via, key = rand_key(rng, cur, True)
            size = key_size(key, n, cur)
            return ('drop', via, key, bool(into and size is not None and size < n))
        if k in ('head', 'tail'):
            c = rng.randrange(1, n + 2)
            return (k, c, into and n > 0)
        if k == 'reindex':
            return ('reindex', rng.sample(cur, rng.randrange(1, n + 1)), into)
        if k == 'sort_index':
            return ('sort_index', rng.random() < .5, into)
        if k == 'sort_values':
            return ('sort_values', rng.random() < .5, into)
        if k == 'get':
            return ('get', rng.choice(cur + [UNKNOWN_LABEL]))
        if k == 'rename':
            return ('rename', list(cur), into)
        if k == 'roll':
            sh = rng.randrange(-n - 1, n + 2)
            kk = sh % n
            return ('roll', (cur[-kk:] + cur[:-kk]) if kk else list(cur), into, sh)
        return (k,)


def random_env(rng, work, fmt, n=None, mapped=None, stem='env'):
    n = n or rng.randrange(2, 7)
    order = rng.sample([_label(r) for r in range(9)], n)
    if mapped is None:
        mapped = fmt != 'zip_pickle' and rng.random() < .5
    kinds = [rng.choice(kinds_pool(fmt)) for _ in range(n)] if (mapped or fmt == 'zip_pickle') else uniform_kinds(rng, n, fmt)
    return Env(work.tmp, work.name(stem), fmt, order, kinds, mapped, rng)


def random_cases(ctx, work, kernel):
    rng = ctx.rng
    kind = 'kernel:history' if kernel else 'api:history-random'
    for i in range(ctx.n(60, 1500) if not kernel else ctx.n(60, 1500)):
        fmt = FORMATS[i % len(FORMATS)]
        env = random_env(rng, work, fmt)
        n = len(env.order)
        for mp in rng.sample([None, 1, 2, 3, n, n + 1], 2):
            length = rng.randrange(4, 31 if ctx.tier == 'thorough' else 16)
            ops, trace = run_history(env, mp, None, kernel=kernel, online=RandomHistory(rng, env, mp, length, ctx.count))
            ctx.count(f'{kind}:{fmt}', f'{kind}:mp={"None" if mp is None else ("n+" if mp >= n else mp)}',
                      f'{kind}:config={"map" if env.mapped else "one"}')
            yield history_case(kind, env, mp, ops, trace, kernel=kernel,
                               tags={'stratum': 'kernel' if kernel else 'random', 'format': fmt, 'mp': mp})


# ---------------------------------------------------------------------------------- stale files
STALE_ALPHABET = [
    ('sel', 'getitem', ('label', 'f1'), False),
    ('sel', 'getitem', ('label', 'f0'), False),
    ('sel', 'loc', ('labels', ['f0', 'f2']), False),
    ('sel', 'iloc', ('slice', (None, None, -1)), True),
    ('values',),
    ('items',),
    ('status',),
]
# both directions: a restored backup (cp -p, shutil.copy2, os.replace of an older file, os.utime backwards) is OLDER than recorded
FILE_EVENTS = [('file', 'touch', T0 + 5), ('file', 'touch', T0 - 5), ('file', 'rewrite', T0 + 7), ('file', 'rewrite', T0 - 7),
               ('file', 'delete')]


def stale_cases(ctx, work):
    """the file is touched / rewritten / deleted at EVERY point of a history: the next read must raise StoreFileMutation;
    accesses served from memory still answer."""
    rng = ctx.rng
    envs = {fmt: Env(work.tmp, work.name('stale'), fmt, EXH_ORDER, ['str_idx', 'mixed', 'one'], False, rng) for fmt in FORMATS}
    length = 3
    hists = list(itertools.product(STALE_ALPHABET, repeat=length))
    combos = [(h, i, ev, mp) for h in hists for i in range(length + 1) for ev in FILE_EVENTS for mp in (None, 1, 2)]
    if ctx.tier == 'quick':
        combos = rng.sample(combos, min(len(combos), ctx.n(500, 0)))
    else:
        combos = rng.sample(combos, min(len(combos), ctx.n(0, 6000)))
    for j, (h, i, ev, mp) in enumerate(combos):
        fmt = FORMATS[j % len(FORMATS)]
        env = envs[fmt].clone(work.tmp, work.name('st'))
        ops = list(h[:i]) + [ev] + list(h[i:])
        ops, trace = run_history(env, mp, ops)
        os.path.exists(env.fp) and os.remove(env.fp)
        ctx.count(f'stale:{ev[1]}' + ('' if len(ev) < 3 else (':newer' if ev[2] > T0 else ':older')), f'stale:point={i}', f'stale:{fmt}')
        raised = any(t[0] == ('err', 'StoreFileMutation') for t in trace)
        yield history_case('api:stale', env, mp, ops, trace,
                           tags={'stratum': 'stale', 'event': ev[1], 'older': len(ev) > 2 and ev[2] < T0, 'format': fmt, 'mp': mp},
                           nontrivial=raised)


# ---------------------------------------------------------------------------------- malformed keys
def malformed_key(rng, cur):
    n = len(cur)
    k = rng.choice(['int_oor', 'list_oor', 'list_dup', 'mask_len', 'label_absent', 'labels_absent', 'labels_dup', 'lslice_absent', 'step0'])
    if k == 'int_oor':
        return 'iloc', ('int', rng.choice([n, n + 3, -n - 1]))
    if k == 'list_oor':
        return 'iloc', ('list', [0, rng.choice([n, -n - 1])])
    if k == 'list_dup':
        p = rng.randrange(n)
        return 'iloc', ('list', [p, rng.choice([p, p - n])])
    if k == 'mask_len':
        # never an EMPTY mask: NumPy accepts a size-0 Boolean index on an axis of length 1 (a NumPy quirk, not static-frame)
        return rng.choice(['loc', 'iloc']), ('mask', [True] * (n + (1 if n <= 1 else rng.choice([-1, 1]))))
    if k == 'label_absent':
        return rng.choice(['getitem', 'loc']), ('label', UNKNOWN_LABEL)
    if k == 'labels_absent':
        return 'loc', ('labels', [cur[0], UNKNOWN_LABEL])
    if k == 'labels_dup':
        return 'loc', ('labels', [cur[0], cur[0]])
    if k == 'lslice_absent':
        return 'loc', ('lslice', (cur[0], UNKNOWN_LABEL) if rng.random() < .5 else (UNKNOWN_LABEL, None))
    return 'iloc', ('slice', (None, None, 0))


def malformed_cases(ctx, work):
    """keys that address nothing valid, at a random point of a random history: an error, no data, nothing loaded."""
    rng = ctx.rng
    for i in range(ctx.n(40, 600)):
        fmt = FORMATS[i % len(FORMATS)]
        env = random_env(rng, work, fmt, n=rng.randrange(2, 5))
        mp = rng.choice([None, 1, 2])
        length = rng.randrange(2, 8)
        bad_at = set(rng.sample(range(length), rng.randrange(1, 3)))
        inner = RandomHistory(rng, env, mp, length)

        def online(step, cur, inner=inner, bad_at=bad_at):
            if step >= length:
                return None
            if step in bad_at and cur:
                via, key = malformed_key(rng, cur)
                ctx.count(f'malformed:{key[0]}')
                if key[0] == 'label' and rng.random() < .3:
                    return ('drop', via, key, False)
                return ('sel', via, key, False)
            return inner(step, cur)
        ops, trace = run_history(env, mp, None, online=online)
        yield history_case('api:malformed', env, mp, ops, trace, tags={'stratum': 'malformed', 'format': fmt, 'mp': mp})


# ---------------------------------------------------------------------------------- Bus._store_reader called directly
def store_reader_cases(ctx):
    from static_frame.core.bus import Bus

    class Stub:
        def __init__(self):
            self.calls = []

        def read_many(self, labels, *, config=None):
            labels = list(labels)
            self.calls.append(labels)
            return iter([('F', l) for l in labels])

        def read(self, label, *, config=None):
            self.calls.append([label])
            return ('F', label)

    class Cfg:
        def __init__(self):
            self.keys = []

        def __getitem__(self, k):
            self.keys.append(k)
            return None
    top = 7 if ctx.tier == 'quick' else 12
    for n in range(0, top + 1):
        for mp in [None] + list(range(1, top + 2)):
            st, cfg = Stub(), Cfg()
            labels = list(range(n))
            try:
                out = list(Bus._store_reader(store=st, config=cfg, labels=iter(labels), max_persist=mp))
            except Exception as e:  # noqa
                out = type(e).__name__
            by_label = all(k in labels for k in cfg.keys)
            ctx.count('store_reader')
            py_fail = None
            tags = {'kernel': 'store_reader', 'mp': mp}
            if out != [('F', l) for l in labels]:
                py_fail = f'_store_reader yields {out!r} for labels {labels}'
            elif mp is not None and any(len(c) > max(mp, 1) for c in st.calls):
                py_fail = f'_store_reader reads {st.calls} at once with max_persist={mp}'
            elif not by_label:
                py_fail = f'_store_reader looks the configuration up with a non-label key ({type(cfg.keys[0]).__name__}) for max_persist={mp}'
            calls_lit = lit.lst([lit.lst([str(x) for x in c]) for c in st.calls])
            mode = 'CfgLabel' if (by_label or not cfg.keys) else 'CfgDefault'
            want_mode = f'match reader_mode {mp_coq(mp)} with CfgLabel => true | CfgDefault => {lit.b(n == 0)} end' if mode == 'CfgLabel' else \
                        f'match reader_mode {mp_coq(mp)} with CfgLabel => false | CfgDefault => true end'
            yield Case('kernel:store_reader',
                       {'call': 'Bus._store_reader(store=stub, config=recording_map, labels=iter(range(n)), max_persist=mp)', 'n': n,
                        'max_persist': mp, 'read calls': st.calls, 'config keys are labels': by_label},
                       m=f'z_batches_eqb (z_reader_batches {mp_coq(mp)} {lit.lst([str(x) for x in labels])}) {calls_lit} && ({want_mode})',
                       py_fail=py_fail, tags=tags, nontrivial=n > 1)


# ---------------------------------------------------------------------------------- repaired defects: the former witness inputs as regression cases
# (specification = the correct behaviour; no known-finding tag any more)
def regression_cases(ctx, work):
    rng = ctx.rng
    acc = lambda l: ('sel', 'getitem', ('label', l), False)
    four = ['f0', 'f1', 'f2', 'f3']

    # (1) fixed dee625c: a failed read left the label in _last_accessed; once the file was back, max_persist could be exceeded
    tag = {'regression': 'failed-read-lru'}
    env0 = Env(work.tmp, work.name('fr'), 'zip_pickle', four, ['str_idx', 'one', 'mixed', 'wide'], False, rng)
    witness = [acc('f0'), acc('f2'), ('file', 'touch', T0 + 5), acc('f1'), ('file', 'restore'), acc('f0'), acc('f2'), acc('f3'), ('status',)]
    hists = [(env0, 2, witness)]
    for i in range(ctx.n(12, 200)):
        fmt = FORMATS[i % len(FORMATS)]
        env = random_env(rng, work, fmt, n=rng.randrange(3, 6), mapped=False, stem='fr')
        mp = rng.randrange(1, len(env.order))
        labels = list(env.order)
        fresh = labels.pop(rng.randrange(len(labels)))            # never accessed before the failure: needs a read
        pre = [acc(rng.choice(labels)) for _ in range(rng.randrange(0, 5))]
        ev = rng.choice(FILE_EVENTS)
        post = [rng.choice([acc(rng.choice(env.order)), ('values',), ('sel', 'loc', ('labels', rng.sample(env.order, 2)), False)])
                for _ in range(rng.randrange(2, 9))]
        hists.append((env, mp, pre + [ev, acc(fresh), ('file', 'restore')] + post))
    for j, (env, mp, ops) in enumerate(hists):
        env = env.clone(work.tmp, work.name('frc'))
        ops, trace = run_history(env, mp, ops, kernel=True)
        os.path.exists(env.fp) and os.remove(env.fp)
        ctx.count('regression:failed-read-then-restore')
        yield history_case('regression:restore-after-failed-read', env, mp, ops, trace, kernel=True,
                           tags=dict(tag, format=env.fmt, mp=mp, witness=(j == 0)))

    # (2) fixed 5b16856 949c364: Bus.get / iter_element / iter_element_items handed out the FrameDeferred placeholder
    env = Env(work.tmp, work.name('ph'), 'zip_pickle', four, ['str_idx', 'one', 'mixed', 'auto'], False, rng)
    for mp in (None, 1, 2):
        for pre_n in range(0, ctx.n(3, 6)):
            labels = list(four)
            fresh = labels.pop(rng.randrange(4))                  # never accessed: still deferred by construction
            pre = [acc(rng.choice(labels)) for _ in range(pre_n)]
            for last, fid in ((('get', fresh), 'get-placeholder'), (('iter_element',), 'iter-element-placeholder'),
                              (('iter_element_items',), 'iter-element-placeholder')):
                ops, trace = run_history(env, mp, pre + [last])
                ctx.count(f'regression:{last[0]}-placeholder')
                yield history_case('regression:placeholder', env, mp, ops, trace, tags={'regression': fid, 'op': last[0], 'mp': mp})

    # (3) fixed 615b06f: sort_values on a Bus whose max_persist is smaller than its length raised ErrorInitBus
    for i in range(ctx.n(4, 40)):
        fmt = FORMATS[i % len(FORMATS)]
        env = random_env(rng, work, fmt, n=rng.randrange(2, 6), mapped=False, stem='sv')
        mp = rng.randrange(1, len(env.order))
        pre = [acc(rng.choice(env.order)) for _ in range(rng.randrange(0, 3))]
        ops, trace = run_history(env, mp, pre + [('sort_values', rng.random() < .5, True), ('values',)])
        ctx.count('regression:sort_values-max_persist')
        yield history_case('regression:sort-values', env, mp, ops, trace,
                           tags={'regression': 'sort-values-max-persist', 'format': fmt, 'mp': mp})

    # (4) fixed 71280f9: max_persist == 1, a per-label configuration map, a selection of several labels was read with the DEFAULT configuration
    import static_frame as sf
    for i in range(ctx.n(4, 40)):
        fmt = ('zip_csv', 'zip_tsv')[i % 2]
        n = rng.randrange(2, 5)
        order = rng.sample([_label(r) for r in range(6)], n)
        kinds = [rng.choice(['str_idx', 'mixed', 'one', 'wide']) for _ in range(n)]
        env = Env(work.tmp, work.name('cf'), fmt, order, kinds, True, rng)
        plain = getattr(sf.Bus, 'from_' + fmt)(env.fp)            # no configuration: every label read with the default
        for l in order:
            env.lit2id[lit.oframe(plain[l])] = env.fid[l] + 100
        sel = rng.sample(order, rng.randrange(2, n + 1))
        ops = [('sel', 'loc', ('labels', sel), True), ('iter_element',), ('values',)]
        if i % 3 == 0:
            ops = [('sel', 'iloc', ('slice', (None, None, None)), True), ('iter_element',), ('values',)]
        ops, trace = run_history(env, 1, ops)
        ctx.count('regression:config-max_persist-1')
        yield history_case('regression:config-map-max-persist-1', env, 1, ops, trace, default_differs=True,
                           tags={'regression': 'config-max-persist-1', 'format': fmt, 'mp': 1})


# ---------------------------------------------------------------------------------- wide slices over many labels
def wide_slice_cases(ctx, work):
    """5..7 labels, max_persist 2..3: load one or two single labels, then a slice selection (iloc[a:b], loc[x:y], head, tail)
    that needs more loads than max_persist -- so Frames loaded at the start of the call are evicted and re-instated while
    the reader is consumed in batches -- then read EVERY label, the ones the call left loaded FIRST (most recent first: pure
    hits, nothing is evicted before it has been looked at): each must return its own Frame."""
    rng = ctx.rng
    acc = lambda l: ('sel', 'getitem', ('label', l), False)
    combos = []
    for n in (5, 6, 7):
        labels = [_label(r) for r in range(n)]
        pres = [()] + [(a,) for a in labels] + [(a, b) for a in labels for b in labels if a != b]
        slices = [('sel', 'iloc', ('slice', (a, b, None)), False) for a in range(n) for b in range(a + 4, n + 1)]
        slices += [('head', k, False) for k in range(4, n + 1)] + [('tail', k, False) for k in range(4, n + 1)]
        slices += [('sel', 'loc', ('lslice', (labels[a], labels[b])), False) for a in range(n) for b in range(a + 3, n)]
        slices += [('sel', 'iloc', ('slice', (None, None, -1)), False), ('sel', 'iloc', ('slice', (None, None, 2)), False)]
        for mp in (2, 3):
            for pre in pres:
                for sl in slices:
                    combos.append((n, mp, pre, sl))
    def span(n, sl):
        if sl[0] == 'head':
            return 0, min(sl[1], n)
        if sl[0] == 'tail':
            return max(0, n - sl[1]), n
        kind, v = sl[2]
        if kind == 'lslice':
            return _rank(v[0]), _rank(v[1]) + 1
        if v[2] is None:
            return v[0], v[1]
        return None

    def evicts_and_reinstates(c):
        # a Frame already loaded sits after at least max_persist deferred labels of the slice and a deferred label follows it
        n, mp, pre, sl = c
        sp = span(n, sl)
        loaded = [_rank(l) for l in pre[-mp:]]
        if sp is None:
            return False
        for r, p in enumerate(loaded):
            d = p - sp[0] - sum(1 for q in loaded if sp[0] <= q < p)      # deferred labels of the slice before p
            # p is scanned by a batch that started before the loop reached it, after it was evicted, and a deferred label follows
            if sp[0] <= p < sp[1] - 1 and d % mp != 0 and (d // mp) * mp >= mp - len(loaded) + 1 + r:
                return True
        return False
    take = ctx.n(240, 6000)
    if take < len(combos):
        hot = [c for c in combos if evicts_and_reinstates(c)]
        cold = [c for c in combos if not evicts_and_reinstates(c)]
        k = min(len(hot), (2 * take) // 3)
        combos = rng.sample(hot, k) + rng.sample(cold, take - k)
    ctx.count(*(['wide-slice:evicts-and-reinstates'] * sum(1 for c in combos if evicts_and_reinstates(c))))
    envs = {}
    for j, (n, mp, pre, sl) in enumerate(combos):
        fmt = FORMATS[j % len(FORMATS)]
        if (n, fmt) not in envs:
            kinds = uniform_kinds(rng, n, fmt, cls=(1, 1, True, True))
            envs[(n, fmt)] = Env(work.tmp, work.name('ws'), fmt, [_label(r) for r in range(n)], kinds, False, rng)
        env = envs[(n, fmt)]
        into = rng.random() < .25                       # sometimes go on reading from the derived Bus instead
        sl2 = sl[:-1] + (into,)
        if sl[0] == 'head':
            picked = env.order[:sl[1]]
        elif sl[0] == 'tail':
            picked = env.order[-sl[1]:]
        elif sl[2][0] == 'lslice':
            picked = env.order[_rank(sl[2][1][0]):_rank(sl[2][1][1]) + 1]
        else:
            picked = env.order[slice(*sl[2][1])]
        rest = [] if into else [l for l in env.order if l not in picked]
        ops = [acc(l) for l in pre] + [sl2, ('status',)] + [acc(l) for l in reversed(picked)] + [acc(l) for l in rest] + [('values',)]
        ops, trace = run_history(env, mp, ops, kernel=(j % 2 == 0))
        ctx.count(f'wide-slice:n={n}', f'wide-slice:mp={mp}', f'wide-slice:{sl[0] if sl[0] != "sel" else sl[2][0]}', f'wide-slice:preloaded={len(pre)}')
        yield history_case('api:wide-slice', env, mp, ops, trace, kernel=(j % 2 == 0),
                           tags={'stratum': 'wide-slice', 'n': n, 'mp': mp, 'format': fmt})


# ---------------------------------------------------------------------------------- zip-pickle stores with members of mixed Frame classes
def pickle_class_cases(ctx, work):
    """A zip-pickle store holding Frame, FrameGO and FrameHE members in varying orders; multi-label selections (loc list, slice,
    Boolean, iloc list, values, items()) with max_persist None/2/3/4, each followed by reading the selected labels back (the ones
    still loaded first).  Per served Frame: its class and equals(compare_class/dtype/name) against the Frame an EAGER single-label
    load returns (on this tree: always a plain, immutable Frame -- StoreZipPickle.read_many converts to the container type), and
    growing a served FrameGO must not change later answers."""
    import static_frame as sf
    rng = ctx.rng
    acc = lambda l: ('sel', 'getitem', ('label', l), False)
    for i in range(ctx.n(120, 2500)):
        n = rng.randrange(4, 7)
        order = rng.sample([_label(r) for r in range(8)], n)
        classes = ['Frame', rng.choice(['FrameGO', 'FrameHE'])] + [rng.choice(['Frame', 'FrameGO', 'FrameHE']) for _ in range(n - 2)]
        rng.shuffle(classes)
        kinds = [rng.choice(kinds_pool('zip_pickle')) for _ in range(n)]
        env = Env(work.tmp, work.name('pc'), 'zip_pickle', order, kinds, False, rng, classes=classes)
        # the reference: every label loaded on its own by a fresh Bus
        env.reference = None
        ref = {l: sf.Bus.from_zip_pickle(env.fp)[l] for l in order}
        env.reference = ref
        mp = rng.choice([None, 2, 3, 4])
        ops = []
        for _ in range(rng.randrange(2, 5)):
            k = rng.choice(['labels', 'slice', 'mask', 'list', 'values', 'items', 'lslice'])
            if k == 'labels':
                picked = rng.sample(order, rng.randrange(2, n + 1))
                ops.append(('sel', rng.choice(['loc', 'getitem']), ('labels', picked), False))
            elif k == 'slice':
                a = rng.randrange(0, n - 1)
                b = rng.randrange(a + 2, n + 1)
                step = rng.choice([None, None, 2, -1])
                key = (a, b, step) if step != -1 else (None, None, -1)
                picked = order[slice(*key)]
                ops.append(('sel', 'iloc', ('slice', key), False))
            elif k == 'lslice':
                a = rng.randrange(0, n - 1)
                b = rng.randrange(a + 1, n)
                picked = order[a:b + 1]
                ops.append(('sel', 'loc', ('lslice', (order[a], order[b])), False))
            elif k == 'mask':
                m = [rng.random() < .6 for _ in range(n)]
                picked = [l for l, x in zip(order, m) if x]
                ops.append(('sel', rng.choice(['loc', 'iloc', 'getitem']), ('mask', m), False))
            elif k == 'list':
                ps = rng.sample(range(n), rng.randrange(2, n + 1))
                picked = [order[p] for p in ps]
                ops.append(('sel', 'iloc', ('list', ps), False))
            else:
                picked = list(order)
                ops.append((k,))
            ops += [acc(l) for l in reversed(picked)]      # the ones the call left loaded first: pure hits
        ops, trace = run_history(env, mp, ops)
        ctx.count(f'pickle-classes:mp={mp}', *(f'pickle-classes:{c}' for c in set(classes)))
        fails = env.class_fail
        yield history_case('api:pickle-classes', env, mp, ops, trace,
                           py_fail=(f'{fails[0]} ({len(fails)} such observations)' if fails else None),
                           extra={'classes written': classes, 'eager load returns': [ref[l].__class__.__name__ for l in order]},
                           tags={'stratum': 'pickle-classes', 'mp': mp})
        os.path.exists(env.fp) and os.remove(env.fp)
        os.path.exists(env.backup) and os.remove(env.backup)


# ---------------------------------------------------------------------------------- Bus(series, store=, max_persist=): __init__ itself
def init_cases(ctx, work):
    """The public constructor on a Series that already holds some Frames (the others FrameDeferred): refused with ErrorInitBus
    exactly when more are held than max_persist allows (bus.py:336); otherwise the Bus goes on serving the right Frames and
    evicts the held ones in index order.  Also the two other refusals of __init__: a non-object Series, a value that is neither."""
    import static_frame as sf
    from static_frame.core.bus import FrameDeferred
    from static_frame.core.store_zip import StoreZipPickle, StoreZipCSV, StoreZipTSV
    from static_frame.core.store_sqlite import StoreSQLite
    store_cls = {'zip_pickle': StoreZipPickle, 'zip_csv': StoreZipCSV, 'zip_tsv': StoreZipTSV, 'sqlite': StoreSQLite}
    rng = ctx.rng
    for i in range(ctx.n(60, 800)):
        fmt = FORMATS[i % len(FORMATS)]
        env = random_env(rng, work, fmt, n=rng.randrange(2, 6), mapped=False, stem='in')
        n = len(env.order)
        held = [rng.random() < .5 for _ in range(n)]
        mp = rng.choice([None, 1, 2, 3, n])
        values = [env.frames[l] if h else FrameDeferred for l, h in zip(env.order, held)]
        series = sf.Series(values, index=env.order, dtype=object)
        env.class_fail = []
        trace, ops = [], []
        try:
            bus = sf.Bus(series, store=store_cls[fmt](env.fp), config=env.cfg, max_persist=mp)
        except Exception as e:  # noqa
            bus = None
            trace.append((('err', lit.err_class(e)), []))
        if bus is not None:
            trace.append((('unit',), _flags(bus)))
            inner = RandomHistory(rng, env, mp, rng.randrange(2, 8))
            step = 0
            while True:
                op = inner(step, [str(l) for l in bus.keys()])
                if op is None:
                    break
                step += 1
                ops.append(op)
                try:
                    ob, bus = apply_op(env, bus, op)
                except Exception as e:  # noqa
                    ob = ('err', lit.err_class(e))
                trace.append((ob, _flags(bus)))
        if i % 10 == 0:
            # the other refusals of __init__
            for bad, what in ((sf.Series([1] * n, index=env.order), 'a Series that is not of dtype object'),
                              (sf.Series([env.frames[env.order[0]]] + [3] * (n - 1), index=env.order, dtype=object), 'a value that is no Frame')):
                try:
                    sf.Bus(bad, store=store_cls[fmt](env.fp))
                    env.class_fail.append(f'Bus() accepted {what}')
                except sf.ErrorInitBus:
                    pass
                except Exception as e:  # noqa
                    env.class_fail.append(f'Bus() on {what} raised {type(e).__name__}, not ErrorInitBus')
        ctx.count(f'init:held={sum(held)}', f'init:mp={mp}', 'init:refused' if bus is None else 'init:accepted')
        labels_lit = lit.lst([str(_rank(l)) for l in env.order])
        args = f'{env.content_lit()} {T0} {labels_lit}'
        tail = f'{mp_coq(mp)} {env.keytbl_lit()} {lit.lst([op_coq(o) for o in ops])}'
        slots_lit = lit.lst([_slot_lit(env.fid[l] if h else None) for l, h in zip(env.order, held)])
        yield Case('api:init', {'store': env.describe(), 'held before': held, 'max_persist': mp,
                                'call': f'sf.Bus(Series of Frames/FrameDeferred, store=Store(fp), max_persist={mp})',
                                'history': [op_desc(o) for o in ops],
                                'observed': [obs_coq(t[0]) + ' loaded=' + ''.join('1' if x else '0' for x in t[1]) for t in trace]},
                   m=f'z_trace_eqb (z_m_run_init {args} {slots_lit} {tail}) {trace_coq(trace)}',
                   s=f'z_trace_eqb (z_s_run_init {args} {lit.lst([lit.b(h) for h in held])} {tail}) {trace_coq(trace)}',
                   py_fail=(env.class_fail[0] if env.class_fail else None),
                   tags={'stratum': 'init', 'format': fmt, 'mp': mp}, nontrivial=mp is not None)


# ---------------------------------------------------------------------------------- constructors, library-derived configurations, worker pools, equals
def constructor_cases(ctx, work):
    """Round trips through the other public routes: Bus.from_items / from_dict / from_frames; the configuration DERIVED by the
    library (StoreConfigMap.from_frames, StoreConfig.from_frame) incl. Frames without column labels and without any labels;
    zip stores written and read through worker pools (read_max_workers / write_max_workers, chunk sizes); Bus.equals between
    two Buses over the same store with different max_persist (and against a store with one Frame changed)."""
    import static_frame as sf
    from static_frame.core.store import StoreConfigMap
    rng = ctx.rng
    routes = [(fmt, ctor, form) for fmt in FORMATS for ctor in ('from_frames', 'from_items', 'from_dict')
              for form in ('map.from_frames', 'config.from_frame', 'workers')]
    for rep_ in range(ctx.n(1, 6)):
        for fmt, ctor, form in routes:
            if form == 'workers' and fmt == 'sqlite':
                continue
            n = rng.randrange(2, 6)
            labels = rng.sample([_label(r) for r in range(9)], n)
            if form == 'map.from_frames':
                kinds = [rng.choice(kinds_pool(fmt)) for _ in range(n)]
            else:
                kinds = uniform_kinds(rng, n, fmt)
            frames = [make_frame(k, l, v, rng) for k, l, v in zip(kinds, labels, rng.sample(range(-40, 40), n))]
            if form == 'map.from_frames':
                cfg = StoreConfigMap.from_frames(frames)
            elif form == 'config.from_frame':
                cfg = sf.StoreConfig.from_frame(frames[0])
            else:
                idx, col, inc, incc = KIND_CFG[kinds[0]]
                cfg = sf.StoreConfig(index_depth=idx, columns_depth=col, include_index=inc, include_columns=incc,
                                     read_max_workers=2, read_chunksize=rng.choice([1, 2]), write_max_workers=2,
                                     write_chunksize=rng.choice([1, 2]))
            if fmt == 'zip_pickle' and form != 'workers':
                cfg = None
            fp = os.path.join(work.tmp, work.name('ct') + EXT[fmt])
            mp = rng.choice([None, 1, 2, n])
            py_fail, got_labels, read_lit, labels_lit = None, [], '[]', '[]'
            try:
                if ctor == 'from_frames':
                    bus = sf.Bus.from_frames(frames, config=cfg)
                elif ctor == 'from_items':
                    bus = sf.Bus.from_items(zip(labels, frames), config=cfg)
                else:
                    bus = sf.Bus.from_dict(dict(zip(labels, frames)), config=cfg)
                getattr(bus, 'to_' + fmt)(fp)                      # the Bus's own configuration is used
                kw = {} if cfg is None else {'config': cfg}
                back = getattr(sf.Bus, 'from_' + fmt)(fp, max_persist=mp, **kw)
                got_labels = [str(l) for l in back.keys()]
                labels_lit = lit.vlist(got_labels)
                read_lit = lit.lst([lit.oframe(f) for _, f in back.items()])
                # equals: the same store through another Bus with another max_persist; then one Frame changed
                other = getattr(sf.Bus, 'from_' + fmt)(fp, max_persist=rng.choice([None, 1, 2]), **kw)
                if not back.equals(other, compare_name=True, compare_dtype=True):
                    py_fail = 'Bus.equals is False for two Buses over the same store'
                elif mp is not None and sum(_flags(back)) > mp:
                    py_fail = f'after equals {sum(_flags(back))} Frames are loaded with max_persist={mp}'
                else:
                    changed = sf.Bus.from_frames([frames[0].rename(labels[0]) if j else make_frame(kinds[0], labels[0], 99, rng)
                                                  for j, _ in enumerate(frames)][:1] + frames[1:])
                    if back.equals(changed):
                        py_fail = 'Bus.equals is True although one Frame differs'
                    elif back.equals(changed.iloc[:n - 1]) if n > 1 else False:
                        py_fail = 'Bus.equals is True for Buses of different length'
                    elif not back.equals(back) or back.equals(3) or back.equals(back._series if hasattr(back, '_series') else 3, compare_class=True):
                        py_fail = 'Bus.equals: identity / non-Bus operand answered wrongly'
                    elif back.equals(back.rename('other name'), compare_name=True) or not back.equals(back.rename('other name')):
                        py_fail = 'Bus.equals: compare_name answered wrongly'
                    elif n > 1 and back.equals(back.roll(1, include_index=True)):
                        py_fail = 'Bus.equals is True for a Bus with the labels in another order'
                    else:
                        # StoreConfigMap refuses what it cannot use (store.py:363-386)
                        good = sf.StoreConfig(index_depth=1)
                        for bad_args, what in ((dict(default=3), 'a default that is no StoreConfig'),
                                               (dict(config_map={'a': 3}), 'an entry that is no StoreConfig'),
                                               (dict(config_map={'a': sf.StoreConfig(read_max_workers=3)}, default=good),
                                                'an entry whose worker settings differ from the default')):
                            try:
                                StoreConfigMap(bad_args.get('config_map'), default=bad_args.get('default'))
                                py_fail = f'StoreConfigMap accepted {what}'
                            except sf.ErrorInitStoreConfig:
                                pass
            except Exception as e:  # noqa
                py_fail = f'{type(e).__name__}: {e}'
            finally:
                os.path.exists(fp) and os.remove(fp)
            ctx.count(f'constructor:{ctor}', f'constructor:{form}', f'constructor:{fmt}')
            term = f'rt_ok {lit.vlist(labels)} {labels_lit} {lit.lst([lit.oframe(f) for f in frames])} {read_lit}'
            yield Case('api:constructors',
                       {'format': fmt, 'constructor': f'Bus.{ctor}', 'configuration': form, 'labels': labels, 'kinds': kinds,
                        'max_persist': mp, 'labels_read': got_labels,
                        'call': f'Bus.{ctor}(..., config=cfg).to_{fmt}(fp); Bus.from_{fmt}(fp, config=cfg, max_persist).items(); .equals(...)'},
                       m=term, s=term, py_fail=py_fail,
                       tags={'stratum': 'constructors', 'format': fmt, 'ctor': ctor, 'form': form})


def dtypes_finding_cases(ctx, work):
    """KNOWN FINDING C17-dtypes-mixed-column-depth: Bus.dtypes raises once Frames with column indexes of different depth are loaded."""
    rng = ctx.rng
    for i in range(ctx.n(3, 20)):
        fmt = FORMATS[i % len(FORMATS)]
        order = rng.sample([_label(r) for r in range(8)], 3)
        kinds = ['ih_cols', rng.choice(['str_idx', 'mixed', 'one']), rng.choice(kinds_pool(fmt))]     # by construction: depths 2 and 1
        rng.shuffle(kinds)
        env = Env(work.tmp, work.name('dt'), fmt, order, kinds, fmt != 'zip_pickle', rng)
        ops, trace = run_history(env, None, [('values',), ('dtypes',)])
        ctx.count('finding:dtypes-mixed-column-depth')
        yield history_case('finding:dtypes-mixed-depth', env, None, ops, trace,
                           tags={'finding': 'C17-dtypes-mixed-column-depth', 'format': fmt})


def cases(ctx):
    work = Work()
    try:
        yield from regression_cases(ctx, work)
        yield from dtypes_finding_cases(ctx, work)
        yield from store_reader_cases(ctx)
        yield from roundtrip_cases(ctx, work)
        yield from roundtrip_label_cases(ctx, work)
        yield from constructor_cases(ctx, work)
        yield from init_cases(ctx, work)
        yield from malformed_cases(ctx, work)
        yield from wide_slice_cases(ctx, work)
        yield from pickle_class_cases(ctx, work)
        yield from stale_cases(ctx, work)
        yield from random_cases(ctx, work, kernel=False)
        yield from random_cases(ctx, work, kernel=True)
        yield from exhaustive_cases(ctx, work)
    finally:
        work.close()
