'''C12 -- sorting permutes whole rows, orders the keys, and is stable.'''
import ast
import itertools
import os

import numpy as np

from .. import lit
from .. import zoo
from ..core import Case

ID = 'C12'
MANIFEST = {
    'text': ('Coq theorems (unbounded, any key type with a total preorder / any Frame): C12_stable_arrangement_unique (a sorted arrangement that keeps every '
             'class of equal keys in input order is unique, hence exact row order is determined), C12_mergesort_is_stable_sort (merge sort = the specification sort), '
             'C12_lexsort_is_lex_stable (np.lexsort-style successive stable passes = ONE stable sort under the lexicographic order: the LSD theorem), '
             'C12_order_sorted_stable_permutation (the specified order is a permutation of 0..n-1, keys non-decreasing lexicographically, ties in input order; descending keys non-increasing), '
             'C12_rows_travel_whole / C12_cols_travel_whole / C12_series_items_travel_whole ((label,row) associations of the result are a Permutation of the input; columns, dtypes, name unchanged), '
             'C12_sifo_refines / C12_fsv_order_refines / C12_frame_sort_values_refines / C12_series_sort_values_refines (the implementation model of sort_index_for_order, Frame.sort_values, '
             'Series.sort_values -- with loop directions, lexsort threshold and order[::-1] REGENERATED from the source text into Gen/Gen_c12.v on every run -- equals the specification for every input in the stated domain), '
             'C12_default_kind_stable (every sort method\'s effective default kind, regenerated, is in the stable set). '
             'C12_frame_sort_values_rejects_wrong_length / C12_sort_index_family_rejects_wrong_length (with the REGENERATED length checks, a key result of the wrong extent is always rejected with RuntimeError, whatever its class or content). '
             'C12_go_key_vectors_current (grow-only hierarchical index, any history of append/extend/reads: with the REGENERATED refresh condition of IndexHierarchy.values_at_depth and the flag updates of IndexHierarchyGO.append/extend, the lexsort keys are those of the current labels). '
             'Correspondence: API-level runs of Series/Frame/Index/IndexHierarchy sort_index, sort_columns, sort_values, sort over all block layouts, both axes, both directions, '
             '1-3 keys / depths, key functions returning arrays and containers; kernel-level runs of sort_index_for_order; oracle sweeps of np.argsort(mergesort) and np.lexsort; malformed key-function results.'),
    'note': ('trusted: Coq kernel, harness, the AST extractor generate() of this module (fail closed), the oracle contract "np.argsort(kind=mergesort/stable) and each np.lexsort pass return the stable sorted arrangement under '
             'val_leb" (validated by the oracle strata each run, exhaustive for small lists). Modelled, not proved about the code: that index[order] / blocks.iloc[order] take whole rows (C03/C04 territory; observed through the full result frame), '
             'label->position resolution of the sort_values label argument, dtype consolidation of a row (axis 0) which is assumed order-preserving (exact for the generated values). '
             'Known findings (model follows the code, spec does not): 2-D one-column key arrays in sort_index_for_order; non-tree-ordered results on hierarchical axes. Frame.sort_values(axis=0) without key on a Frame with no columns leaks StopIteration (modelled; guard fsv_zero_ok). NOT covered: kind arguments other than the stable ones (quicksort/heapsort are outside the property); complex and object-with-None keys (NumPy/Python raise or have no total order); mixed str/number key rows; Bus.sort_* is compared through the Series-of-Frames model (frames identified by a cell value), Batch.sort_* per yielded Frame, both only with in-scope arguments; label->position resolution of every selector kind is done by the harness (the model receives positions); result class / index class / level classes / names are checked on the Python side only; IndexHierarchyGO.extend into an existing outer group (C09); the block walk of index[order] / blocks.iloc[order] (C03/C04). Repaired (regression case kept): Series.sort_values did not validate the key result length (fix 2c1ccba).'),
    'technique': 'uniqueness of the stable sorted arrangement + LSD theorem + refinement of a source-parameterised implementation model; differential correspondence by vm_compute',
}
PROPERTY_FILES = ['Properties/C12.v']
REFUTED_FILES = ['Refuted/C12.v']
MODEL_FILES = ['SF/SortModel.v', 'Gen/Gen_c12.v']
TRANSLATED = ['DEFAULT_SORT_KIND', 'DEFAULT_STABLE_SORT_KIND']
IMPORTS = 'Require Import SF.Prelude SF.Dtype SF.Value SF.PyDyn SF.SortCore SF.SortModel Gen.Gen_util Gen.Gen_c12.'
RULE = ('oracle strata: every key list up to a length bound over 3 values (+NaN) per dtype through np.argsort(kind=mergesort) / np.lexsort, plus random long lists with few distinct keys; '
        'kernel stratum: sort_index_for_order called directly on flat and hierarchical indices with/without key functions; api strata: public sort_* calls on generated Series/Frames '
        '(duplicate, negative, NaN, string, bool keys; 1-3 key columns / index depths; both axes; both directions; every block layout of small frames); malformed stream: key results of wrong length. '
        'api:routes.*: every label-argument kind of Frame.sort_values (loc slice, Boolean array, ndarray, Index, ILoc int/list/slice, HLoc, explicit stable kinds), extra dtype kinds (uint8/uint64/int8/float32/float16/bytes/datetime64 and timedelta64 units with NaT) on Series/Frame/HE/GO classes and both axes, datetime index classes of every unit (+GO), date-typed levels of hierarchical indices (rows and columns), default auto indices with a loc read-back, Bus.sort_index/sort_values (in memory and store-backed max_persist=1), Batch.sort_*, zero-sized and 1-wide shapes in every layout. '
        'api:go-sort: FrameGO / IndexGO / IndexHierarchyGO with histories [materialise] -> grow (setitem/append/extend) -> sort as the FIRST read, specified on the current content built independently; then the input and the result are grown in turn and the other re-snapshotted (no shared mutable index); kernel:ih-cache: values_at_depth as first read after growth against the cache model. '
        'A case is non-trivial when the specified order is neither the identity nor its plain reverse, or when it exercises ties (stability); distinct = distinct (call, input, key function, direction).')
ASSUMPTIONS = [
    'np.argsort(kind="mergesort") and every pass of np.lexsort return the stable sorted arrangement under val_leb (numbers by value, NaN last, strings by code point); validated by oracle:* strata',
    'the key function is a pure function of the container it receives',
    'casting a row of mixed int/float/bool columns to its common dtype preserves the order of the generated values (small integers, dyadic floats)',
    'Python int = Z',
]
TRUSTED = ['tools/sfv/props/c12.py generate(): AST extraction of range directions, lexsort threshold, order[::-1], the Series.sort_values key-length check and kind defaults (fails closed on any other shape)']
EXHAUSTIVE = {'quick': False, 'thorough': False}
GENERATED_FILES = ['Gen/Gen_c12.v']      # overwritten with a broken stub by targets.py when generate() raises

P = 'code_params'

# =========================================================================== generate(): source -> Gen/Gen_c12.v
_CU = 'static_frame/core/container_util.py'
_FR = 'static_frame/core/frame.py'
_SE = 'static_frame/core/series.py'
_IX = 'static_frame/core/index.py'
_IH = 'static_frame/core/index_hierarchy.py'


def _func(tree, qual):
    parts = qual.split('.')
    body = tree.body
    node = None
    for p in parts:
        node = next((n for n in body if isinstance(n, (ast.FunctionDef, ast.ClassDef)) and n.name == p), None)
        if node is None:
            raise ValueError(f'{qual}: not found')
        body = node.body
    if not isinstance(node, ast.FunctionDef):
        raise ValueError(f'{qual}: not a function')
    return node


def _range_dir(call, extents):
    '''range(X - 1, -1, -1) -> RangeDown ; range(X) / range(0, X) -> RangeUp ; anything else raises.'''
    if not (isinstance(call, ast.Call) and isinstance(call.func, ast.Name) and call.func.id == 'range' and not call.keywords):
        raise ValueError(f'not a range call: {ast.unparse(call)}')
    a = [ast.unparse(x) for x in call.args]
    for ext in extents:
        if a == [f'{ext} - 1', '-1', '-1']:
            return 'RangeDown'
        if a == [ext] or a == ['0', ext] or a == ['0', ext, '1']:
            return 'RangeUp'
    raise ValueError(f'unexpected range arguments {a}')


def _lex_comps(fn, expected):
    '''The list comprehensions assigned to values_for_lex, in source order; expected = [(elt text, extents)].'''
    comps = []
    for n in ast.walk(fn):
        if isinstance(n, ast.Assign) and len(n.targets) == 1 and ast.unparse(n.targets[0]) == 'values_for_lex' and isinstance(n.value, ast.ListComp):
            comps.append(n.value)
    comps.sort(key=lambda c: c.lineno)
    if len(comps) != len(expected):
        raise ValueError(f'{fn.name}: {len(comps)} values_for_lex comprehensions, expected {len(expected)}')
    out = []
    for c, (elt, extents) in zip(comps, expected):
        if len(c.generators) != 1 or c.generators[0].ifs or ast.unparse(c.generators[0].target) != 'i':
            raise ValueError(f'{fn.name}: unexpected comprehension {ast.unparse(c)}')
        if ast.unparse(c.elt) != elt:
            raise ValueError(f'{fn.name}: comprehension element {ast.unparse(c.elt)!r}, expected {elt!r}')
        out.append(_range_dir(c.generators[0].iter, extents))
    return out


def _desc_reverse(fn):
    '''`if not ascending: order = order[::-1]` must be present exactly once, after the order is computed.'''
    hits = [n for n in ast.walk(fn) if isinstance(n, ast.If) and ast.unparse(n.test) == 'not ascending']
    if len(hits) != 1:
        raise ValueError(f'{fn.name}: {len(hits)} `if not ascending` statements')
    h = hits[0]
    if h.orelse or len(h.body) != 1 or ast.unparse(h.body[0]) != 'order = order[::-1]':
        raise ValueError(f'{fn.name}: descending handling is {ast.unparse(h)!r}')
    return 'true'


def _calls(fn, name):
    return [n for n in ast.walk(fn) if isinstance(n, ast.Call) and ast.unparse(n.func) == name]


def _kind_default(fn):
    args = fn.args
    names = [a.arg for a in args.args]
    if 'kind' in names:
        i = names.index('kind') - (len(names) - len(args.defaults))
        d = args.defaults[i] if i >= 0 else None
    else:
        kw = [a.arg for a in args.kwonlyargs]
        if 'kind' not in kw:
            raise ValueError(f'{fn.name}: no kind parameter')
        d = args.kw_defaults[kw.index('kind')]
    return d


def _kind_expr(node, fn_default):
    '''Coq pv expression of the kind a call site passes: `kind=kind` -> the function default.'''
    if node is None:
        return '(PStr "quicksort")'      # NumPy's own default when no kind is passed
    if isinstance(node, ast.Name) and node.id == 'kind':
        return fn_default
    if isinstance(node, ast.Name) and node.id in ('DEFAULT_SORT_KIND', 'DEFAULT_STABLE_SORT_KIND'):
        return node.id
    if isinstance(node, ast.Constant) and isinstance(node.value, str):
        return f'(PStr {lit.s(node.value)})'
    raise ValueError(f'unexpected kind expression {ast.unparse(node)}')


def _kw(call, name):
    for k in call.keywords:
        if k.arg == name:
            return k.value
    return None


def generate(repo):
    def parse(rel):
        with open(os.path.join(repo, rel)) as f:
            return ast.parse(f.read())
    cu, fr, se, ix, ih = parse(_CU), parse(_FR), parse(_SE), parse(_IX), parse(_IH)

    sifo = _func(cu, 'sort_index_for_order')
    sifo_arr, sifo_idx = _lex_comps(sifo, [('cfs[NULL_SLICE, i]', ['cfs.shape[1]']), ('cfs.values_at_depth(i)', ['cfs.depth'])])
    thr = None
    for n in ast.walk(sifo):
        if isinstance(n, ast.If) and isinstance(n.test, ast.Compare) and ast.unparse(n.test.left) == 'cfs_depth':
            if len(n.test.ops) == 1 and isinstance(n.test.comparators[0], ast.Constant) and isinstance(n.test.comparators[0].value, int):
                k = n.test.comparators[0].value
                if isinstance(n.test.ops[0], ast.Gt):
                    thr = k
                elif isinstance(n.test.ops[0], ast.GtE):
                    thr = k - 1
            if thr is None:
                raise ValueError(f'sort_index_for_order: unexpected depth test {ast.unparse(n.test)}')
            body = ast.unparse(n.body)
            if 'np.lexsort(values_for_lex)' not in body or 'np.argsort' not in ast.unparse(n.orelse):
                raise ValueError('sort_index_for_order: depth test does not select lexsort / argsort')
    if thr is None:
        raise ValueError('sort_index_for_order: no `cfs_depth > k` test')
    if len(_calls(sifo, 'np.lexsort')) != 1 or ast.unparse(_calls(sifo, 'np.lexsort')[0]) != 'np.lexsort(values_for_lex)':
        raise ValueError('sort_index_for_order: np.lexsort(values_for_lex) not found')
    sifo_argsort = _calls(sifo, 'np.argsort')
    if len(sifo_argsort) != 1:
        raise ValueError('sort_index_for_order: np.argsort call not found')
    sifo_desc = _desc_reverse(sifo)
    if [a.arg for a in sifo.args.args] != ['index', 'ascending', 'kind', 'key']:
        raise ValueError('sort_index_for_order: signature changed')

    fsv = _func(fr, 'Frame.sort_values')
    fsv0_arr, fsv0_frame, fsv1_arr, fsv1_frame = _lex_comps(fsv, [
        ('cfs[i]', ['cfs.shape[0]']),
        ('cfs._extract_array(row_key=i)', ['cfs.shape[0]']),
        ('cfs[:, i]', ['cfs.shape[1]']),
        ('cfs._extract_array(column_key=i)', ['cfs.shape[1]']),
    ])
    fsv_desc = _desc_reverse(fsv)
    if [ast.unparse(c) for c in _calls(fsv, 'np.lexsort')] != ['np.lexsort(values_for_lex)']:
        raise ValueError('Frame.sort_values: np.lexsort(values_for_lex) not found')
    fsv_argsort = _calls(fsv, 'np.argsort')
    if len(fsv_argsort) != 1:
        raise ValueError('Frame.sort_values: np.argsort call not found')

    ssv = _func(se, 'Series.sort_values')
    ssv_desc = _desc_reverse(ssv)
    ssv_argsort = _calls(ssv, 'np.argsort')
    if len(ssv_argsort) != 1:
        raise ValueError('Series.sort_values: np.argsort call not found')
    # the key result's length is validated: `if key: ... if len(cfs_values) != len(self.values): raise RuntimeError(..)`
    ssv_len_check = 'false'
    for n in ssv.body:
        if isinstance(n, ast.If) and ast.unparse(n.test) == 'key':
            for m in n.body:
                if (isinstance(m, ast.If) and ast.unparse(m.test) in ('len(cfs_values) != len(self.values)', 'len(cfs_values) != len(self)', 'len(cfs_values) != len(self._index)')
                        and len(m.body) == 1 and isinstance(m.body[0], ast.Raise) and not m.orelse
                        and isinstance(m.body[0].exc, ast.Call) and ast.unparse(m.body[0].exc.func) == 'RuntimeError'):
                    ssv_len_check = 'true'

    # effective default kind of every public sort method
    def default_expr(fn):
        d = _kind_default(fn)
        if d is None:
            raise ValueError(f'{fn.name}: kind has no default')
        return _kind_expr(d, None)

    kinds = []
    sifo_kind_of = lambda passed_default: _kind_expr(_kw(sifo_argsort[0], 'kind'), passed_default)
    for label, tree, qual in (('Frame.sort_index', fr, 'Frame.sort_index'), ('Frame.sort_columns', fr, 'Frame.sort_columns'),
                              ('Series.sort_index', se, 'Series.sort_index'), ('Index.sort', ix, 'Index.sort'),
                              ('IndexHierarchy.sort', ih, 'IndexHierarchy.sort')):
        fn = _func(tree, qual)
        calls = _calls(fn, 'sort_index_for_order')
        if len(calls) != 1:
            raise ValueError(f'{qual}: sort_index_for_order call not found')
        c = calls[0]
        kw = {k.arg: ast.unparse(k.value) for k in c.keywords}
        if kw.get('ascending') != 'ascending' or kw.get('key') != 'key' or len(c.args) != 1:
            raise ValueError(f'{qual}: unexpected arguments {ast.unparse(c)}')
        passed = _kind_expr(_kw(c, 'kind'), default_expr(fn)) if _kw(c, 'kind') is not None else None
        if passed is None:
            raise ValueError(f'{qual}: kind not passed to sort_index_for_order')
        kinds.append((label, sifo_kind_of(passed)))
    kinds.append(('Frame.sort_values', _kind_expr(_kw(fsv_argsort[0], 'kind'), default_expr(fsv))))
    kinds.append(('Series.sort_values', _kind_expr(_kw(ssv_argsort[0], 'kind'), default_expr(ssv))))

    # validation of the key function's result: which extent is compared with which, and that RuntimeError is raised
    def guard(fn, test_text):
        hits = [n for n in ast.walk(fn) if isinstance(n, ast.If) and ast.unparse(n.test) == test_text and len(n.body) == 1 and not n.orelse
                and isinstance(n.body[0], ast.Raise) and isinstance(n.body[0].exc, ast.Call) and ast.unparse(n.body[0].exc.func) == 'RuntimeError']
        return 'true' if len(hits) == 1 else 'false'
    sifo_len = guard(sifo, 'len(cfs) != len(index)')
    fsv0_len = guard(fsv, 'cfs.ndim == 1 and len(cfs) != self.shape[1] or (cfs.ndim == 2 and cfs.shape[1] != self.shape[1])')
    fsv1_len = guard(fsv, 'cfs.ndim == 1 and len(cfs) != self.shape[0] or (cfs.ndim == 2 and cfs.shape[0] != self.shape[0])')

    # grow-only hierarchical index: refresh condition of values_at_depth, flag updates of append/extend
    vad = _func(ih, 'IndexHierarchy.values_at_depth')
    first = next((n for n in vad.body if not (isinstance(n, ast.Expr) and isinstance(n.value, ast.Constant))), None)
    if not (isinstance(first, ast.If) and not first.orelse and [ast.unparse(x) for x in first.body] == ['self._update_array_cache()']):
        raise ValueError('IndexHierarchy.values_at_depth: no leading `if ...: self._update_array_cache()`')
    cond = ast.unparse(first.test)
    if cond == 'self._recache':
        vad_refresh = 'RefreshOnRecache'
    elif cond in ('self._blocks is None', 'not self._blocks'):
        vad_refresh = 'RefreshOnMissingTable'
    else:
        raise ValueError(f'IndexHierarchy.values_at_depth: unexpected refresh condition {cond!r}')
    if not any(ast.unparse(x.func) == 'self._blocks._extract_array' for x in ast.walk(vad) if isinstance(x, ast.Call)):
        raise ValueError('IndexHierarchy.values_at_depth does not read self._blocks')
    uac = _func(ih, 'IndexHierarchy._update_array_cache')
    if [ast.unparse(x) for x in uac.body] != ['self._blocks = self._levels.to_type_blocks()', 'self._recache = False']:
        raise ValueError('IndexHierarchy._update_array_cache: unexpected body')
    def sets_recache(qual, grow):
        fn = _func(ih, qual)
        body = [ast.unparse(x) for x in fn.body if not (isinstance(x, ast.Expr) and isinstance(x.value, ast.Constant))]
        if not body or not body[0].startswith(grow):
            raise ValueError(f'{qual}: unexpected body {body}')
        return 'true' if 'self._recache = True' in body else 'false'
    app_flag = sets_recache('IndexHierarchyGO.append', 'self._levels.append(')
    ext_flag = sets_recache('IndexHierarchyGO.extend', 'self._levels.extend(')

    text = [
        '(* GENERATED by tools/sfv/props/c12.py generate() from static_frame/core/{container_util,frame,series,index,index_hierarchy}.py',
        '   -- do not edit; regenerated on every run. *)',
        'Require Import SF.Prelude SF.PyDyn SF.SortCore Gen.Gen_util.',
        'Local Open Scope string_scope.',
        '',
        '(* loop directions of the values_for_lex comprehensions, the `cfs_depth > k` test and the',
        '   `if not ascending: order = order[::-1]` statements, presence of the key-length check in Series.sort_values *)',
        'Definition code_params : sort_params :=',
        f'  mk_sort_params {sifo_arr} {sifo_idx} {lit.z(thr)} {sifo_desc} {fsv0_arr} {fsv0_frame} {fsv1_arr} {fsv1_frame} {fsv_desc} {ssv_desc} {ssv_len_check} {sifo_len} {fsv0_len} {fsv1_len}.',
        '',
        '(* IndexHierarchy.values_at_depth refresh condition; IndexHierarchyGO.append / extend set _recache *)',
        f'Definition code_cache_params : cache_params := mk_cache_params {vad_refresh} {app_flag} {ext_flag}.',
        '',
        '(* effective default sort kind reaching np.argsort for every public sort method *)',
        'Definition sort_kind_defaults : list (string * pv) :=',
        '  [' + ';\n   '.join(f'({lit.s(l)}, {e})' for l, e in kinds) + '].',
        '',
    ]
    return {'Gen/Gen_c12.v': '\n'.join(text)}


# =========================================================================== literals
def vecs_lit(vecs):
    return lit.lst([lit.vlist(v) for v in vecs])


def nat_list(xs):
    return '[' + '; '.join(f'{int(x)}%nat' for x in xs) + ']'


def order_obs(fn):
    '''Run fn -> integer array; print (Ok [..]) / (Err cls). A 2-D "order" is reported as Err "Order2D".'''
    try:
        out = fn()
    except Exception as e:  # noqa
        return f'(Err {lit.s(lit.err_class(e))})', e
    out = np.asarray(out)
    if out.ndim != 1:
        return '(Err "Order2D")', out
    return '(Ok ' + lit.lst([lit.z(x) for x in out.tolist()]) + ')', out


def pyvals(a):
    '''1-D array -> Python scalars.'''
    return lit.array_vals(np.asarray(a))


def cfs_lit(obj, axis0=False):
    '''Classify what a key function returned the way the code does. axis0: Frame.sort_values(axis=0), key vectors are rows.'''
    import static_frame as sf
    if obj.__class__ is np.ndarray:
        if obj.ndim == 1:
            return f'(CArr1 {lit.vlist(pyvals(obj))})'
        if obj.ndim == 2:
            if axis0:
                return f'(CArr2 {obj.shape[1]}%nat {vecs_lit([pyvals(obj[i]) for i in range(obj.shape[0])])})'
            return f'(CArr2 {obj.shape[0]}%nat {vecs_lit([pyvals(obj[:, j]) for j in range(obj.shape[1])])})'
        raise ValueError('array of ndim > 2')
    if isinstance(obj, sf.Series):
        return f'(CSeries {lit.vlist(pyvals(obj.values))})'
    if isinstance(obj, sf.Frame):
        if axis0:
            return f'(CFrame {obj.shape[1]}%nat {vecs_lit([pyvals(obj.iloc[i].values) for i in range(obj.shape[0])])})'
        return f'(CFrame {obj.shape[0]}%nat {vecs_lit([pyvals(obj.iloc[:, j].values) for j in range(obj.shape[1])])})'
    if isinstance(obj, sf.IndexHierarchy):
        return f'(CIH {len(obj)}%nat {vecs_lit([pyvals(obj.values_at_depth(d)) for d in range(obj.depth)])})'
    if isinstance(obj, sf.Index):
        return f'(CIndex {lit.vlist(pyvals(obj.values))})'
    raise ValueError(f'no cfs literal for {type(obj).__name__}')


def opt(x):
    return 'None' if x is None else f'(Some {x})'


# =========================================================================== value generators
INTS = [-3, -1, 0, 1, 2, 7]
FLOATS = [-1.5, -1.0, 0.0, 0.5, 2.0, float('nan')]
STRS = ['a', 'b', 'ab', 'B', 'ba', 'c']
KINDS = ('int', 'float', 'str', 'bool')


def gen_col(rng, kind, n, distinct=3):
    '''A column with few distinct values (ties are the point).'''
    if kind == 'int':
        pool = rng.sample(INTS, min(distinct, len(INTS)))
        return np.array([rng.choice(pool) for _ in range(n)], dtype=np.int64)
    if kind == 'float':
        pool = rng.sample(FLOATS, min(distinct, len(FLOATS)))
        return np.array([rng.choice(pool) for _ in range(n)], dtype=np.float64)
    if kind == 'str':
        pool = rng.sample(STRS, min(distinct, len(STRS)))
        return np.array([rng.choice(pool) for _ in range(n)] or [], dtype='<U2')
    if kind == 'bool':
        return np.array([rng.random() < 0.5 for _ in range(n)], dtype=bool)
    raise ValueError(kind)


def flat_labels(rng, n, kind):
    if kind == 'int':
        return rng.sample(range(-4, 12), n)
    if kind == 'str':
        pool = [a + b for a in 'abcB' for b in ('', 'a', 'z')]
        return rng.sample(pool, n)
    if kind == 'float':
        pool = [-2.5, -1.0, 0.0, 0.5, 1.0, 3.0, 4.5, 8.0]
        return rng.sample(pool, n)
    raise ValueError(kind)


def tree_shuffle(rng, tuples):
    '''Arrange unique tuples in tree form (equal prefixes contiguous) with a random, unsorted group order.'''
    if not tuples or len(tuples[0]) == 1:
        out = list(tuples)
        rng.shuffle(out)
        return out
    groups = {}
    for t in tuples:
        groups.setdefault(t[0], []).append(t[1:])
    keys = list(groups)
    rng.shuffle(keys)
    out = []
    for k in keys:
        for rest in tree_shuffle(rng, groups[k]):
            out.append((k,) + rest)
    return out


def hier_labels(rng, n, depth):
    '''n unique label tuples of the given depth, tree-ordered but not sorted; level kinds mixed per depth.'''
    level_pools = []
    for d in range(depth):
        kind = rng.choice(('int', 'str'))
        level_pools.append([-1, 0, 2, 5][:3] if kind == 'int' else ['a', 'b', 'B'])
    space = list(itertools.product(*level_pools))
    return tree_shuffle(rng, rng.sample(space, min(n, len(space))))


def mk_index(labels, depth, name=None):
    import static_frame as sf
    if depth == 1:
        return sf.Index(labels, name=name)
    return sf.IndexHierarchy.from_labels(labels, name=name)


def is_tree_form(rows):
    '''IndexHierarchy accepts a label sequence only when every earlier-seen prefix continues the preceding row.'''
    if not rows:
        return True
    depth = len(rows[0])
    seen = [set() for _ in range(depth)]
    prev = None
    for r in rows:
        for d in range(depth - 1):
            pre = r[:d + 1]
            if pre in seen[d] and (prev is None or prev[d] != r[d]):
                return False
        for d in range(depth - 1):
            seen[d].add(r[:d + 1])
        prev = r
    return True


def np_order(keys, asc):
    '''NumPy reference order (used ONLY to classify inputs for tags / non-triviality, never as the verdict).'''
    if not keys or len(keys[0]) == 0:
        return []
    arrs = [np.array(k) for k in keys]
    o = np.lexsort(arrs[::-1]) if len(arrs) > 1 else np.argsort(arrs[0], kind='mergesort')
    o = o.tolist()
    return o if asc else o[::-1]


def nontrivial(keys, n):
    o = np_order(keys, True)
    return o != list(range(n)) or has_ties(keys)


def has_ties(keys):
    rows = list(zip(*[[repr(x) for x in k] for k in keys])) if keys else []
    return len(set(rows)) < len(rows)


# =========================================================================== key functions
# a key function is described by (name, kf) with kf: tuple of Python scalars -> tuple of Python scalars (pure, per item),
# and an output container kind; the callable handed to the implementation applies kf to what IT is given.
def _num(x):
    return int(x) if isinstance(x, (bool, np.bool_)) else x


def kf_neg(t):
    return tuple(-_num(x) for x in t)


def kf_mod2(t):
    return tuple((_num(x) % 2) if _num(x) == _num(x) and abs(_num(x)) != float('inf') else _num(x) for x in t)


def kf_const(t):
    return (0,)


def kf_first(t):
    return (t[0],)


def kf_swap(t):
    return tuple(reversed(t))


def kf_len(t):
    return tuple(len(x) for x in t)


def kf_last(t):
    return tuple(x[-1:] for x in t)


def kf_ident(t):
    return tuple(t)


KF_NUM = [('neg', kf_neg), ('mod2', kf_mod2), ('const', kf_const), ('first', kf_first), ('swap', kf_swap), ('ident', kf_ident)]
KF_STR = [('len', kf_len), ('last', kf_last), ('const', kf_const), ('first', kf_first), ('swap', kf_swap), ('ident', kf_ident)]


def items_of(obj, axis0=False):
    '''The items (as tuples of Python scalars) of the container a key function receives.'''
    import static_frame as sf
    if isinstance(obj, sf.IndexHierarchy):
        return [tuple(r) for r in obj.values.tolist()] if len(obj) else []
    if isinstance(obj, sf.Index):
        return [(v,) for v in pyvals(obj.values)]
    if isinstance(obj, sf.Series):
        return [(v,) for v in pyvals(obj.values)]
    if isinstance(obj, sf.Frame):
        cols = [pyvals(obj.iloc[:, j].values) for j in range(obj.shape[1])]
        if axis0:
            return [tuple(c) for c in cols]
        return [tuple(c[i] for c in cols) for i in range(obj.shape[0])]
    raise ValueError(type(obj).__name__)


def build_keyres(keys, out, n_other=None, axis0=False):
    '''keys: list of key tuples (one per item). out: container kind. Returns the object the key function returns.'''
    import static_frame as sf
    m = len(keys[0]) if keys else 1
    vecs = [[k[j] for k in keys] for j in range(m)]
    if out == 'arr1':
        return np.array(vecs[0]) if keys else np.array([], dtype=np.int64)
    if out == 'arr2':
        a = np.array(keys) if keys else np.empty((0, m), dtype=np.int64)
        a = a.reshape(len(keys), m)
        return a.T if axis0 else a
    if out == 'series':
        return sf.Series(vecs[0])
    if out == 'frame':
        f = sf.Frame.from_fields(vecs) if keys else sf.Frame.from_fields([[] for _ in range(m)])
        return f.transpose() if axis0 else f
    if out == 'index':
        return sf.Index(vecs[0])
    if out == 'ih':
        return sf.IndexHierarchy.from_labels(keys)
    raise ValueError(out)


class KeyFn:
    '''Callable handed to the implementation; records what it received and returned.'''

    def __init__(self, kf, out, axis0=False, mangle=None):
        self.kf, self.out, self.axis0, self.mangle = kf, out, axis0, mangle
        self.returned = None
        self.calls = 0
        self.reader = None          # how the key function reads the container it is given (default: items_of)

    def __call__(self, obj):
        self.calls += 1
        keys = [tuple(self.kf(t)) for t in (self.reader or items_of)(obj, self.axis0)]
        r = build_keyres(keys, self.out, axis0=self.axis0)
        if self.mangle is not None:
            r = self.mangle(r)
        self.returned = r
        return r


def key_vectors(items, kf):
    keys = [tuple(kf(t)) for t in items]
    m = len(keys[0]) if keys else 1
    return [[k[j] for k in keys] for j in range(m)]


# =========================================================================== strata
def oracle_cases(ctx):
    '''np.argsort(kind=mergesort) and np.lexsort against the oracle models (NumPy is not static-frame).'''
    from static_frame.core.util import DEFAULT_SORT_KIND
    L = 4 if ctx.tier == 'quick' else 6
    alph = {
        'int64': ([-1, 0, 3], np.int64),
        'int8': ([-1, 0, 3], np.int8),
        'float64': ([-1.5, 2.0, float('nan')], np.float64),
        'U': (['a', 'B', 'ab'], '<U2'),
        'bool': ([False, True], bool),
        'object': ([-1, 0, True], object),
    }
    for name, (vals, dt) in alph.items():
        top = L if name not in ('bool',) else L + 1
        if ctx.tier == 'quick' and name in ('int8', 'object'):
            top = 3
        for n in range(0, top + 1):
            for combo in itertools.product(vals, repeat=n):
                a = np.array(combo, dtype=dt) if n else np.array([], dtype=dt)
                obs, _ = order_obs(lambda: np.argsort(a, kind=DEFAULT_SORT_KIND))
                ctx.count(f'oracle:argsort:{name}')
                keys = pyvals(a)
                yield Case('oracle:np.argsort', {'call': f'np.argsort(np.array({list(combo)!r}, dtype={name}), kind=DEFAULT_SORT_KIND)', 'observed': obs},
                           m=f'order_eqb (Ok (np_argsort {lit.vlist(keys)})) {obs}',
                           tags={'oracle': 'argsort'}, nontrivial=len(set(map(repr, combo))) < n)
    # lexsort: two keys, exhaustive small
    L2 = 3 if ctx.tier == 'quick' else 4
    pairs = list(itertools.product([0, 1], [-1.0, 0.5, float('nan')]))
    for n in range(0, L2 + 1):
        for combo in itertools.product(pairs, repeat=n):
            k0 = np.array([c[0] for c in combo], dtype=np.int64)
            k1 = np.array([c[1] for c in combo], dtype=np.float64)
            obs, _ = order_obs(lambda: np.lexsort([k0, k1]))
            ctx.count('oracle:lexsort:2')
            yield Case('oracle:np.lexsort', {'call': f'np.lexsort([{k0.tolist()!r}, {k1.tolist()!r}])', 'observed': obs},
                       m=f'order_eqb (Ok (np_lexsort {vecs_lit([pyvals(k0), pyvals(k1)])})) {obs}',
                       tags={'oracle': 'lexsort'}, nontrivial=n > 1)
    # random long lists (beyond the insertion-sort thresholds of NumPy's stable sorts), few distinct keys
    rng = ctx.rng
    for _ in range(ctx.n(40, 500)):
        n = rng.randint(17, 90)
        nk = rng.choice((1, 1, 2, 3))
        keys = []
        for _k in range(nk):
            kind = rng.choice(KINDS)
            keys.append(gen_col(rng, kind, n, distinct=rng.randint(2, 5)))
        if rng.random() < 0.2:
            keys[0] = keys[0].astype(np.int8) if keys[0].dtype.kind == 'i' else keys[0]
        if nk == 1:
            obs, _ = order_obs(lambda: np.argsort(keys[0], kind=DEFAULT_SORT_KIND))
            m = f'order_eqb (Ok (np_argsort {lit.vlist(pyvals(keys[0]))})) {obs}'
            kind_ = 'oracle:np.argsort-long'
        else:
            obs, _ = order_obs(lambda: np.lexsort(keys))
            m = f'order_eqb (Ok (np_lexsort {vecs_lit([pyvals(k) for k in keys])})) {obs}'
            kind_ = 'oracle:np.lexsort-long'
        ctx.count(kind_ + f':{nk}')
        yield Case(kind_, {'keys': [[repr(x) for x in pyvals(k)] for k in keys], 'dtypes': [str(k.dtype) for k in keys], 'observed': obs},
                   m=m, tags={'oracle': 'long'})


def pick_index(rng, n, depth):
    '''(labels, depth) -- flat labels are scalars, hierarchical labels tuples.'''
    if depth == 1:
        return flat_labels(rng, n, rng.choice(('int', 'str', 'float')))
    return hier_labels(rng, n, depth)


def label_items(labels, depth):
    return [(l,) for l in labels] if depth == 1 else [tuple(l) for l in labels]


def pick_keyfn(rng, items, outs):
    '''Choose (name, kf, out) applicable to the items (tuples of scalars).'''
    allnum = all(not isinstance(x, str) for t in items for x in t)
    allstr = all(isinstance(x, str) for t in items for x in t)
    if allnum:
        pool = KF_NUM
    elif allstr:
        pool = KF_STR
    else:
        pool = [('const', kf_const), ('first', kf_first), ('swap', kf_swap), ('ident', kf_ident)]
    name, kf = rng.choice(pool)
    keys = [tuple(kf(t)) for t in items]
    m = len(keys[0]) if keys else 1
    homog = all(len({isinstance(k[j], str) for k in keys}) <= 1 for j in range(m)) and \
        (len({isinstance(x, str) for k in keys for x in k}) <= 1)
    ok = []
    for o in outs:
        if o in ('arr1', 'series', 'index') and m != 1:
            continue
        if o == 'arr2' and not homog:
            continue
        if o == 'index' and len(set(map(repr, keys))) != len(keys):
            continue
        if o == 'ih' and (m < 2 or len(set(map(repr, keys))) != len(keys) or not is_tree_form(keys)):
            continue
        ok.append(o)
    if not ok:
        return None
    return name, kf, rng.choice(ok)


def sifo_cases(ctx):
    '''kernel: container_util.sort_index_for_order called directly.'''
    from static_frame.core.container_util import sort_index_for_order
    from static_frame.core.util import DEFAULT_SORT_KIND
    rng = ctx.rng
    for _ in range(ctx.n(400, 4000)):
        depth = rng.choice((1, 1, 2, 2, 3))
        n = rng.randint(0, 7) if depth == 1 else rng.randint(1, 7)
        labels = pick_index(rng, n, depth)
        n = len(labels)
        idx = mk_index(labels, depth)
        asc = rng.random() < 0.5
        items = label_items(labels, depth)
        usekey = rng.random() < 0.6
        kfn = None
        if usekey:
            pk = pick_keyfn(rng, items, ('arr1', 'arr2', 'index', 'ih'))
            if pk is None:
                usekey = False
            else:
                name, kf, out = pk
                kfn = KeyFn(kf, out)
        if usekey:
            keys = key_vectors(items, kf)
            one_col_2d = out == 'arr2' and len(keys) == 1
        else:
            keys = [[t[d] for t in items] for d in range(depth)]
            one_col_2d = False
        with np.errstate(all='ignore'):
            obs, _ = order_obs(lambda: sort_index_for_order(idx, ascending=asc, kind=DEFAULT_SORT_KIND, key=kfn))
        keyres = None
        if usekey:
            keyres = cfs_lit(kfn.returned if kfn.returned is not None else build_keyres([tuple(kf(t)) for t in items], out))
        ctx.count(f'sifo:depth{depth}', f'sifo:key:{(name + "/" + out) if usekey else "none"}', f'sifo:n{n}', f'sifo:asc{int(asc)}')
        desc = {'call': 'container_util.sort_index_for_order(index, ascending, DEFAULT_SORT_KIND, key)', 'labels': [repr(l) for l in labels], 'depth': depth,
                'ascending': asc, 'key': (f'{name} -> {out}' if usekey else None), 'observed': obs}
        tags = {'op': 'sort_index_for_order', 'depth': depth}
        if one_col_2d:
            tags['finding'] = 'C12-key-2d-one-column'
        yield Case('kernel:sort_index_for_order', desc,
                   m=f'order_eqb (M_sifo_top {P} {depth}%nat {lit.vlist(labels)} {opt(keyres)} {lit.b(asc)}) {obs}',
                   s=f'order_eqb (Ok (S_order {vecs_lit(keys)} {n}%nat {lit.b(asc)})) {obs}',
                   tags=tags, nontrivial=nontrivial(keys, n))


# --------------------------------------------------------------------------- containers
def sframe_lit(f, idepth, cdepth):
    return f'(mk_sframe {lit.oframe(f)} {idepth}%nat {cdepth}%nat)'


def sseries_lit(sr, idepth):
    return f'(mk_sseries {lit.oseries(sr)} {idepth}%nat)'


def gen_kinds(rng, ncols, comparable=False):
    if comparable:
        if rng.random() < 0.25:
            return ['str'] * ncols
        return [rng.choice(('int', 'float', 'bool', 'int')) for _ in range(ncols)]
    return [rng.choice(KINDS) for _ in range(ncols)]


def gen_cols(rng, kinds, nrows):
    cols = [gen_col(rng, k, nrows, distinct=rng.randint(2, 4)) for k in kinds]
    if 'bool' in kinds and 'float' in kinds:
        # a row over bool+float columns is an object array: keep NaN out of it (Python comparisons with NaN are not an order)
        cols = [np.where(np.isnan(c), 0.5, c) if c.dtype.kind == 'f' else c for c in cols]
    return cols


def make_frame(rng, nrows, ncols, idepth=1, cdepth=1, comparable=False, layout=None, kinds=None):
    ilabels = pick_index(rng, nrows, idepth)
    nrows = len(ilabels)
    clabels = pick_index(rng, ncols, cdepth)
    ncols = len(clabels)
    kinds = kinds or gen_kinds(rng, ncols, comparable)
    cols = gen_cols(rng, kinds, nrows)
    if layout is None:
        layout = rng.choice(list(zoo.layouts_for([c.dtype for c in cols])))
    name = rng.choice((None, 'F', 7))
    f = zoo.frame_from_columns(cols, layout, index=mk_index(ilabels, idepth), columns=mk_index(clabels, cdepth), name=name)
    return f, cols, ilabels, clabels, kinds, layout


def hier_tag(tags, depth, labels, keys, asc):
    # tag the input class "hierarchical axis whose specified arrangement is not in tree form"
    if depth > 1 and labels:
        o = np_order(keys, asc)
        if not is_tree_form([tuple(labels[i]) for i in o]):
            tags['finding'] = 'C12-hier-untree'
    return tags


def run_obs(fn, printer):
    with np.errstate(all='ignore'):
        text, out = lit.res(fn, printer)
    return text, out


def keyres_of(kfn, items, axis0=False):
    if kfn is None:
        return None
    r = kfn.returned
    if r is None:
        keys = [tuple(kfn.kf(t)) for t in items]
        r = build_keyres(keys, kfn.out, axis0=axis0)
        if kfn.mangle is not None:
            r = kfn.mangle(r)
    return cfs_lit(r, axis0=axis0)


def frame_sort_values_case(ctx, rng, f, cols, ilabels, clabels, idepth, cdepth, layout, axis, sel, single, asc, kfspec, stratum, mangle=None, mangle_name=None,
                           recv=None, holder=None):
    # f: the frame the literals are printed from; recv (optional): callable performing the sort on another receiver holding the same content
    nrows, ncols = f.shape
    if axis == 1:
        label = clabels[sel[0]] if single else [clabels[j] for j in sel]
        items = [tuple(pyvals(cols[j])[i] for j in sel) for i in range(nrows)]
        n, depth, labels = nrows, idepth, ilabels
        default_keys = f'(map (col_vals {lit.oframe(f)}) {nat_list(sel)})'
        keyvecs_py = [pyvals(cols[j]) for j in sel]
    else:
        label = ilabels[sel[0]] if single else [ilabels[i] for i in sel]
        items = [tuple(pyvals(cols[j])[i] for i in sel) for j in range(ncols)]
        n, depth, labels = ncols, cdepth, clabels
        default_keys = f'(map (row_vals {lit.oframe(f)}) {nat_list(sel)})'
        keyvecs_py = [[pyvals(cols[j])[i] for j in range(ncols)] for i in sel]
    kfn = None
    if kfspec is not None:
        kname, kf, out = kfspec
        kfn = KeyFn(kf, out, axis0=(axis == 0), mangle=mangle)
        keyvecs_py = key_vectors(items, kf)
        keys_lit = vecs_lit(keyvecs_py)
    else:
        keys_lit = default_keys
    if recv is None:
        obs, out = run_obs(lambda: f.sort_values(label, ascending=asc, axis=axis, key=kfn), lit.oframe)
    else:
        obs, out = run_obs(lambda: recv(label, asc, axis, kfn), lit.oframe)
    if holder is not None:
        holder['obs'], holder['out'] = obs, out
    keyres = keyres_of(kfn, items, axis0=(axis == 0))
    tags = {'op': 'Frame.sort_values', 'axis': axis}
    desc = {'call': f'frame.sort_values({label!r}, ascending={asc}, axis={axis}, key={kfspec and kfspec[0] + "->" + kfspec[2]}{"/" + mangle_name if mangle_name else ""})',
            'frame': lit.oframe(f), 'layout': zoo.layout_str(layout), 'index_depth': idepth, 'columns_depth': cdepth, 'observed': obs}
    m = f'oframe_res_eqb (M_frame_sort_values {P} {axis} {sframe_lit(f, idepth, cdepth)} {nat_list(sel)} {lit.b(single)} {opt(keyres)} {lit.b(asc)}) {obs}'
    if mangle is not None:
        sterm = f'@res_is_err oframe {obs}'
        tags['malformed'] = mangle_name
        nt = True
    else:
        sterm = f'oframe_res_eqb (Ok (S_frame_sort {axis} {lit.oframe(f)} {keys_lit} {lit.b(asc)})) {obs}'
        hier_tag(tags, depth, labels, keyvecs_py, asc)
        nt = nontrivial(keyvecs_py, n)
    ctx.count(f'fsv:axis{axis}', f'fsv:nkeys{len(keyvecs_py)}', f'fsv:key:{kfspec[0] + "/" + kfspec[2] if kfspec else "none"}',
              f'fsv:asc{int(asc)}', f'fsv:shape{nrows}x{ncols}', f'layout:{zoo.layout_str(layout)}', f'fsv:depth{depth}')
    return Case(stratum, desc, m=m, s=sterm, tags=tags, nontrivial=nt)


def frame_values_cases(ctx):
    rng = ctx.rng
    for _ in range(ctx.n(450, 5000)):
        axis = rng.choice((1, 1, 0))
        idepth = rng.choice((1, 1, 1, 2, 3)) if axis == 1 else rng.choice((1, 1, 2))
        cdepth = rng.choice((1, 1, 2)) if axis == 1 else rng.choice((1, 1, 1, 2))
        nrows = rng.randint(0 if idepth == 1 else 1, 6)
        ncols = rng.randint(1, 4)
        f, cols, il, cl, kinds, layout = make_frame(rng, nrows, ncols, idepth, cdepth, comparable=(axis == 0))
        nrows, ncols = f.shape
        other = ncols if axis == 1 else nrows
        if other == 0:
            continue
        k = rng.randint(1, min(3, other))
        sel = rng.sample(range(other), k)
        single = k == 1 and rng.random() < 0.6
        asc = rng.random() < 0.5
        kfspec = None
        if rng.random() < 0.45:
            if (cdepth if axis == 1 else idepth) > 1:
                # the key function receives frame[selection]: a hierarchical selection must itself be tree-ordered (C04 limitation)
                sel = sorted(sel)
            if axis == 1:
                items = [tuple(pyvals(cols[j])[i] for j in sel) for i in range(nrows)]
            else:
                items = [tuple(pyvals(cols[j])[i] for i in sel) for j in range(ncols)]
            if items:
                outs = ('arr1', 'arr2', 'series', 'frame')
                kfspec = pick_keyfn(rng, items, outs)
        yield frame_sort_values_case(ctx, rng, f, cols, il, cl, idepth, cdepth, layout, axis, sel, single, asc, kfspec,
                                     f'api:frame.sort_values-axis{axis}')


def index_sort_pieces(rng, labels, depth, outs=('arr1', 'arr2', 'index', 'ih'), p_key=0.5):
    # common to sort_index / sort_columns / Index.sort: optional key function on the index
    items = label_items(labels, depth)
    kfspec = None
    if items and rng.random() < p_key:
        kfspec = pick_keyfn(rng, items, outs)
    if kfspec is not None:
        kname, kf, out = kfspec
        return KeyFn(kf, out), kfspec, key_vectors(items, kf), items
    return None, None, [[t[d] for t in items] for d in range(depth)], items


def one_col_2d(kfspec, keyvecs):
    return kfspec is not None and kfspec[2] == 'arr2' and len(keyvecs) == 1


def m_unless_2d_garbage(m, kfspec, keyvecs, depth, n):
    # A 2-D one-column key result makes sort_index_for_order return a 2-D "order" (kernel stratum: Err "Order2D").
    # What the callers then do with it is accidental (TypeError on flat axes; other errors, or even success for a
    # one-row IndexHierarchy): the model says TypeError and is compared only where that is the modelled path.
    if one_col_2d(kfspec, keyvecs) and (depth != 1 or n == 0):
        return None
    return m


def frame_index_cases(ctx):
    rng = ctx.rng
    for _ in range(ctx.n(320, 4000)):
        op = rng.choice(('sort_index', 'sort_columns'))
        idepth = rng.choice((1, 1, 2, 3)) if op == 'sort_index' else 1
        cdepth = rng.choice((1, 1, 2, 3)) if op == 'sort_columns' else rng.choice((1, 1, 2))
        nrows = rng.randint(0 if idepth == 1 else 1, 6)
        ncols = rng.randint(1, 4 if cdepth == 1 else 5)
        f, cols, il, cl, kinds, layout = make_frame(rng, nrows, ncols, idepth, cdepth)
        asc = rng.random() < 0.5
        labels, depth = (il, idepth) if op == 'sort_index' else (cl, cdepth)
        kfn, kfspec, keyvecs, items = index_sort_pieces(rng, labels, depth)
        obs, _ = run_obs(lambda: getattr(f, op)(ascending=asc, key=kfn), lit.oframe)
        keyres = keyres_of(kfn, items)
        axis = 1 if op == 'sort_index' else 0
        tags = {'op': f'Frame.{op}', 'depth': depth}
        if one_col_2d(kfspec, keyvecs):
            tags['finding'] = 'C12-key-2d-one-column'
        elif kfspec is not None:
            hier_tag(tags, depth, labels, keyvecs, asc)
        mfun = 'M_frame_sort_index' if op == 'sort_index' else 'M_frame_sort_columns'
        keys_lit = vecs_lit(keyvecs) if kfspec is not None else f'(index_keys {depth}%nat {lit.vlist(labels)})'
        ctx.count(f'f.{op}:depth{depth}', f'f.{op}:key:{kfspec[0] + "/" + kfspec[2] if kfspec else "none"}', f'f.{op}:asc{int(asc)}',
                  f'layout:{zoo.layout_str(layout)}', f'f.{op}:n{len(labels)}')
        yield Case(f'api:frame.{op}',
                   {'call': f'frame.{op}(ascending={asc}, key={kfspec and kfspec[0] + "->" + kfspec[2]})', 'frame': lit.oframe(f), 'layout': zoo.layout_str(layout),
                    'index_depth': idepth, 'columns_depth': cdepth, 'observed': obs},
                   m=m_unless_2d_garbage(f'oframe_res_eqb ({mfun} {P} {sframe_lit(f, idepth, cdepth)} {opt(keyres)} {lit.b(asc)}) {obs}', kfspec, keyvecs, depth, len(labels)),
                   s=f'oframe_res_eqb (Ok (S_frame_sort {axis} {lit.oframe(f)} {keys_lit} {lit.b(asc)})) {obs}',
                   tags=tags, nontrivial=nontrivial(keyvecs, len(labels)))


def make_series(rng, n, idepth, kind=None):
    import static_frame as sf
    labels = pick_index(rng, n, idepth)
    n = len(labels)
    kind = kind or rng.choice(KINDS)
    vals = gen_col(rng, kind, n, distinct=rng.randint(2, 4))
    sr = sf.Series(vals, index=mk_index(labels, idepth), name=rng.choice((None, 'n', ('a', 1))))
    return sr, vals, labels, kind


def series_cases(ctx):
    rng = ctx.rng
    for _ in range(ctx.n(400, 4000)):
        op = rng.choice(('sort_values', 'sort_values', 'sort_index'))
        idepth = rng.choice((1, 1, 2, 3)) if op == 'sort_index' else rng.choice((1, 1, 1, 2))
        n = rng.randint(0 if idepth == 1 else 1, 8)
        sr, vals, labels, kind = make_series(rng, n, idepth)
        n = len(labels)
        asc = rng.random() < 0.5
        tags = {'op': f'Series.{op}', 'depth': idepth}
        if op == 'sort_index':
            kfn, kfspec, keyvecs, items = index_sort_pieces(rng, labels, idepth)
            if one_col_2d(kfspec, keyvecs):
                tags['finding'] = 'C12-key-2d-one-column'
            elif kfspec is not None:
                hier_tag(tags, idepth, labels, keyvecs, asc)
            keys_lit = vecs_lit(keyvecs) if kfspec is not None else f'(index_keys {idepth}%nat {lit.vlist(labels)})'
            mfun = 'M_series_sort_index'
        else:
            items = [(v,) for v in pyvals(vals)]
            kfspec = pick_keyfn(rng, items, ('arr1', 'series')) if (items and rng.random() < 0.5) else None
            if kfspec is not None:
                kfn = KeyFn(kfspec[1], kfspec[2])
                keyvecs = key_vectors(items, kfspec[1])
                keys_lit = vecs_lit(keyvecs)
            else:
                kfn = None
                keyvecs = [pyvals(vals)]
                keys_lit = f'[os_values {lit.oseries(sr)}]'
            hier_tag(tags, idepth, labels, keyvecs, asc)
            mfun = 'M_series_sort_values'
        obs, _ = run_obs(lambda: getattr(sr, op)(ascending=asc, key=kfn), lit.oseries)
        keyres = keyres_of(kfn, items)
        ctx.count(f's.{op}:depth{idepth}', f's.{op}:key:{kfspec[0] + "/" + kfspec[2] if kfspec else "none"}', f's.{op}:asc{int(asc)}',
                  f's.{op}:kind:{kind}', f's.{op}:n{n}')
        yield Case(f'api:series.{op}',
                   {'call': f'series.{op}(ascending={asc}, key={kfspec and kfspec[0] + "->" + kfspec[2]})', 'series': lit.oseries(sr), 'index_depth': idepth, 'observed': obs},
                   m=m_unless_2d_garbage(f'oseries_res_eqb ({mfun} {P} {sseries_lit(sr, idepth)} {opt(keyres)} {lit.b(asc)}) {obs}', kfspec, keyvecs, idepth, n),
                   s=f'oseries_res_eqb (Ok (S_series_sort {lit.oseries(sr)} {keys_lit} {lit.b(asc)})) {obs}',
                   tags=tags, nontrivial=nontrivial(keyvecs, n))


def index_cases(ctx):
    # Index.sort / IndexHierarchy.sort: labels (and name, class) of the result
    rng = ctx.rng
    for _ in range(ctx.n(220, 2500)):
        depth = rng.choice((1, 1, 2, 3))
        n = rng.randint(0 if depth == 1 else 1, 8)
        labels = pick_index(rng, n, depth)
        n = len(labels)
        name = rng.choice((None, 'ix', ('p', 'q')))
        idx = mk_index(labels, depth, name=name)
        asc = rng.random() < 0.5
        kfn, kfspec, keyvecs, items = index_sort_pieces(rng, labels, depth)
        tags = {'op': 'Index.sort' if depth == 1 else 'IndexHierarchy.sort', 'depth': depth}
        if one_col_2d(kfspec, keyvecs):
            tags['finding'] = 'C12-key-2d-one-column'
        elif kfspec is not None:
            hier_tag(tags, depth, labels, keyvecs, asc)
        obs, out = run_obs(lambda: idx.sort(ascending=asc, key=kfn), lambda r: lit.vlist(lit.labels(r)))
        py_fail = None
        if not isinstance(out, Exception):
            if out.name != idx.name:
                py_fail = f'name {idx.name!r} became {out.name!r}'
            elif out.__class__ is not idx.__class__:
                py_fail = f'class {idx.__class__.__name__} became {out.__class__.__name__}'
        keyres = keyres_of(kfn, items)
        keys_lit = vecs_lit(keyvecs) if kfspec is not None else f'(index_keys {depth}%nat {lit.vlist(labels)})'
        ctx.count(f'ix.sort:depth{depth}', f'ix.sort:key:{kfspec[0] + "/" + kfspec[2] if kfspec else "none"}', f'ix.sort:asc{int(asc)}', f'ix.sort:n{n}')
        yield Case('api:index.sort',
                   {'call': f'index.sort(ascending={asc}, key={kfspec and kfspec[0] + "->" + kfspec[2]})', 'labels': [repr(l) for l in labels], 'depth': depth, 'observed': obs},
                   m=m_unless_2d_garbage(f'labels_res_eqb (M_index_sort {P} {depth}%nat {lit.vlist(labels)} {opt(keyres)} {lit.b(asc)}) {obs}', kfspec, keyvecs, depth, n),
                   s=f'labels_res_eqb (Ok (S_index_sort {lit.vlist(labels)} {keys_lit} {lit.b(asc)})) {obs}',
                   py_fail=py_fail, tags=tags, nontrivial=nontrivial(keyvecs, n))


# --------------------------------------------------------------------------- exhaustive layouts
LAYOUT_FAMILIES = [
    # (kinds, column data) -- 4 rows, duplicates in every column
    (('int', 'int', 'float'), [[1, 0, 1, 0], [2, 2, -1, -1], [0.5, float('nan'), -1.5, 0.5]]),
    (('int', 'int', 'int'), [[3, 1, 3, 1], [0, 0, 0, 7], [-1, 2, -1, 2]]),
    (('str', 'int', 'int'), [['b', 'a', 'b', 'ab'], [1, 1, 0, 0], [5, 5, 5, 5]]),
    (('float', 'float', 'bool', 'bool'), [[2.0, -1.0, 2.0, 0.0], [0.5, 0.5, 0.5, -1.5], [True, False, True, True], [False, False, True, False]]),
]
_DT = {'int': np.int64, 'float': np.float64, 'str': '<U2', 'bool': bool}


def layout_cases(ctx):
    # every block layout of small fixed frames x (sort_values by 1/2/3 columns, by 1/2 rows, sort_index, sort_columns) x direction
    rng = ctx.rng
    fams = LAYOUT_FAMILIES if ctx.tier == 'thorough' else LAYOUT_FAMILIES[:3]
    for kinds, data in fams:
        cols = [np.array(d, dtype=_DT[k]) for k, d in zip(kinds, data)]
        il = ['r', 'a', 'z', 'c']
        cl = ['y', 'x', 'w', 'v'][:len(cols)]
        comparable = 'str' not in kinds
        for layout in zoo.layouts_for([c.dtype for c in cols]):
            f = zoo.frame_from_columns(cols, layout, index=mk_index(il, 1), columns=mk_index(cl, 1), name='L')
            jobs = [(1, [0], True), (1, [1, 0], False), (1, [2, 0, 1], False)]
            if comparable:
                jobs += [(0, [0], True), (0, [1, 3], False)]
            for axis, sel, single in jobs:
                for asc in (True, False):
                    yield frame_sort_values_case(ctx, rng, f, cols, il, cl, 1, 1, layout, axis, sel, single, asc, None, 'api:layouts.sort_values')
            for op, axis, labels in (('sort_index', 1, il), ('sort_columns', 0, cl)):
                for asc in (True, False):
                    obs, _ = run_obs(lambda: getattr(f, op)(ascending=asc), lit.oframe)
                    mfun = 'M_frame_sort_index' if op == 'sort_index' else 'M_frame_sort_columns'
                    ctx.count(f'layouts:{op}', f'layout:{zoo.layout_str(layout)}')
                    yield Case(f'api:layouts.{op}', {'call': f'frame.{op}(ascending={asc})', 'frame': lit.oframe(f), 'layout': zoo.layout_str(layout), 'observed': obs},
                               m=f'oframe_res_eqb ({mfun} {P} {sframe_lit(f, 1, 1)} None {lit.b(asc)}) {obs}',
                               s=f'oframe_res_eqb (Ok (S_frame_sort {axis} {lit.oframe(f)} (index_keys 1%nat {lit.vlist(labels)}) {lit.b(asc)})) {obs}',
                               tags={'op': f'Frame.{op}', 'layouts': True})


# --------------------------------------------------------------------------- malformed key results
def _short(r):
    import static_frame as sf
    if isinstance(r, (sf.Frame, sf.Series)):
        return r.iloc[:-1]
    return r[:-1]


def _short_axis0(r):
    import static_frame as sf
    if isinstance(r, sf.Frame):
        return r.iloc[:, :-1]
    if isinstance(r, sf.Series):
        return r.iloc[:-1]
    return r[:-1] if r.ndim == 1 else r[:, :-1]


def _long(r):
    import static_frame as sf
    if isinstance(r, sf.Series):
        return sf.Series(np.concatenate([r.values, r.values[:1]]))
    return np.concatenate([r, r[:1]])


def malformed_cases(ctx):
    # key functions returning a container of the wrong length: the call must raise (never return a container that lost or invented rows)
    rng = ctx.rng
    for _ in range(ctx.n(130, 1200)):
        which = rng.choice(('series.sort_values', 'series.sort_index', 'frame.sort_values', 'frame.sort_index', 'index.sort'))
        asc = rng.random() < 0.5
        how = rng.choice(('short', 'long'))
        if which.startswith('series'):
            sr, vals, labels, kind = make_series(rng, rng.randint(2, 6), 1, kind=rng.choice(('int', 'float')))
            if which == 'series.sort_values':
                items = [(v,) for v in pyvals(vals)]
                out = rng.choice(('arr1', 'series'))
                kf = rng.choice((kf_neg, kf_ident, kf_mod2))
                kfn = KeyFn(kf, out, mangle=_short if how == 'short' else _long)
                obs, _ = run_obs(lambda: sr.sort_values(ascending=asc, key=kfn), lit.oseries)
                mfun = 'M_series_sort_values'
                tags = {'op': 'Series.sort_values', 'malformed': how}
            else:
                items = label_items(labels, 1)
                allnum = all(not isinstance(t[0], str) for t in items)
                kf = kf_neg if allnum else kf_len
                kfn = KeyFn(kf, 'arr1', mangle=_short if how == 'short' else _long)
                obs, _ = run_obs(lambda: sr.sort_index(ascending=asc, key=kfn), lit.oseries)
                mfun = 'M_series_sort_index'
                tags = {'op': 'Series.sort_index', 'malformed': how}
            keyres = keyres_of(kfn, items)
            ctx.count(f'malformed:{which}:{how}')
            yield Case('malformed:key-length', {'call': f'{which}(ascending={asc}, key=<{how} by one>)', 'series': lit.oseries(sr), 'observed': obs},
                       m=f'oseries_res_eqb ({mfun} {P} {sseries_lit(sr, 1)} {opt(keyres)} {lit.b(asc)}) {obs}',
                       s=f'@res_is_err oseries {obs}', tags=tags)
        elif which == 'frame.sort_values':
            axis = rng.choice((1, 0))
            f, cols, il, cl, kinds, layout = make_frame(rng, rng.randint(2, 5), rng.randint(2, 4), 1, 1, kinds=None, comparable=True)
            if any(c.dtype.kind == 'U' for c in cols):
                continue
            other = f.shape[1] if axis == 1 else f.shape[0]
            k = rng.randint(1, min(2, other))
            sel = rng.sample(range(other), k)
            single = k == 1 and rng.random() < 0.5
            out = rng.choice(('arr1', 'series') if k == 1 else ('arr2', 'frame'))
            if how == 'long' and (out == 'frame' or (axis == 0 and out == 'arr2')):
                how = 'short'
            mangle = (_short if axis == 1 else _short_axis0) if how == 'short' else _long
            yield frame_sort_values_case(ctx, rng, f, cols, il, cl, 1, 1, layout, axis, sel, single, asc, ('neg', kf_neg, out),
                                         'malformed:key-length', mangle=mangle, mangle_name=how)
        else:
            labels = flat_labels(rng, rng.randint(2, 6), 'int')
            items = label_items(labels, 1)
            out = rng.choice(('arr1', 'arr2'))
            kf = kf_neg if out == 'arr1' else (lambda t: (t[0] % 2, -t[0]))
            kfn = KeyFn(kf, out, mangle=_short if how == 'short' else _long)
            if which == 'index.sort':
                idx = mk_index(labels, 1)
                obs, _ = run_obs(lambda: idx.sort(ascending=asc, key=kfn), lambda r: lit.vlist(lit.labels(r)))
                keyres = keyres_of(kfn, items)
                m = f'labels_res_eqb (M_index_sort {P} 1%nat {lit.vlist(labels)} {opt(keyres)} {lit.b(asc)}) {obs}'
                desc = {'call': f'index.sort(ascending={asc}, key=<{how} by one>)', 'labels': labels, 'observed': obs}
            else:
                f, cols, il, cl, kinds, layout = make_frame(rng, len(labels), rng.randint(1, 3), 1, 1)
                f = f.relabel(index=labels)
                obs, _ = run_obs(lambda: f.sort_index(ascending=asc, key=kfn), lit.oframe)
                keyres = keyres_of(kfn, items)
                m = f'oframe_res_eqb (M_frame_sort_index {P} {sframe_lit(f, 1, 1)} {opt(keyres)} {lit.b(asc)}) {obs}'
                desc = {'call': f'frame.sort_index(ascending={asc}, key=<{how} by one>)', 'frame': lit.oframe(f), 'observed': obs}
            ctx.count(f'malformed:{which}:{how}')
            ty = '(list val)' if which == 'index.sort' else 'oframe'
            yield Case('malformed:key-length', desc, m=m, s=f'@res_is_err {ty} {obs}', tags={'op': which, 'malformed': how})


# --------------------------------------------------------------------------- fixed witnesses of the known findings
def witness_cases(ctx):
    import static_frame as sf
    rng = ctx.rng
    # regression (former finding C12-series-key-short, repaired by /repo commit 2c1ccba): a key result shorter than the
    # Series must raise RuntimeError; a silently shortened result is a violation again
    sr = sf.Series(np.array([3, 1, 2, 1]), index=('a', 'b', 'c', 'd'), name='n')
    kfn = KeyFn(kf_ident, 'arr1', mangle=lambda r: r[:2])
    obs, _ = run_obs(lambda: sr.sort_values(key=kfn), lit.oseries)
    yield Case('regression:series-key-short', {'call': 'sf.Series((3,1,2,1), index=tuple("abcd"), name="n").sort_values(key=lambda s: s.values[:2])', 'observed': obs},
               m=f'oseries_res_eqb (M_series_sort_values {P} {sseries_lit(sr, 1)} {opt(cfs_lit(kfn.returned))} true) {obs}',
               s=f'oseries_res_eqb (Err "RuntimeError") {obs}', tags={'op': 'Series.sort_values', 'malformed': 'short', 'regression': 'series-key-short'})
    # C12-key-2d-one-column
    sr2 = sf.Series(np.array([3, 1, 2]), index=('a', 'b', 'c'))
    kfn = KeyFn(lambda t: (-ord(t[0]),), 'arr2')
    items = label_items(['a', 'b', 'c'], 1)
    keyvecs = key_vectors(items, kfn.kf)
    obs, _ = run_obs(lambda: sr2.sort_index(key=kfn), lit.oseries)
    yield Case('witness:key-2d-one-column', {'call': 'series.sort_index(key=lambda i: <(n,1) array>)', 'series': lit.oseries(sr2), 'observed': obs},
               m=f'oseries_res_eqb (M_series_sort_index {P} {sseries_lit(sr2, 1)} {opt(cfs_lit(kfn.returned))} true) {obs}',
               s=f'oseries_res_eqb (Ok (S_series_sort {lit.oseries(sr2)} {vecs_lit(keyvecs)} true)) {obs}',
               tags={'op': 'Series.sort_index', 'finding': 'C12-key-2d-one-column'})
    # C12-hier-untree
    il = [('b', 2), ('b', 1), ('a', 5)]
    cols = [np.array([0, 2, 1])]
    layout = ((1, False),)
    f = zoo.frame_from_columns(cols, layout, index=mk_index(il, 2), columns=mk_index(['p'], 1), name=None)
    yield frame_sort_values_case(ctx, rng, f, cols, il, ['p'], 2, 1, layout, 1, [0], True, True, None, 'witness:hier-untree')


def long_cases(ctx):
    # beyond the small-array thresholds of NumPy's sorts (an unstable kind behaves stably on short arrays): many ties
    import static_frame as sf
    rng = ctx.rng
    for _ in range(ctx.n(50, 400)):
        n = rng.randint(20, 70)
        asc = rng.random() < 0.5
        which = rng.choice(('series.sort_values', 'series.sort_index-key', 'frame.sort_values', 'index.sort-key', 'frame.sort_columns-key'))
        kind = rng.choice(('int', 'float', 'str', 'int'))
        if which == 'series.sort_values':
            vals = gen_col(rng, kind, n, distinct=rng.randint(2, 4))
            sr = sf.Series(vals, index=list(range(100, 100 + n)), name='long')
            obs, _ = run_obs(lambda: sr.sort_values(ascending=asc), lit.oseries)
            ctx.count('long:series.sort_values', f'long:kind:{kind}')
            yield Case('api:long.series.sort_values', {'call': f'series.sort_values(ascending={asc})', 'series': lit.oseries(sr), 'observed': obs},
                       m=f'oseries_res_eqb (M_series_sort_values {P} {sseries_lit(sr, 1)} None {lit.b(asc)}) {obs}',
                       s=f'oseries_res_eqb (Ok (S_series_sort {lit.oseries(sr)} [os_values {lit.oseries(sr)}] {lit.b(asc)})) {obs}',
                       tags={'op': 'Series.sort_values', 'long': True})
        elif which in ('series.sort_index-key', 'index.sort-key', 'frame.sort_columns-key'):
            labels = rng.sample(range(-50, 150), n)
            items = label_items(labels, 1)
            mod = rng.choice((2, 3))
            kf = lambda t, mod=mod: (t[0] % mod,)
            kfn = KeyFn(kf, 'arr1')
            keyvecs = key_vectors(items, kf)
            if which == 'series.sort_index-key':
                sr = sf.Series(np.arange(n), index=labels)
                obs, _ = run_obs(lambda: sr.sort_index(ascending=asc, key=kfn), lit.oseries)
                m = f'oseries_res_eqb (M_series_sort_index {P} {sseries_lit(sr, 1)} {opt(keyres_of(kfn, items))} {lit.b(asc)}) {obs}'
                st = f'oseries_res_eqb (Ok (S_series_sort {lit.oseries(sr)} {vecs_lit(keyvecs)} {lit.b(asc)})) {obs}'
                desc = {'call': f'series.sort_index(ascending={asc}, key=lambda i: i.values % {mod})', 'series': lit.oseries(sr), 'observed': obs}
            elif which == 'index.sort-key':
                idx = sf.Index(labels)
                obs, _ = run_obs(lambda: idx.sort(ascending=asc, key=kfn), lambda r: lit.vlist(lit.labels(r)))
                m = f'labels_res_eqb (M_index_sort {P} 1%nat {lit.vlist(labels)} {opt(keyres_of(kfn, items))} {lit.b(asc)}) {obs}'
                st = f'labels_res_eqb (Ok (S_index_sort {lit.vlist(labels)} {vecs_lit(keyvecs)} {lit.b(asc)})) {obs}'
                desc = {'call': f'index.sort(ascending={asc}, key=lambda i: i.values % {mod})', 'labels': labels, 'observed': obs}
            else:
                f = sf.Frame(np.arange(2 * n).reshape(2, n), columns=labels, index=('r0', 'r1'))
                obs, _ = run_obs(lambda: f.sort_columns(ascending=asc, key=kfn), lit.oframe)
                m = f'oframe_res_eqb (M_frame_sort_columns {P} {sframe_lit(f, 1, 1)} {opt(keyres_of(kfn, items))} {lit.b(asc)}) {obs}'
                st = f'oframe_res_eqb (Ok (S_frame_sort 0 {lit.oframe(f)} {vecs_lit(keyvecs)} {lit.b(asc)})) {obs}'
                desc = {'call': f'frame.sort_columns(ascending={asc}, key=lambda i: i.values % {mod})', 'frame': lit.oframe(f), 'observed': obs}
            ctx.count(f'long:{which}')
            yield Case(f'api:long.{which}', desc, m=m, s=st, tags={'op': which, 'long': True})
        else:
            kinds = [rng.choice(('int', 'float', 'str', 'bool')) for _ in range(rng.randint(1, 3))]
            cols = [gen_col(rng, k, n, distinct=rng.randint(2, 3)) for k in kinds]
            layout = rng.choice(list(zoo.layouts_for([c.dtype for c in cols])))
            il = list(range(n))
            cl = ['k0', 'k1', 'k2'][:len(cols)]
            f = zoo.frame_from_columns(cols, layout, index=mk_index(il, 1), columns=mk_index(cl, 1), name='long')
            sel = rng.sample(range(len(cols)), rng.randint(1, len(cols)))
            yield frame_sort_values_case(ctx, rng, f, cols, il, cl, 1, 1, layout, 1, sel, len(sel) == 1, asc, None, 'api:long.frame.sort_values')


# --------------------------------------------------------------------------- grow-only receivers
def _items_via_depth(obj, axis0=False):
    # key functions that read a hierarchical index through values_at_depth (the path sort_index_for_order itself uses)
    d = obj.depth
    vecs = [pyvals(obj.values_at_depth(k)) for k in range(d)]
    return [tuple(v[i] for v in vecs) for i in range(len(vecs[0]))] if vecs and len(vecs[0]) else []


def _materialise(ix, how):
    if how == 'values':
        ix.values
    elif how == 'depth' and getattr(ix, 'depth', 1) > 1:
        ix.values_at_depth(0)
    elif how == 'display':
        repr(ix)
    elif how == 'len':
        len(ix)


def _fresh_label(depth, tag):
    # a label that is a valid append to any tree-ordered index: a brand-new outer label
    return tag if depth == 1 else (tag,) + (0,) * (depth - 1)


def _snap(fn, printer):
    try:
        return printer(fn())
    except Exception as e:  # noqa
        return f'<{type(e).__name__}: {str(e)[:80]}>'


def go_frame_case(ctx, rng):
    import static_frame as sf
    op = rng.choice(('sort_columns', 'sort_columns', 'sort_index', 'sort_values1', 'sort_values0'))
    cdepth = rng.choice((1, 2, 2, 3))
    idepth = rng.choice((1, 1, 2))
    nrows = rng.randint(1, 4)
    n0 = rng.randint(1, 3)
    nadd = rng.randint(1, 2)
    clabels_all = pick_index(rng, n0 + nadd, cdepth)
    if len(clabels_all) < 2:
        return None
    n0 = max(1, min(n0, len(clabels_all) - 1))
    ilabels = pick_index(rng, nrows, idepth)
    nrows = len(ilabels)
    ncols = len(clabels_all)
    kinds = gen_kinds(rng, ncols, comparable=(op == 'sort_values0'))
    cols = gen_cols(rng, kinds, nrows)
    name = rng.choice((None, 'G'))
    lay0 = rng.choice(list(zoo.layouts_for([c.dtype for c in cols[:n0]])))
    if cdepth > 1 and rng.random() < 0.15:
        # start from a ZERO-length hierarchical columns index (IndexLevelGO.append builds the tree from the first key)
        n0 = 0
        g = sf.FrameGO(index=mk_index(ilabels, idepth), columns=sf.IndexHierarchyGO.from_names(tuple('pqr'[:cdepth])), name=name)
    else:
        g = zoo.frame_from_columns(cols[:n0], lay0, index=mk_index(ilabels, idepth), columns=mk_index(clabels_all[:n0], cdepth), name=name, cls=sf.FrameGO)
    how = rng.choice(('none', 'values', 'depth', 'display', 'len'))
    _materialise(g.columns, how)
    grow = 'setitem'
    if cdepth == 1 and rng.random() < 0.4:
        grow = 'extend'
        g.extend(zoo.frame_from_columns(cols[n0:], tuple((1, False) for _ in cols[n0:]), index=mk_index(ilabels, idepth), columns=mk_index(clabels_all[n0:], 1)))
    else:
        for j in range(n0, ncols):
            form = rng.choice(('array', 'array', 'series', 'tuple', 'scalar'))
            if form == 'series':
                # a Series in another row order: aligned on the index by __setitem__
                perm = list(range(nrows))
                rng.shuffle(perm)
                if idepth > 1:                 # a hierarchical index must itself stay tree-ordered
                    other = tree_shuffle(rng, list(ilabels))
                    perm = [ilabels.index(l) for l in other]
                g[clabels_all[j]] = sf.Series(cols[j][perm], index=mk_index([ilabels[i] for i in perm], idepth))
            elif form == 'tuple' and cols[j].dtype.kind in 'ifb' and nrows:
                g[clabels_all[j]] = tuple(cols[j].tolist())
            elif form == 'scalar' and op != 'sort_values0':
                cols[j] = np.full(nrows, 5, dtype=np.int64)
                g[clabels_all[j]] = 5
            else:
                g[clabels_all[j]] = cols[j]
            grow = 'setitem'
    # the same content built independently as a static Frame: the specification's input
    lay_all = tuple((1, False) for _ in cols)
    cur = zoo.frame_from_columns(cols, lay_all, index=mk_index(ilabels, idepth), columns=mk_index(clabels_all, cdepth), name=name)
    asc = rng.random() < 0.5
    tags = {'op': f'FrameGO.{op}', 'go': True}
    hist = f'FrameGO({n0} cols, columns depth {cdepth}); materialise={how}; {grow} {ncols - n0} column(s); {op} as first read'
    if op in ('sort_columns', 'sort_index'):
        labels, depth = (clabels_all, cdepth) if op == 'sort_columns' else (ilabels, idepth)
        kfn, kfspec, keyvecs, items = index_sort_pieces(rng, labels, depth, p_key=0.4)
        if kfn is not None and depth > 1 and rng.random() < 0.5:
            kfn.reader = _items_via_depth
        obs, r = run_obs(lambda: getattr(g, op)(ascending=asc, key=kfn), lit.oframe)
        keyres = keyres_of(kfn, items)
        axis = 1 if op == 'sort_index' else 0
        if one_col_2d(kfspec, keyvecs):
            tags['finding'] = 'C12-key-2d-one-column'
        elif kfspec is not None:
            hier_tag(tags, depth, labels, keyvecs, asc)
        mfun = 'M_frame_sort_index' if op == 'sort_index' else 'M_frame_sort_columns'
        keys_lit = vecs_lit(keyvecs) if kfspec is not None else f'(index_keys {depth}%nat {lit.vlist(labels)})'
        m = m_unless_2d_garbage(f'oframe_res_eqb ({mfun} {P} {sframe_lit(cur, idepth, cdepth)} {opt(keyres)} {lit.b(asc)}) {obs}', kfspec, keyvecs, depth, len(labels))
        sterm = f'oframe_res_eqb (Ok (S_frame_sort {axis} {lit.oframe(cur)} {keys_lit} {lit.b(asc)})) {obs}'
        desc = {'history': hist, 'call': f'g.{op}(ascending={asc}, key={kfspec and kfspec[0] + "->" + kfspec[2]})', 'current_content': lit.oframe(cur), 'observed': obs}
        case = Case('api:go-sort', desc, m=m, s=sterm, tags=tags, nontrivial=True)
    else:
        axis = 1 if op == 'sort_values1' else 0
        other = ncols if axis == 1 else nrows
        k = rng.randint(1, min(2, other))
        sel = rng.sample(range(other), k)
        if axis == 1 and rng.random() < 0.7 and (ncols - 1) not in sel:
            sel[0] = ncols - 1                  # sort by a column added after the materialisation
        single = k == 1 and rng.random() < 0.5
        holder = {}

        def recv_call(label, asc_, axis_, kfn_):
            return g.sort_values(label, ascending=asc_, axis=axis_, key=kfn_)
        case = frame_sort_values_case(ctx, rng, cur, cols, ilabels, clabels_all, idepth, cdepth, lay_all, axis, sel, single, asc, None, 'api:go-sort',
                                      recv=recv_call, holder=holder)
        case.desc['history'] = hist
        case.tags.update({'op': f'FrameGO.{op}', 'go': True})
        case.key = None
        r = holder.get('out')
        obs = holder.get('obs')
    ctx.count(f'go:frame.{op}', f'go:materialise:{how}', f'go:grow:{grow}', f'go:cdepth{cdepth}')
    # the result and the input must not share mutable structure: grow one, re-snapshot the other
    if not isinstance(r, Exception) and r is not None:
        x_label, y_label = _fresh_label(cdepth, 'zx'), _fresh_label(cdepth, 'zy')
        fill = np.arange(nrows)
        try:
            g[x_label] = fill
            again = _snap(lambda: r, lit.oframe)
            if f'(Ok {again})' != obs:
                case.py_fail = f'the sorted result changed after the INPUT was grown: {again[:200]}'
            else:
                cur2 = zoo.frame_from_columns(cols + [fill], lay_all + ((1, False),), index=mk_index(ilabels, idepth),
                                              columns=mk_index(list(clabels_all) + [x_label], cdepth), name=name)
                if isinstance(r, sf.FrameGO):
                    r[y_label] = fill
                got = _snap(lambda: g, lit.oframe)
                if got != lit.oframe(cur2):
                    case.py_fail = f'the input changed after the RESULT was grown (or lost content): {got[:200]}'
        except Exception as e:  # noqa
            case.py_fail = f'growing after the sort raised {type(e).__name__}: {str(e)[:120]}'
    if case.key is None:
        import json as _json
        case.key = _json.dumps(case.desc, sort_keys=True, default=str)
    return case


def go_index_case(ctx, rng):
    import static_frame as sf
    depth = rng.choice((1, 2, 2, 3))
    n0 = rng.randint(1, 4)
    nadd = rng.randint(1, 3)
    labels_all = pick_index(rng, n0 + nadd, depth)
    if len(labels_all) < 2:
        return None
    n0 = max(1, min(n0, len(labels_all) - 1))
    cls = sf.IndexGO if depth == 1 else sf.IndexHierarchyGO
    if depth > 1 and rng.random() < 0.2:
        n0 = 0                                  # zero-length start: the tree is built from the first appended key
        ix = cls.from_names(tuple('pqr'[:depth]))
    else:
        ix = cls(labels_all[:n0]) if depth == 1 else cls.from_labels(labels_all[:n0])
    how = rng.choice(('none', 'values', 'depth', 'display'))
    _materialise(ix, how)
    grow = rng.choice(('append', 'extend'))
    if depth > 1 and (n0 == 0 or {l[0] for l in labels_all[n0:]} & {l[0] for l in labels_all[:n0]}):
        grow = 'append'     # IndexHierarchyGO.extend takes whole new outer groups only (growing an existing group is append's job)
    if grow == 'append' or len(labels_all) - n0 < 1:
        for l in labels_all[n0:]:
            ix.append(l)
    else:
        ix.extend(mk_index(labels_all[n0:], depth))
    read = rng.choice(('sort', 'sort', 'values_at_depth')) if depth > 1 else 'sort'
    if read == 'values_at_depth':
        # kernel: the cache model itself; the private state is read WITHOUT touching the cache
        table = None if ix._blocks is None else [tuple(r) for r in ix._blocks.values.tolist()]
        st = f'(mk_ih_state {lit.vlist(labels_all)} {opt(lit.vlist(table)) if table is not None else "None"} {lit.b(bool(ix._recache))})'
        d = rng.randrange(depth)
        obs = _snap(lambda: ix.values_at_depth(d), lambda a: lit.vlist(pyvals(a)))
        ctx.count('go:ih.values_at_depth', f'go:materialise:{how}', f'go:grow:{grow}')
        if obs.startswith('<'):
            return Case('kernel:ih-cache', {'history': f'IndexHierarchyGO({n0}); materialise={how}; {grow}; values_at_depth({d})', 'observed': obs}, py_fail=f'values_at_depth raised {obs}', tags={'go': True})
        return Case('kernel:ih-cache', {'history': f'IndexHierarchyGO({n0} labels); materialise={how}; {grow} {len(labels_all) - n0}; values_at_depth({d}) as first read',
                                        'labels': [repr(l) for l in labels_all], 'observed': obs},
                    m=f'vlist_eqb (snd (ih_values_at_depth code_cache_params {st} {d}%nat)) {obs}',
                    s=f'vlist_eqb (depth_vec {lit.vlist(labels_all)} {d}%nat) {obs}', tags={'op': 'values_at_depth', 'go': True})
    asc = rng.random() < 0.5
    kfn, kfspec, keyvecs, items = index_sort_pieces(rng, labels_all, depth, p_key=0.4)
    if kfn is not None and depth > 1 and rng.random() < 0.5:
        kfn.reader = _items_via_depth
    tags = {'op': f'{cls.__name__}.sort', 'go': True}
    if one_col_2d(kfspec, keyvecs):
        tags['finding'] = 'C12-key-2d-one-column'
    elif kfspec is not None:
        hier_tag(tags, depth, labels_all, keyvecs, asc)
    printer = lambda r: lit.vlist(lit.labels(r))
    obs, r = run_obs(lambda: ix.sort(ascending=asc, key=kfn), printer)
    keyres = keyres_of(kfn, items)
    keys_lit = vecs_lit(keyvecs) if kfspec is not None else f'(index_keys {depth}%nat {lit.vlist(labels_all)})'
    py_fail = None
    if not isinstance(r, Exception):
        try:
            ix.append(_fresh_label(depth, 'zx'))
            again = _snap(lambda: r, printer)
            if f'(Ok {again})' != obs:
                py_fail = f'the sorted index changed after the INPUT was grown: {again[:200]}'
            else:
                r.append(_fresh_label(depth, 'zy'))
                got = _snap(lambda: ix, printer)
                want = lit.vlist(list(labels_all) + [_fresh_label(depth, 'zx')])
                if got != want:
                    py_fail = f'the input changed after the RESULT was grown: {got[:200]}'
        except Exception as e:  # noqa
            py_fail = f'growing after the sort raised {type(e).__name__}: {str(e)[:120]}'
    ctx.count(f'go:{cls.__name__}.sort', f'go:materialise:{how}', f'go:grow:{grow}')
    return Case('api:go-sort',
                {'history': f'{cls.__name__}({n0} labels); materialise={how}; {grow} {len(labels_all) - n0}; sort as first read',
                 'call': f'ix.sort(ascending={asc}, key={kfspec and kfspec[0] + "->" + kfspec[2]})', 'labels': [repr(l) for l in labels_all], 'observed': obs},
                m=m_unless_2d_garbage(f'labels_res_eqb (M_index_sort {P} {depth}%nat {lit.vlist(labels_all)} {opt(keyres)} {lit.b(asc)}) {obs}', kfspec, keyvecs, depth, len(labels_all)),
                s=f'labels_res_eqb (Ok (S_index_sort {lit.vlist(labels_all)} {keys_lit} {lit.b(asc)})) {obs}',
                py_fail=py_fail, tags=tags)


def go_cases(ctx):
    # grow-only receivers: [materialise] -> grow -> sort as the FIRST read; then grow input / result and re-snapshot the other
    rng = ctx.rng
    for _ in range(ctx.n(160, 2500)):
        c = go_frame_case(ctx, rng) if rng.random() < 0.65 else go_index_case(ctx, rng)
        if c is not None:
            yield c


# --------------------------------------------------------------------------- routes (coverage-guided extension round)
XKINDS = ('uint8', 'uint64', 'int8', 'f32', 'f16', 'bytes', 'dt:D', 'dt:s', 'dt:M', 'dt:ns', 'td:s', 'td:D')
_DT_UNIT_CLS = {'Y': 'IndexYear', 'M': 'IndexYearMonth', 'D': 'IndexDate', 'h': 'IndexHour', 'm': 'IndexMinute', 's': 'IndexSecond',
                'ms': 'IndexMillisecond', 'us': 'IndexMicrosecond', 'ns': 'IndexNanosecond'}


def gen_xcol(rng, kind, n, distinct=3):
    # columns of the dtype kinds the first generators never produced: unsigned / narrow ints, narrow floats, bytes, datetime64 / timedelta64 (with NaT)
    def pick(pool):
        pool = rng.sample(pool, min(distinct, len(pool)))
        return [rng.choice(pool) for _ in range(n)]
    if kind == 'uint8':
        return np.array(pick([0, 3, 200, 255, 17]), dtype=np.uint8)
    if kind == 'uint64':
        return np.array(pick([0, 5, 2 ** 40, 7, 2 ** 63]), dtype=np.uint64)
    if kind == 'int8':
        return np.array(pick([-128, -1, 0, 5, 127]), dtype=np.int8)
    if kind == 'f32':
        return np.array(pick([-1.5, 0.0, 0.5, 2.0, float('nan'), float('inf')]), dtype=np.float32)
    if kind == 'f16':
        return np.array(pick([-1.5, 0.0, 0.5, 2.0, float('nan')]), dtype=np.float16)
    if kind == 'bytes':
        return np.array(pick([b'a', b'B', b'ab', b'b', b'ba']) or [], dtype='S2')
    if kind.startswith('dt:'):
        u = kind[3:]
        vals = pick([-40, -1, 0, 3, 500, None])
        return np.array([np.datetime64('NaT') if v is None else np.datetime64(v, u) for v in vals] or [], dtype=f'datetime64[{u}]')
    if kind.startswith('td:'):
        u = kind[3:]
        vals = pick([-40, -1, 0, 3, 500, None])
        return np.array([np.timedelta64('NaT') if v is None else np.timedelta64(v, u) for v in vals] or [], dtype=f'timedelta64[{u}]')
    return gen_col(rng, kind, n, distinct)


def _class_fail(r, recv):
    if isinstance(r, Exception):
        return None
    if r.__class__ is not recv.__class__:
        return f'class {recv.__class__.__name__} became {r.__class__.__name__}'
    return None


def route_dtype_cases(ctx, rng, count):
    # Series.sort_values / Frame.sort_values over the extra dtype kinds, every layout choice, both axes
    import static_frame as sf
    for _ in range(count):
        if rng.random() < 0.5:
            kind = rng.choice(XKINDS)
            n = rng.randint(0, 7)
            vals = gen_xcol(rng, kind, n, distinct=rng.randint(2, 4))
            cls = rng.choice((sf.Series, sf.Series, sf.SeriesHE))
            labels = flat_labels(rng, n, rng.choice(('int', 'str')))
            sr = cls(vals, index=labels, name='x')
            asc = rng.random() < 0.5
            kfspec = rng.choice((None, None, ('ident', kf_ident, 'arr1'), ('const', kf_const, 'series')))
            items = [(v,) for v in pyvals(vals)]
            kfn = None
            if kfspec is not None and items:
                kfn = KeyFn(kfspec[1], kfspec[2])
                keyvecs = key_vectors(items, kfspec[1])
                keys_lit = vecs_lit(keyvecs)
            else:
                kfspec = None
                keys_lit = f'[os_values {lit.oseries(sr)}]'
            obs, r = run_obs(lambda: sr.sort_values(ascending=asc, key=kfn), lit.oseries)
            ctx.count(f'routes:series.sort_values:{kind}', f'routes:cls:{cls.__name__}')
            yield Case('api:routes.dtype', {'call': f'{cls.__name__}.sort_values(ascending={asc}, key={kfspec and kfspec[0]})', 'series': lit.oseries(sr), 'observed': obs},
                       m=f'oseries_res_eqb (M_series_sort_values {P} {sseries_lit(sr, 1)} {opt(keyres_of(kfn, items))} {lit.b(asc)}) {obs}',
                       s=f'oseries_res_eqb (Ok (S_series_sort {lit.oseries(sr)} {keys_lit} {lit.b(asc)})) {obs}',
                       py_fail=_class_fail(r, sr), tags={'op': 'Series.sort_values', 'kind': kind})
        else:
            axis = rng.choice((1, 1, 0))
            ncols = rng.randint(1, 4)
            nrows = rng.randint(0, 5)
            if axis == 0:
                fam = rng.choice((('uint8', 'int8', 'uint8', 'int'), ('dt:D', 'dt:D', 'dt:D'), ('f32', 'f16', 'float', 'int8'), ('bytes', 'bytes'), ('td:s', 'td:s'), ('uint64', 'uint64')))
                kinds = [rng.choice(fam) for _ in range(ncols)]
                nrows = max(nrows, 1)
            else:
                kinds = [rng.choice(XKINDS + ('int', 'str')) for _ in range(ncols)]
            cols = [gen_xcol(rng, k, nrows, distinct=rng.randint(2, 3)) for k in kinds]
            layout = rng.choice(list(zoo.layouts_for([c.dtype for c in cols])))
            il = flat_labels(rng, nrows, 'str')
            cl = flat_labels(rng, ncols, 'int')
            cls = rng.choice((sf.Frame, sf.FrameHE, sf.FrameGO))
            f = zoo.frame_from_columns(cols, layout, index=mk_index(il, 1), columns=mk_index(cl, 1), name='X', cls=cls)
            other = ncols if axis == 1 else nrows
            k = rng.randint(1, min(3, other))
            sel = rng.sample(range(other), k)
            single = k == 1 and rng.random() < 0.5
            asc = rng.random() < 0.5
            holder = {}
            c = frame_sort_values_case(ctx, rng, f, cols, il, cl, 1, 1, layout, axis, sel, single, asc, None, 'api:routes.dtype', holder=holder)
            c.tags['kinds'] = '+'.join(kinds)
            c.py_fail = _class_fail(holder.get('out'), f)
            ctx.count(f'routes:cls:{cls.__name__}', *[f'routes:frame.sort_values:{k_}' for k_ in set(kinds)])
            yield c


def _resolve_label(rng, labels, how):
    # (label object handed to sort_values, positions it denotes in order, single?) for a flat axis
    n = len(labels)
    if how == 'slice':
        a = rng.randrange(n)
        b = rng.randrange(a, n)
        return slice(labels[a], labels[b]), list(range(a, b + 1)), False
    if how == 'bool':
        mask = [rng.random() < 0.6 for _ in range(n)]
        if not any(mask):
            mask[rng.randrange(n)] = True
        return np.array(mask), [i for i, m_ in enumerate(mask) if m_], False
    sel = rng.sample(range(n), rng.randint(1, min(3, n)))
    if how == 'nparray':
        return np.array([labels[i] for i in sel]), sel, False
    if how == 'index':
        import static_frame as sf
        return sf.Index([labels[i] for i in sel]), sel, False
    if how == 'iloc-int':
        import static_frame as sf
        return sf.ILoc[sel[0]], sel[:1], True
    if how == 'iloc-list':
        import static_frame as sf
        return sf.ILoc[sel], sel, False
    if how == 'iloc-slice':
        import static_frame as sf
        a = rng.randrange(n)
        b = rng.randrange(a, n)
        return sf.ILoc[a:b + 1], list(range(a, b + 1)), False
    raise ValueError(how)


def route_label_cases(ctx, rng, count):
    # the label argument of Frame.sort_values in every selector kind; explicit stable kinds
    import static_frame as sf
    hows = ('slice', 'bool', 'nparray', 'index', 'iloc-int', 'iloc-list', 'iloc-slice', 'hloc', 'kind')
    for i in range(count):
        how = hows[i % len(hows)]
        axis = rng.choice((1, 1, 0))
        asc = rng.random() < 0.5
        cdepth = 2 if (how == 'hloc' and axis == 1) else 1
        idepth = 2 if (how == 'hloc' and axis == 0) else 1
        f, cols, il, cl, kinds, layout = make_frame(rng, rng.randint(2, 5), rng.randint(2, 4), idepth, cdepth, comparable=(axis == 0))
        nrows, ncols = f.shape
        other_labels = cl if axis == 1 else il
        kind = None
        if how == 'hloc':
            outer = rng.choice([l[0] for l in other_labels])
            label = sf.HLoc[outer]
            sel = [j for j, l in enumerate(other_labels) if l[0] == outer]
            single = False
        elif how == 'kind':
            sel = rng.sample(range(len(other_labels)), rng.randint(1, min(2, len(other_labels))))
            single = len(sel) == 1
            label = other_labels[sel[0]] if single else [other_labels[j] for j in sel]
            kind = rng.choice(('stable', 'mergesort'))
        else:
            label, sel, single = _resolve_label(rng, other_labels, how)

        def recv(label_, asc_, axis_, kfn_, label=label, kind=kind):
            if kind is None:
                return f.sort_values(label, ascending=asc_, axis=axis_, key=kfn_)
            return f.sort_values(label, ascending=asc_, axis=axis_, key=kfn_, kind=kind)
        holder = {}
        c = frame_sort_values_case(ctx, rng, f, cols, il, cl, idepth, cdepth, layout, axis, sel, single, asc, None, 'api:routes.label', recv=recv, holder=holder)
        c.desc['call'] = f'frame.sort_values(<{how}: {label!r}>, ascending={asc}, axis={axis}{", kind=" + repr(kind) if kind else ""})'
        c.desc['denotes_positions'] = sel
        c.tags['label_kind'] = how
        import json as _json
        c.key = _json.dumps(c.desc, sort_keys=True, default=str)
        ctx.count(f'routes:label:{how}')
        yield c


def _dt_labels(rng, n, unit):
    vals = rng.sample([-400, -40, -1, 0, 3, 17, 500, 9000], n)
    return [np.datetime64(v, unit) for v in vals]


def route_index_cases(ctx, rng, count):
    # datetime-typed indices (every unit class), date-typed levels of hierarchical indices, default (auto) indices
    import static_frame as sf
    for i in range(count):
        which = ('dtindex', 'dtindex-series', 'ih-dated', 'ih-dated-frame', 'auto-series', 'auto-frame')[i % 6]
        asc = rng.random() < 0.5
        if which in ('dtindex', 'dtindex-series'):
            unit = rng.choice(list(_DT_UNIT_CLS))
            n = rng.randint(0, 6)
            labels = _dt_labels(rng, n, unit)
            cls = getattr(sf, _DT_UNIT_CLS[unit] + rng.choice(('', 'GO')))
            idx = cls(np.array(labels, dtype=f'datetime64[{unit}]'), name='t')
            items = label_items(labels, 1)
            kfspec = rng.choice((None, ('ident', kf_ident, 'arr1'), ('const', kf_const, 'arr1')))
            kfn = KeyFn(kfspec[1], kfspec[2]) if (kfspec and items) else None
            if kfn is None:
                kfspec = None
            keyvecs = key_vectors(items, kfspec[1]) if kfspec else [labels]
            keys_lit = vecs_lit(keyvecs) if kfspec else f'(index_keys 1%nat {lit.vlist(labels)})'
            if which == 'dtindex':
                obs, r = run_obs(lambda: idx.sort(ascending=asc, key=kfn), lambda r_: lit.vlist(lit.labels(r_)))
                pf = _class_fail(r, idx)
                if pf is None and not isinstance(r, Exception) and r.name != idx.name:
                    pf = f'name {idx.name!r} became {r.name!r}'
                ctx.count(f'routes:index.sort:{cls.__name__}')
                yield Case('api:routes.index', {'call': f'{cls.__name__}.sort(ascending={asc}, key={kfspec and kfspec[0]})', 'labels': [str(l) for l in labels], 'observed': obs},
                           m=f'labels_res_eqb (M_index_sort {P} 1%nat {lit.vlist(labels)} {opt(keyres_of(kfn, items))} {lit.b(asc)}) {obs}',
                           s=f'labels_res_eqb (Ok (S_index_sort {lit.vlist(labels)} {keys_lit} {lit.b(asc)})) {obs}', py_fail=pf, tags={'op': 'Index.sort', 'unit': unit})
            else:
                sr = sf.Series(gen_col(rng, 'int', n), index=idx, name='v')
                obs, r = run_obs(lambda: sr.sort_index(ascending=asc, key=kfn), lit.oseries)
                pf = None
                if not isinstance(r, Exception) and r.index.__class__ is not sr.index.__class__:
                    pf = f'index class {sr.index.__class__.__name__} became {r.index.__class__.__name__}'
                ctx.count(f'routes:series.sort_index:{cls.__name__}')
                yield Case('api:routes.index', {'call': f'series[{cls.__name__}].sort_index(ascending={asc}, key={kfspec and kfspec[0]})', 'series': lit.oseries(sr), 'observed': obs},
                           m=f'oseries_res_eqb (M_series_sort_index {P} {sseries_lit(sr, 1)} {opt(keyres_of(kfn, items))} {lit.b(asc)}) {obs}',
                           s=f'oseries_res_eqb (Ok (S_series_sort {lit.oseries(sr)} {keys_lit} {lit.b(asc)})) {obs}', py_fail=pf, tags={'op': 'Series.sort_index', 'unit': unit})
        elif which in ('ih-dated', 'ih-dated-frame'):
            depth = rng.choice((2, 3))
            unit = rng.choice(('D', 'M', 's', 'Y'))
            dpos = rng.randrange(depth)                      # which level is date-typed
            pools = []
            for d in range(depth):
                pools.append([np.datetime64(v, unit) for v in (-3, 0, 40)] if d == dpos else (['a', 'b', 'B'] if rng.random() < 0.5 else [-1, 0, 2]))
            space = list(itertools.product(*pools))
            labels = tree_shuffle(rng, rng.sample(space, rng.randint(1, 7)))
            ctors = tuple(getattr(sf, _DT_UNIT_CLS[unit]) if d == dpos else sf.Index for d in range(depth))
            ih = sf.IndexHierarchy.from_labels(labels, index_constructors=ctors, name='h')
            n = len(labels)
            if which == 'ih-dated':
                obs, r = run_obs(lambda: ih.sort(ascending=asc), lambda r_: lit.vlist(lit.labels(r_)))
                pf = None
                if not isinstance(r, Exception):
                    if [c_.__name__ for c_ in r.index_types.values] != [c_.__name__ for c_ in ih.index_types.values]:
                        pf = f'level classes changed: {[c_.__name__ for c_ in r.index_types.values]}'
                    elif r.name != ih.name:
                        pf = f'name {ih.name!r} became {r.name!r}'
                ctx.count(f'routes:ih.sort:dated-level{dpos}/{depth}:{unit}')
                yield Case('api:routes.index', {'call': f'IndexHierarchy(level {dpos} = {ctors[dpos].__name__}).sort(ascending={asc})', 'labels': [str(l) for l in labels], 'observed': obs},
                           m=f'labels_res_eqb (M_index_sort {P} {depth}%nat {lit.vlist(labels)} None {lit.b(asc)}) {obs}',
                           s=f'labels_res_eqb (Ok (S_index_sort {lit.vlist(labels)} (index_keys {depth}%nat {lit.vlist(labels)}) {lit.b(asc)})) {obs}',
                           py_fail=pf, tags={'op': 'IndexHierarchy.sort', 'unit': unit})
            else:
                kinds = gen_kinds(rng, rng.randint(1, 3))
                cols = gen_cols(rng, kinds, n)
                layout = rng.choice(list(zoo.layouts_for([c.dtype for c in cols])))
                cl = flat_labels(rng, len(cols), 'str')
                onrows = rng.random() < 0.6
                if onrows:
                    f = zoo.frame_from_columns(cols, layout, index=ih, columns=mk_index(cl, 1), name='D')
                    obs, r = run_obs(lambda: f.sort_index(ascending=asc), lit.oframe)
                    mfun, axis, sfl = 'M_frame_sort_index', 1, sframe_lit(f, depth, 1)
                else:
                    # the dated hierarchy as COLUMNS of the transposed content
                    rows = [np.array([c[i] for c in cols], dtype=object) for i in range(n)]
                    f = sf.Frame.from_fields(rows, columns=ih, index=cl, name='D') if n else None
                    if f is None:
                        continue
                    obs, r = run_obs(lambda: f.sort_columns(ascending=asc), lit.oframe)
                    mfun, axis, sfl = 'M_frame_sort_columns', 0, sframe_lit(f, 1, depth)
                ctx.count(f'routes:frame.{"sort_index" if onrows else "sort_columns"}:dated-ih')
                yield Case('api:routes.index', {'call': f'frame.{"sort_index" if onrows else "sort_columns"}(ascending={asc}) over a date-typed level {dpos} of {depth}', 'frame': lit.oframe(f), 'observed': obs},
                           m=f'oframe_res_eqb ({mfun} {P} {sfl} None {lit.b(asc)}) {obs}',
                           s=f'oframe_res_eqb (Ok (S_frame_sort {axis} {lit.oframe(f)} (index_keys {depth}%nat {lit.vlist(labels)}) {lit.b(asc)})) {obs}',
                           tags={'op': 'Frame.sort_index', 'unit': unit})
        else:
            # default integer index (no labels given): after the sort every label must still address its own row
            n = rng.randint(0, 7)
            if which == 'auto-series':
                kind = rng.choice(KINDS)
                vals = gen_col(rng, kind, n)
                sr = sf.Series(vals, name='a')
                op = rng.choice(('sort_values', 'sort_values', 'sort_index'))
                obs, r = run_obs(lambda: getattr(sr, op)(ascending=asc), lit.oseries)
                pf = None
                if not isinstance(r, Exception):
                    for lab in range(n):
                        got, want = r.loc[lab], sr.values[lab]
                        if not (got == want or (got != got and want != want)):
                            pf = f'result.loc[{lab}] is {got!r}, the input held {want!r} there'
                            break
                keys_lit = f'[os_values {lit.oseries(sr)}]' if op == 'sort_values' else f'(index_keys 1%nat {lit.vlist(list(range(n)))})'
                mfun = 'M_series_sort_values' if op == 'sort_values' else 'M_series_sort_index'
                ctx.count(f'routes:auto-index:series.{op}')
                yield Case('api:routes.index', {'call': f'sf.Series(values).{op}(ascending={asc})  # default index', 'series': lit.oseries(sr), 'observed': obs},
                           m=f'oseries_res_eqb ({mfun} {P} {sseries_lit(sr, 1)} None {lit.b(asc)}) {obs}',
                           s=f'oseries_res_eqb (Ok (S_series_sort {lit.oseries(sr)} {keys_lit} {lit.b(asc)})) {obs}', py_fail=pf, tags={'op': f'Series.{op}', 'auto_index': True})
            else:
                ncols = rng.randint(1, 3)
                kinds = gen_kinds(rng, ncols)
                cols = gen_cols(rng, kinds, n)
                layout = rng.choice(list(zoo.layouts_for([c.dtype for c in cols])))
                f = zoo.frame_from_columns(cols, layout, name='A')
                il, cl = list(range(n)), list(range(ncols))
                axis = rng.choice((1, 1, 0)) if (n and all(k_ != 'str' for k_ in kinds) and not ('bool' in kinds and 'float' in kinds)) else 1
                other = ncols if axis == 1 else n
                sel = rng.sample(range(other), rng.randint(1, min(2, other)))
                holder = {}
                c = frame_sort_values_case(ctx, rng, f, cols, il, cl, 1, 1, layout, axis, sel, len(sel) == 1, asc, None, 'api:routes.index', holder=holder)
                r = holder.get('out')
                if not isinstance(r, Exception) and r is not None and axis == 1:
                    for lab in range(n):
                        got, want = r.loc[lab].values.tolist(), f.iloc[lab].values.tolist()
                        if repr(got) != repr(want):
                            c.py_fail = f'result.loc[{lab}] is {got!r}, the input held {want!r} there'
                            break
                c.tags['auto_index'] = True
                ctx.count('routes:auto-index:frame.sort_values')
                yield c


def route_bus_batch_cases(ctx, rng, count):
    # Bus.sort_index / Bus.sort_values (a Series of Frames; in memory and store-backed with max_persist=1) and Batch.sort_*
    import shutil
    import tempfile
    import static_frame as sf
    for i in range(count):
        asc = rng.random() < 0.5
        if i % 2 == 0:
            n = rng.randint(1, 5)
            labels = flat_labels(rng, n, 'str')
            rows = [rng.randint(1, 3) for _ in range(n)]
            frames = [sf.Frame(np.full((rows[k], 2), k), name=labels[k]) for k in range(n)]
            bus = sf.Bus.from_frames(frames, name='B')
            tmp = None
            stored = rng.random() < 0.4
            if stored:
                tmp = tempfile.mkdtemp(prefix='c12bus')
                fp = os.path.join(tmp, 'b.zip')
                bus.to_zip_pickle(fp)
                bus = sf.Bus.from_zip_pickle(fp, max_persist=1)
            try:
                in_lit = f'(mk_oseries {lit.vlist(labels)} {lit.vlist(list(range(n)))} DObj {lit.val(bus.name)})'
                printer = lambda b_: f'(mk_oseries {lit.vlist(lit.labels(b_.index))} {lit.vlist([int(b_[l].values[0, 0]) for l in b_.index.values.tolist()])} DObj {lit.val(b_.name)})'
                op = rng.choice(('sort_index', 'sort_values'))
                if op == 'sort_index':
                    items = label_items(labels, 1)
                    kfspec = rng.choice((None, ('len', kf_len, 'arr1'), ('last', kf_last, 'arr1')))
                    kfn = KeyFn(kfspec[1], kfspec[2]) if kfspec else None
                    keyvecs = key_vectors(items, kfspec[1]) if kfspec else [labels]
                    obs, r = run_obs(lambda: bus.sort_index(ascending=asc, key=kfn), printer)
                    mfun = 'M_series_sort_index'
                else:
                    items = [(fr,) for fr in frames]
                    kf = rng.choice((lambda t: (len(t[0]),), lambda t: (len(t[0]) % 2,), lambda t: (0,)))
                    kfspec = ('frame-rows', kf, rng.choice(('arr1', 'series')))
                    kfn = KeyFn(kf, kfspec[2])
                    keyvecs = key_vectors(items, kf)
                    obs, r = run_obs(lambda: bus.sort_values(ascending=asc, key=kfn), printer)
                    mfun = 'M_series_sort_values'
                keyres = keyres_of(kfn, items)
                pf = None
                if not isinstance(r, Exception) and not isinstance(r, sf.Bus):
                    pf = f'result is a {type(r).__name__}'
                ctx.count(f'routes:bus.{op}', f'routes:bus:stored{int(stored)}')
                yield Case('api:routes.bus', {'call': f'bus.{op}(ascending={asc}, key={kfspec and kfspec[0]})  # frames identified by their cell value; store-backed max_persist=1: {stored}',
                                              'labels': labels, 'frame_rows': rows, 'observed': obs},
                           m=f'oseries_res_eqb ({mfun} {P} (mk_sseries {in_lit} 1%nat) {opt(keyres)} {lit.b(asc)}) {obs}',
                           s=f'oseries_res_eqb (Ok (S_series_sort {in_lit} {vecs_lit(keyvecs)} {lit.b(asc)})) {obs}', py_fail=pf, tags={'op': f'Bus.{op}', 'stored': stored})
            finally:
                if tmp:
                    shutil.rmtree(tmp, ignore_errors=True)
        else:
            op = rng.choice(('sort_values', 'sort_values', 'sort_index', 'sort_columns'))
            made = []
            for name in ('f1', 'f2'):
                f, cols, il, cl, kinds, layout = make_frame(rng, rng.randint(1, 4), 3, 1, 1, kinds=['int', 'float', 'str'])
                f = f.relabel(columns=('p', 'q', 'r')).rename(name)
                made.append((name, f, cols, il, layout))
            cl = ['p', 'q', 'r']
            if op == 'sort_values':
                sel = rng.sample(range(3), rng.randint(1, 2))
                single = len(sel) == 1
                for name, f, cols, il, layout in made:
                    def recv(label, asc_, axis_, kfn_, name=name):
                        b = sf.Batch.from_frames([m_[1] for m_ in made])
                        return dict(b.sort_values(label, ascending=asc_, axis=axis_).items())[name]
                    c = frame_sort_values_case(ctx, rng, f, cols, il, cl, 1, 1, layout, 1, sel, single, asc, None, 'api:routes.batch', recv=recv)
                    c.desc['call'] = 'Batch.from_frames((f1, f2)).' + c.desc['call'] + f' -> item {name}'
                    import json as _json
                    c.key = _json.dumps(c.desc, sort_keys=True, default=str)
                    ctx.count('routes:batch.sort_values')
                    yield c
            else:
                for name, f, cols, il, layout in made:
                    def run(name=name):
                        b = sf.Batch.from_frames([m_[1] for m_ in made])
                        return dict(getattr(b, op)(ascending=asc).items())[name]
                    obs, r = run_obs(run, lit.oframe)
                    axis, labels = (1, il) if op == 'sort_index' else (0, cl)
                    mfun = 'M_frame_sort_index' if op == 'sort_index' else 'M_frame_sort_columns'
                    ctx.count(f'routes:batch.{op}')
                    yield Case('api:routes.batch', {'call': f'Batch.from_frames((f1, f2)).{op}(ascending={asc}) -> item {name}', 'frame': lit.oframe(f), 'observed': obs},
                               m=f'oframe_res_eqb ({mfun} {P} {sframe_lit(f, 1, 1)} None {lit.b(asc)}) {obs}',
                               s=f'oframe_res_eqb (Ok (S_frame_sort {axis} {lit.oframe(f)} (index_keys 1%nat {lit.vlist(labels)}) {lit.b(asc)})) {obs}',
                               tags={'op': f'Batch.{op}'})


def route_shape_cases(ctx, rng):
    # zero-sized and 1-wide shapes, every operation
    import static_frame as sf
    for nrows, ncols in ((0, 0), (3, 0), (0, 2), (1, 1), (1, 3), (3, 1)):
        il = ['b', 'a', 'c'][:nrows]
        cl = ['y', 'x', 'z'][:ncols]
        cols = [np.array([2, 0, 1][:nrows], dtype=np.int64) for _ in range(ncols)]
        for li, layout in enumerate(list(zoo.layouts_for([c.dtype for c in cols])) if cols else [()]):
            for cls in ((sf.Frame, sf.FrameGO) if li == 0 else (sf.Frame,)):
                f = zoo.frame_from_columns(cols, layout, index=mk_index(il, 1), columns=mk_index(cl, 1), name='Z', cls=cls)
                for asc in (True, False):
                    for op, axis, labels in (('sort_index', 1, il), ('sort_columns', 0, cl)):
                        obs, _ = run_obs(lambda: getattr(f, op)(ascending=asc), lit.oframe)
                        mfun = 'M_frame_sort_index' if op == 'sort_index' else 'M_frame_sort_columns'
                        ctx.count(f'routes:shape:{nrows}x{ncols}')
                        yield Case('api:routes.shape', {'call': f'{cls.__name__}{(nrows, ncols)}.{op}(ascending={asc})', 'layout': zoo.layout_str(layout), 'observed': obs},
                                   m=f'oframe_res_eqb ({mfun} {P} {sframe_lit(f, 1, 1)} None {lit.b(asc)}) {obs}',
                                   s=f'oframe_res_eqb (Ok (S_frame_sort {axis} {lit.oframe(f)} (index_keys 1%nat {lit.vlist(labels)}) {lit.b(asc)})) {obs}',
                                   tags={'op': f'Frame.{op}', 'shape': f'{nrows}x{ncols}'})
                    for axis, other in ((1, ncols), (0, nrows)):
                        if other == 0:
                            continue
                        c = frame_sort_values_case(ctx, rng, f, cols, il, cl, 1, 1, layout, axis, [0], True, asc, None, 'api:routes.shape')
                        c.tags['shape'] = f'{nrows}x{ncols}'
                        if axis == 0 and ncols == 0:
                            c.tags['finding'] = 'C12-zero-columns-axis0'
                        c.desc['call'] = f'{cls.__name__}{(nrows, ncols)}: ' + c.desc['call']
                        import json as _json
                        c.key = _json.dumps(c.desc, sort_keys=True, default=str)
                        yield c


def routes_cases(ctx):
    rng = ctx.rng
    yield from route_shape_cases(ctx, rng)
    yield from route_dtype_cases(ctx, rng, ctx.n(130, 1500))
    yield from route_label_cases(ctx, rng, ctx.n(72, 900))
    yield from route_index_cases(ctx, rng, ctx.n(96, 1200))
    yield from route_bus_batch_cases(ctx, rng, ctx.n(40, 400))


def cases(ctx):
    yield from witness_cases(ctx)
    yield from oracle_cases(ctx)
    yield from sifo_cases(ctx)
    yield from layout_cases(ctx)
    yield from long_cases(ctx)
    yield from go_cases(ctx)
    yield from routes_cases(ctx)
    yield from series_cases(ctx)
    yield from frame_values_cases(ctx)
    yield from frame_index_cases(ctx)
    yield from index_cases(ctx)
    yield from malformed_cases(ctx)
