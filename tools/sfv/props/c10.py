'''C10 -- equals is a content equivalence; SeriesHE / FrameHE honour the hash contract.'''
import ast
import itertools
import json
import os

import numpy as np

from .. import lit, zoo
from ..core import Case

ID = 'C10'
MANIFEST = {
    'text': ('Coq theorems in coq/Properties/C10.v (unbounded in sizes, block layouts and tree shapes) about the models in coq/SF/Equal.v. Specification S_*_equals '
             '(same shape, labels and cells pairwise Python-==, two self-unequal missing values NaN/NaT equal only with skipna, compare_name/dtype/class each conjoining '
             'one clause, identity shortcut): symmetric and transitive for Index, IndexHierarchy, Series, TypeBlocks, Frame and Bus under every option setting '
             '(C10_equals_sym, C10_equals_trans), reflexive with skipna and always on the same object (C10_frame_equals_refl, C10_series_equals_refl, '
             'C10_equals_same_object), default comparison characterised (C10_frame_default_exactly), options add exactly their clause (C10_frame_options_add_exactly, '
             'C10_series_options_add_exactly). Implementation model M_tb_equals of TypeBlocks.equals (the three operand paths of == : block-compatible / reblocked / '
             'column by column through axis_values(0), the both-missing mask, the walk over eq blocks with start/end offsets into the mask) equals S for EVERY pair of block layouts '
             'with only well-formedness and a layout-free guard (no datetime64 column holding NaT faces an object column) as hypotheses (C10_tb_refines, stated over the mask operands and the column-less answer extracted '
             'from the source, C10_masks_in_source; C10_tb_refines_any_mask for an arbitrary mask under tb_dom; C10_tb_layout_independent); Frame, Bus, Series, Index models refine S (C10_frame_refines, C10_bus_refines, C10_series_refines, C10_index_refines); '
             'HE: == symmetric, equal containers have the same hash key, the hash model hashes that key (C10_he_eq_sym, C10_he_frame_eq_hash, C10_he_series_eq_hash, '
             'C10_he_hash_model_is_key). The mask operands and include_none flags of TypeBlocks/Series/Index.equals, the equals keyword defaults and the keyword constants '
             'of SeriesHE/FrameHE.__eq__ are re-extracted from the source by ast on every run (Gen/Gen_c10.v); the theorems are stated over those generated constants '
             '(C10_defaults_in_source, C10_masks_in_source, C10_he_options_in_source), as is the decision sequence of IndexHierarchy.equals and the fact that it never consults the cached label table (C10_hier_equals_walks_levels), and the decision sequences of Index/Series/Frame.equals together with the fact that no equals method looks at whether an index was auto-supplied (C10_equals_decisions_in_source), and the decision sequences of Bus.equals and IndexLevel.equals incl. the body of the walk loop (C10_bus_level_decisions_in_source); the fuel of the tree-walk model always suffices (C10_level_walk_fuel_suffices). No known finding remains (four were found and repaired: f01dccf, c228306, a6983c4, e1c1c73); their inputs stay as regression cases. '
             'Correspondence: TypeBlocks.equals called directly on exhaustively enumerated small block pairs (all cell pairs of the alphabet x 1-D/2-D x skipna; all pairs of '
             'NaN masks x all pairs of layouts) and random multi-dtype tables; Frame/Series/Index/IndexHierarchy/Bus.equals, HE ==, !=, hash, set and dict membership '
             'through the public interface on pairs differing in exactly one cell, label, dtype, name, class, layout, shape or order, with NaN/None/NaT on one or both '
             'sides, all 16 option settings on fixed families, both directions; symmetry and transitivity are also checked on the implementation answers themselves.'),
    'note': ('trusted: Coq kernel, the hand-written models M_* (tied to the code by this run\'s cases), the ast extractor generate(), harness and literal printer; '
             'NumPy == on the printed scalar universe is modelled by py_eq (+ NaT->None when a datetime64 array meets an object array) and validated only by the cases. '
             'Partial: the IndexLevel.equals tree walk is modelled (M_level_walk) and run against the implementation and against the flat-label specification, but M=S is '
             'NOT proved for hierarchies (the refinement theorems for Series/Frame/Bus require flat axes); the Python hash function itself is not modelled (assumption: '
             '==-equal scalars hash alike). Pairs of DIFFERENT missing values at one position (None vs NaN, NaT vs None, NaN vs NaT) are not determined by the property: '
             'M is compared there, S is not. Not covered: timedelta64 / complex / tuple cells, datetime units other than D and s and equal instants across units, integers above 2**53, NaN labels, hierarchies deeper than 3, Bus stores other than zip-pickle, malformed hand-built IndexLevel trees (uneven depth). No open known finding; the inputs of the four repaired ones stay as regression cases (specification = correct behaviour).'),
    'technique': 'refinement proof M=S over all block layouts + generated constants + differential correspondence',
}
PROPERTY_FILES = ['Properties/C10.v']
REFUTED_FILES = []
GENERATED_FILES = ['Gen/Gen_c10.v']
MODEL_FILES = ['SF/Equal.v', 'Gen/Gen_c10.v']
IMPORTS = 'Require Import SF.Prelude SF.Dtype SF.Value SF.Equal Gen.Gen_c10.'
RULE = ('kernel stratum: TypeBlocks.equals on block pairs -- every pair of 1-column blocks over the cell alphabet (numbers, NaN, None, NaT, dates, strings) x 1-D/2-D x skipna, '
        'every pair of NaN masks of a 1xN float row x every pair of block layouts; api strata: a base container and a variant differing in exactly one of '
        '{nothing(copy), identity, cell, one-sided missing cell, label, order, shape, dtype, name, class, block layout, index kind}, for all 16 settings of '
        '(compare_name, compare_dtype, compare_class, skipna) on a fixed family and random settings elsewhere, both directions in one case; HE stratum: ==, !=, hash, '
        'set and dict membership; IndexLevel.equals called directly on whole trees, subtrees and leaves (different lengths/depths, depth-1 levels, same object); TypeBlocks.equals routes no Frame reaches (same object, compare_class, different shapes, zero rows, other not a TypeBlocks); Bus.equals on Buses read lazily from a zip-pickle store (lazy vs memory, lazy vs lazy, max_persist=1); conversions to_series_he/to_series/to_frame_he/to_frame/to_frame_go/astype; unsigned, float32, bytes and datetime64[s] cells and labels, IndexDate/IndexSecond classes, date-typed inner levels of a hierarchy; flat IndexGO, depth-3 and date-typed grow-only histories; empty shapes; auto-supplied indexes (no index=/columns=, IndexAutoFactory, unset_index; axis-index names set with rename(index=, columns=)) against each other and against explicit indexes of the same labels for every setting of compare_name/dtype/class, HE ==/!=/hash/set, and a whole-pool matrix checked for reflexivity, symmetry, transitivity and option monotonicity; histories of IndexHierarchyGO / FrameGO with hierarchical columns (readers at random points, append/extend/add-column of same or different labels, no reader between the last growth and equals; the answer must be a function of the current labels); triples for transitivity; malformed stream: other of another kind. A case is non-trivial when the two containers are different objects; '
        'distinct = distinct (recipe pair, options).')
ASSUMPTIONS = [
    'NumPy == on the generated scalars is Python == (True == 1 == 1.0, NaN/NaT self-unequal, None == None); integers stay below 2**53 so int/float comparison is exact',
    'a datetime64 array compared with an object array turns NaT into None (validated by the cases that put NaT against object columns)',
    'two tuples of pairwise ==-equal str/int/float/bool/date labels have the same Python hash (hash contract of the builtin scalar types); NaN labels are outside the quantifier',
    'CPython set/dict probing: same hash, then identity or stored_key == probe_key',
    'datetime units D and s only, and never the same instant in two units (a unit is part of the printed value); no timedelta64, complex or tuple cells (D11)',
]
TRUSTED = ['generate(): ast extraction of the both-missing mask operands / include_none flags / equals defaults / HE __eq__ keyword constants (fails closed on any other shape of the source)']
EXHAUSTIVE = {'quick': False, 'thorough': False}
TRANSLATED = []

# ------------------------------------------------------------------------------------------ source extraction
_CORE = 'static_frame/core'


def _parse(repo, rel):
    with open(os.path.join(repo, rel)) as f:
        return ast.parse(f.read())


def _method(tree, cls, name):
    for node in tree.body:
        if isinstance(node, ast.ClassDef) and node.name == cls:
            for fn in node.body:
                if isinstance(fn, ast.FunctionDef) and fn.name == name:
                    return fn
    raise ValueError(f'{cls}.{name} not found')


def _const(node, what):
    if not isinstance(node, ast.Constant) or not isinstance(node.value, bool):
        raise ValueError(f'{what}: expected a Boolean constant, found {ast.dump(node)[:80]}')
    return node.value


def _equals_defaults(fn, names):
    got = {a.arg: _const(d, f'{fn.name} default of {a.arg}') for a, d in zip(fn.args.kwonlyargs, fn.args.kw_defaults) if d is not None}
    if sorted(got) != sorted(names):
        raise ValueError(f'{fn.name}: keyword-only arguments are {sorted(got)}, expected {sorted(names)}')
    return got


def _isna_operand(node, where):
    '''`<recv>.isna(include_none=C)` or `isna_array(<recv>.values, include_none=C)` -> (recv, C).'''
    if isinstance(node, ast.Call) and isinstance(node.func, ast.Attribute) and node.func.attr == 'isna' and isinstance(node.func.value, ast.Name) and not node.args:
        recv = node.func.value.id
    elif (isinstance(node, ast.Call) and isinstance(node.func, ast.Name) and node.func.id == 'isna_array' and len(node.args) == 1
          and isinstance(node.args[0], ast.Attribute) and node.args[0].attr == 'values' and isinstance(node.args[0].value, ast.Name)):
        recv = node.args[0].value.id
    else:
        raise ValueError(f'{where}: unexpected missing-mask operand {ast.dump(node)[:120]}')
    kw = {k.arg: k.value for k in node.keywords}
    if list(kw) != ['include_none']:
        raise ValueError(f'{where}: expected exactly include_none=..., found {sorted(kw)}')
    if recv not in ('self', 'other'):
        raise ValueError(f'{where}: mask of {recv}')
    return recv, _const(kw['include_none'], where)


def _mask_cfg(fn, where):
    '''The statement `isna_both = L & R` of an equals method -> (left_is_other, right_is_other, include_none).'''
    binds = {}
    both = None
    for node in ast.walk(fn):
        if isinstance(node, ast.Assign) and len(node.targets) == 1 and isinstance(node.targets[0], ast.Name):
            binds.setdefault(node.targets[0].id, []).append(node.value)
    if len(binds.get('isna_both', ())) != 1:
        raise ValueError(f'{where}: expected exactly one assignment to isna_both')
    both = binds['isna_both'][0]
    if not (isinstance(both, ast.BinOp) and isinstance(both.op, ast.BitAnd)):
        raise ValueError(f'{where}: isna_both is not `x & y`')
    sides = []
    for side in (both.left, both.right):
        if isinstance(side, ast.Name):
            if len(binds.get(side.id, ())) != 1:
                raise ValueError(f'{where}: {side.id} is not assigned exactly once')
            side = binds[side.id][0]
        sides.append(_isna_operand(side, where))
    if sides[0][1] != sides[1][1]:
        raise ValueError(f'{where}: different include_none flags on the two sides')
    # every use of the mask must be `<eq>[isna_both] = True` / `block[target] = True`: checked loosely by the constant
    return sides[0][0] == 'other', sides[1][0] == 'other', sides[0][1]


def _he_eq_opts(fn, where):
    '''`return self.equals(other, compare_name=.., compare_dtype=.., compare_class=.., skipna=..)`.'''
    rets = [n for n in ast.walk(fn) if isinstance(n, ast.Return)]
    if len(rets) != 1 or not isinstance(rets[0].value, ast.Call):
        raise ValueError(f'{where}: expected a single `return self.equals(...)`')
    call = rets[0].value
    if not (isinstance(call.func, ast.Attribute) and call.func.attr == 'equals' and isinstance(call.func.value, ast.Name) and call.func.value.id == 'self'
            and len(call.args) == 1 and isinstance(call.args[0], ast.Name) and call.args[0].id == 'other'):
        raise ValueError(f'{where}: not `self.equals(other, ...)`')
    kw = {k.arg: _const(k.value, where) for k in call.keywords}
    if sorted(kw) != ['compare_class', 'compare_dtype', 'compare_name', 'skipna']:
        raise ValueError(f'{where}: keywords {sorted(kw)}')
    return kw


def _he_ne_is_not_eq(fn, where):
    rets = [n for n in ast.walk(fn) if isinstance(n, ast.Return)]
    ok = (len(rets) == 1 and isinstance(rets[0].value, ast.UnaryOp) and isinstance(rets[0].value.op, ast.Not)
          and isinstance(rets[0].value.operand, ast.Call) and isinstance(rets[0].value.operand.func, ast.Attribute)
          and rets[0].value.operand.func.attr == '__eq__')
    if not ok:
        raise ValueError(f'{where}: not `return not self.__eq__(other)`')


def _hash_attrs(fn, where):
    '''what is hashed, in order: tuple(self.<attr>.values) -> (attr, True); tuple(self.<attr>) -> (attr, False).'''
    out = []
    for n in ast.walk(fn):
        if not (isinstance(n, ast.Call) and isinstance(n.func, ast.Name) and n.func.id == 'tuple' and len(n.args) == 1):
            continue
        arg = n.args[0]
        uses_values = isinstance(arg, ast.Attribute) and arg.attr == 'values'
        if uses_values:
            arg = arg.value
        if isinstance(arg, ast.Attribute) and isinstance(arg.value, ast.Name) and arg.value.id == 'self' and arg.attr in ('index', 'columns', '_index', '_columns'):
            out.append((arg.attr.lstrip('_'), uses_values))
        else:
            raise ValueError(f'{where}: tuple(...) of something else than self.index / self.columns (.values)')
    return out


def _third_path_columnwise(fn):
    '''the operands of `TypeBlocks <op> TypeBlocks`: _blocks when block-compatible, _reblock() when reblock-compatible,
    else axis_values(0) on both sides (column by column); any other shape of that decision fails closed'''
    tops = [n for n in ast.walk(fn) if isinstance(n, ast.If) and ast.unparse(n.test).replace(' ', '') == 'isinstance(other,TypeBlocks)']
    if len(tops) != 1:
        raise ValueError('TypeBlocks._ufunc_binary_operator: no single `if isinstance(other, TypeBlocks)`')
    binds = {'self_operands': [], 'other_operands': []}
    found = []
    for stmt in tops[0].body:
        for n in ast.walk(stmt):
            if isinstance(n, ast.Assign) and len(n.targets) == 1 and isinstance(n.targets[0], ast.Name) and n.targets[0].id in binds:
                found.append((n.lineno, n.targets[0].id, ast.unparse(n.value).replace(' ', '')))
    for _, name, text in sorted(found):
        binds[name].append(text)
    want_self = ['self._blocks', 'self.axis_values(0)', 'self._reblock()']
    want_other = ['other._blocks', 'other.axis_values(0)', 'other._reblock()']
    if binds['self_operands'] != want_self or binds['other_operands'] != want_other:
        raise ValueError(f'TypeBlocks._ufunc_binary_operator: operand paths are {binds}, the model expects _blocks / axis_values(0) / _reblock()')
    ifs = [n for n in ast.walk(fn) if isinstance(n, ast.If) and ast.unparse(n.test).replace(' ', '') == 'notself.reblock_compatible(other)']
    if len(ifs) != 1 or 'axis_values(0)' not in ast.unparse(ifs[0].body[0]):
        raise ValueError('TypeBlocks._ufunc_binary_operator: the non-reblock-compatible branch no longer takes axis_values(0)')


def _hier_equals_steps(fn):
    '''The decision sequence of IndexHierarchy.equals: one string per top-level statement (docstring skipped): the test of an
    `if`, `return <expr>` of a return; and whether the cached label table (`_blocks`) or `_recache` is consulted anywhere.'''
    steps = []
    for node in fn.body:
        if isinstance(node, ast.Expr) and isinstance(node.value, ast.Constant) and isinstance(node.value.value, str):
            continue
        if isinstance(node, ast.If):
            tests = [ast.unparse(node.test)]
            cur = node
            while len(cur.orelse) == 1 and isinstance(cur.orelse[0], ast.If):
                cur = cur.orelse[0]
                tests.append(ast.unparse(cur.test))
            steps.append('if ' + ' | elif '.join(tests))
        elif isinstance(node, ast.Return):
            v = node.value
            if isinstance(v, ast.Call):
                steps.append('return ' + ast.unparse(v.func) + '(' + ', '.join([ast.unparse(a) for a in v.args] + [k.arg for k in v.keywords]) + ')')
            else:
                steps.append('return ' + ast.unparse(v))
        elif isinstance(node, ast.For):
            steps.append('for ' + ast.unparse(node.target) + ' in ' + ast.unparse(node.iter) + ': ' +
                         ' ; '.join('if ' + ast.unparse(x.test) if isinstance(x, ast.If) else type(x).__name__ for x in node.body))
        elif isinstance(node, ast.While):
            steps.append('while ' + ast.unparse(node.test) + ': ' +
                         ' ; '.join('if ' + ast.unparse(x.test) if isinstance(x, ast.If) else ast.unparse(x) if isinstance(x, ast.Assign) else type(x).__name__ for x in node.body))
        else:
            steps.append(type(node).__name__ + ': ' + ' '.join(ast.unparse(node).split())[:120])
    reads = any(isinstance(n, ast.Attribute) and n.attr in ('_blocks', '_recache') for n in ast.walk(fn))
    return [t.replace('"', "'") for t in steps], reads


def _consults_auto(fn):
    '''does an equals method look at HOW an index came about (auto-supplied: no label map, loc_is_iloc, IndexAutoFactory)?'''
    for n in ast.walk(fn):
        name = n.attr if isinstance(n, ast.Attribute) else n.id if isinstance(n, ast.Name) else n.value if isinstance(n, ast.Constant) and isinstance(n.value, str) and n is not ast.get_docstring(fn) else None
        if isinstance(name, str) and len(name) < 60:
            low = name.lower()
            if low in ('_map', 'static') or 'loc_is_iloc' in low or 'auto' in low:
                return True
    return False


def _zero_columns_answered(fn):
    '''a top-level `if self._shape[1] == 0: return True` before the `try: eq = self == other` of TypeBlocks.equals'''
    for node in fn.body:
        if isinstance(node, ast.Try):
            return False
        if (isinstance(node, ast.If) and not node.orelse and len(node.body) == 1 and isinstance(node.body[0], ast.Return)
                and isinstance(node.body[0].value, ast.Constant) and node.body[0].value.value is True
                and ast.unparse(node.test).replace(' ', '') == 'self._shape[1]==0'):
            return True
    return False


def _b(v):
    return 'true' if v else 'false'


def _opts_lit(d):
    return f'(mk_eopts {_b(d["compare_name"])} {_b(d["compare_dtype"])} {_b(d["compare_class"])} {_b(d["skipna"])})'


def generate(repo):
    tb = _parse(repo, f'{_CORE}/type_blocks.py')
    fr = _parse(repo, f'{_CORE}/frame.py')
    se = _parse(repo, f'{_CORE}/series.py')
    ix = _parse(repo, f'{_CORE}/index.py')
    ih = _parse(repo, f'{_CORE}/index_hierarchy.py')
    bu = _parse(repo, f'{_CORE}/bus.py')
    full = ('compare_name', 'compare_dtype', 'compare_class', 'skipna')
    cfg_tb = _mask_cfg(_method(tb, 'TypeBlocks', 'equals'), 'TypeBlocks.equals')
    cfg_se = _mask_cfg(_method(se, 'Series', 'equals'), 'Series.equals')
    cfg_ix = _mask_cfg(_method(ix, 'Index', 'equals'), 'Index.equals')
    d_tb = dict(_equals_defaults(_method(tb, 'TypeBlocks', 'equals'), full[1:]), compare_name=False)
    defaults = {
        'tb': d_tb,
        'frame': _equals_defaults(_method(fr, 'Frame', 'equals'), full),
        'series': _equals_defaults(_method(se, 'Series', 'equals'), full),
        'index': _equals_defaults(_method(ix, 'Index', 'equals'), full),
        'hier': _equals_defaults(_method(ih, 'IndexHierarchy', 'equals'), full),
        'bus': _equals_defaults(_method(bu, 'Bus', 'equals'), full),
    }
    he_f = _he_eq_opts(_method(fr, 'FrameHE', '__eq__'), 'FrameHE.__eq__')
    he_s = _he_eq_opts(_method(se, 'SeriesHE', '__eq__'), 'SeriesHE.__eq__')
    _he_ne_is_not_eq(_method(fr, 'FrameHE', '__ne__'), 'FrameHE.__ne__')
    _he_ne_is_not_eq(_method(se, 'SeriesHE', '__ne__'), 'SeriesHE.__ne__')
    hf = _hash_attrs(_method(fr, 'FrameHE', '__hash__'), 'FrameHE.__hash__')
    hs = _hash_attrs(_method(se, 'SeriesHE', '__hash__'), 'SeriesHE.__hash__')
    if [a for a, _ in hf] != ['index', 'columns'] or len({v for _, v in hf}) != 1:
        raise ValueError('FrameHE.__hash__ no longer hashes (tuple(index[.values]), tuple(columns[.values]))')
    if [a for a, _ in hs] != ['index']:
        raise ValueError('SeriesHE.__hash__ no longer hashes tuple(index[.values])')
    ih_steps, ih_reads_table = _hier_equals_steps(_method(ih, 'IndexHierarchy', 'equals'))
    eq_methods = {'index': _method(ix, 'Index', 'equals'), 'series': _method(se, 'Series', 'equals'), 'frame': _method(fr, 'Frame', 'equals'),
                  'hier': _method(ih, 'IndexHierarchy', 'equals'), 'bus': _method(bu, 'Bus', 'equals'), 'tb': _method(tb, 'TypeBlocks', 'equals')}
    consults_auto = any(_consults_auto(f) for f in eq_methods.values())
    il = _parse(repo, f'{_CORE}/index_level.py')
    eq_methods['level'] = _method(il, 'IndexLevel', 'equals')
    consults_auto = consults_auto or _consults_auto(eq_methods['level'])
    steps = {k: _hier_equals_steps(eq_methods[k])[0] for k in ('index', 'series', 'frame', 'bus', 'level')}
    zero_ok = _zero_columns_answered(_method(tb, 'TypeBlocks', 'equals'))
    _third_path_columnwise(_method(tb, 'TypeBlocks', '_ufunc_binary_operator'))
    lines = ['(* GENERATED on every run by tools/sfv/props/c10.py:generate from static_frame/core/{type_blocks,frame,series,index,index_hierarchy,bus}.py -- do not edit. *)',
             'Require Import SF.Prelude SF.Equal.', '']
    for name, cfg, src in (('c10_cfg_tb', cfg_tb, 'TypeBlocks.equals: isna_both = <left> & <right>'),
                           ('c10_cfg_series', cfg_se, 'Series.equals'), ('c10_cfg_index', cfg_ix, 'Index.equals')):
        lines.append(f'(* {src}; fields: left operand is other?, right operand is other?, include_none, (TypeBlocks only) `if self._shape[1] == 0: return True` before == *)')
        lines.append(f'Definition {name} : mcfg := mk_mcfg {_b(cfg[0])} {_b(cfg[1])} {_b(cfg[2])} {_b(zero_ok if name == "c10_cfg_tb" else True)}.')
    lines.append('Definition c10_cfgs : mcfgs := mk_mcfgs c10_cfg_tb c10_cfg_series c10_cfg_index.')
    lines.append('(* checked: TypeBlocks._ufunc_binary_operator takes _blocks / _reblock() / axis_values(0) as operands (the three paths of M_tb_equals) *)')
    lines.append('')
    lines.append('(* IndexHierarchy.equals: its decisions in order, and whether it consults the cached label table (_blocks / _recache) *)')
    lines.append('Definition c10_hier_equals_steps : list string := ' + lit.lst([lit.s(t) for t in ih_steps]) + '%string.')
    lines.append(f'Definition c10_hier_reads_cached_table : bool := {_b(ih_reads_table)}.')
    lines.append('(* Index / Series / Frame.equals: top-level decisions in order; and whether ANY equals method looks at how an index came about')
    lines.append('   (auto-supplied: _map is None / loc_is_iloc / IndexAutoFactory) *)')
    for k in ('index', 'series', 'frame', 'bus', 'level'):
        lines.append(f'Definition c10_{k}_equals_steps : list string := ' + lit.lst([lit.s(t) for t in steps[k]]) + '%string.')
    lines.append(f'Definition c10_equals_consults_auto : bool := {_b(consults_auto)}.')
    lines.append('')
    lines.append('(* keyword defaults of equals: compare_name compare_dtype compare_class skipna *)')
    for k, d in defaults.items():
        lines.append(f'Definition c10_default_{k} : eopts := {_opts_lit(d)}.')
    lines.append('')
    lines.append('(* keyword constants of FrameHE.__eq__ / SeriesHE.__eq__ (self.equals(other, ...)); __ne__ is `not self.__eq__(other)` *)')
    lines.append(f'Definition c10_he_frame : eopts := {_opts_lit(he_f)}.')
    lines.append(f'Definition c10_he_series : eopts := {_opts_lit(he_s)}.')
    lines.append('(* __hash__ hashes tuple(self.index.values) [true] or tuple(self.index) [false] *)')
    lines.append(f'Definition c10_hash_values_frame : bool := {_b(hf[0][1])}.')
    lines.append(f'Definition c10_hash_values_series : bool := {_b(hs[0][1])}.')
    return {'Gen/Gen_c10.v': '\n'.join(lines) + '\n'}


# ------------------------------------------------------------------------------------------ recipes -> objects
# A recipe is a JSON-able dict; cells/labels are tokens: int, float (finite), bool, str, None,
# '@nan', '@nat', '@inf', '@d:YYYY-MM-DD' (datetime64[D]).
NAT = np.datetime64('NaT', 'D')


def dec(tok):
    if isinstance(tok, str) and tok.startswith('@'):
        if tok == '@nan':
            return float('nan')
        if tok == '@nat':
            return NAT
        if tok == '@inf':
            return float('inf')
        if tok.startswith('@d:'):
            return np.datetime64(tok[3:], 'D')
        if tok.startswith('@s:'):
            return np.datetime64(tok[3:], 's')
        if tok.startswith('@b:'):
            return tok[3:].encode('ascii')
        raise ValueError(tok)
    if isinstance(tok, list):
        return tuple(dec(t) for t in tok)
    return tok


def col_array(dtype, toks):
    vals = [dec(t) for t in toks]
    if dtype == 'object':
        a = np.empty(len(vals), dtype=object)
        for i, v in enumerate(vals):
            a[i] = v
    elif dtype.startswith('datetime64'):
        unit = dtype[dtype.index('[') + 1:-1]
        a = np.array([np.datetime64(v, unit) for v in vals], dtype=dtype) if vals else np.empty(0, dtype=dtype)
    else:
        a = np.array(vals, dtype=dtype)
    a.flags.writeable = False
    return a


def parse_layout(text):
    return tuple((int(p[:-1]), p[-1] == 'd') for p in text.split('|')) if text else ()


def build_index(rec):
    import static_frame as sf
    cls = getattr(sf, rec['cls'])
    if rec['cls'].startswith('IndexHierarchy'):
        if rec.get('product'):
            # from_product shares one index object among all children of a depth
            return cls.from_product(*[[dec(t) for t in level] for level in rec['product']], name=dec(rec.get('name')))
        kw = {}
        if rec.get('index_constructors'):
            kw['index_constructors'] = [getattr(sf, c) for c in rec['index_constructors']]      # e.g. a date-typed inner level
        return cls.from_labels([tuple(dec(t) for t in lab) for lab in rec['labels']], name=dec(rec.get('name')), **kw)
    if rec['cls'].startswith(('IndexDate', 'IndexSecond', 'IndexYear')):
        return cls([dec(t) for t in rec['labels']], name=dec(rec.get('name')))
    if rec.get('auto'):
        # an index the library supplied itself (integers 0..n-1, no label map): taken from a Series built without index=
        n = len(rec['labels'])
        auto = sf.Series(np.zeros(n), index=sf.IndexAutoFactory if rec['auto'] == 'factory' else None).index
        if auto._map is not None or auto.values.tolist() != rec['labels']:
            raise ValueError('not an auto-supplied index')
        out = auto.rename(dec(rec.get('name'))) if rec['cls'] == 'Index' else cls(auto, name=dec(rec.get('name')))
        return out
    dtype = rec.get('dtype')
    labels = [dec(t) for t in rec['labels']]
    if dtype is not None:
        return cls(col_array(dtype, rec['labels']), name=dec(rec.get('name')))
    return cls(labels, name=dec(rec.get('name')))


def build_series(rec):
    import static_frame as sf
    cls = getattr(sf, rec['cls'])
    ir = rec['index']
    if ir.get('auto'):
        # no index given (or IndexAutoFactory): the library supplies it; its name is set afterwards with rename(index=...)
        out = cls(col_array(rec['dtype'], rec['values']), name=dec(rec.get('name')), **({'index': sf.IndexAutoFactory} if ir['auto'] == 'factory' else {}))
        if ir.get('name') is not None:
            out = out.rename(index=dec(ir['name']))
        if out.index._map is not None or type(out) is not cls:
            raise ValueError('not an auto-supplied index')
        return out
    return cls(col_array(rec['dtype'], rec['values']), index=build_index(ir), name=dec(rec.get('name')))


def build_frame(rec):
    import static_frame as sf
    cls = getattr(sf, rec['cls'])
    cols = [col_array(d, v) for d, v in rec['cols']]
    ir, cr = rec['index'], rec['columns']
    index = None if ir.get('auto') else build_index(ir)
    columns = None if cr.get('auto') else build_index(cr)
    out = zoo.frame_from_columns(cols, parse_layout(rec['layout']), index=index, columns=columns, name=dec(rec.get('name')), cls=cls)
    if ir.get('auto') == 'unset_index':
        # labels of column 0 become the index and come back as column 0: the row index is then supplied by unset_index
        c0 = out.columns.values.tolist()[0]
        out = out.set_index(c0, drop=True).unset_index()
        out = out if type(out) is cls else cls(out)
    kw = {}
    if ir.get('auto') and ir.get('name') is not None:
        kw['index'] = dec(ir['name'])
    if cr.get('auto') and cr.get('name') is not None:
        kw['columns'] = dec(cr['name'])
    if kw:
        out = out.rename(**kw)
    if (ir.get('auto') and out.index._map is not None) or (cr.get('auto') and out.columns._map is not None) or type(out) is not cls:
        raise ValueError('not an auto-supplied index')
    return out


def build_bus(rec):
    import static_frame as sf
    frames = [build_frame(f) for f in rec['frames']]
    return sf.Bus.from_frames(frames, name=dec(rec.get('name')))


def _realise(ix, how):
    '''a reader that makes a hierarchy realise (cache) its label table'''
    if how == 'values':
        ix.values
    elif how == 'display':
        str(ix)
    elif how == 'reversed':
        list(reversed(ix))
    elif how == 'iloc':
        if len(ix):
            ix.iloc[0]
    elif how == 'len':
        len(ix)
    elif how != 'none':
        raise ValueError(how)


def build_index_history(rec):
    '''an IndexHierarchyGO with a HISTORY: ops are ['read', how] | ['append', label] | ['extend', labels]'''
    import static_frame as sf
    if rec.get('flat'):
        ix = sf.IndexGO([dec(t) for t in rec['labels']], name=dec(rec.get('name')))
        for op in rec['ops']:
            if op[0] == 'read':
                _realise(ix, op[1])
            elif op[0] == 'append':
                ix.append(dec(op[1]))
            elif op[0] == 'extend':
                ix.extend([dec(t) for t in op[1]])
        return ix
    kw = {'index_constructors': [getattr(sf, c) for c in rec['index_constructors']]} if rec.get('index_constructors') else {}
    ix = sf.IndexHierarchyGO.from_labels([tuple(dec(t) for t in lab) for lab in rec['labels']], name=dec(rec.get('name')), **kw)
    for op in rec['ops']:
        if op[0] == 'read':
            _realise(ix, op[1])
        elif op[0] == 'append':
            ix.append(tuple(dec(t) for t in op[1]))
        elif op[0] == 'extend':
            ix.extend(sf.IndexHierarchy.from_labels([tuple(dec(t) for t in lab) for lab in op[1]], **kw))
        else:
            raise ValueError(op)
    return ix


def build_frame_history(rec):
    '''a FrameGO with hierarchical columns; ops: ['read', how] on the columns | ['add', label, values]'''
    import static_frame as sf
    cols = sf.IndexHierarchyGO.from_labels([tuple(dec(t) for t in lab) for lab in rec['columns']])
    f = sf.FrameGO.from_records(rec['records'], columns=cols, name=dec(rec.get('name')))
    for op in rec['ops']:
        if op[0] == 'read':
            _realise(f.columns, op[1])
        elif op[0] == 'add':
            f[tuple(dec(t) for t in op[1])] = list(op[2])
        else:
            raise ValueError(op)
    return f


def build(rec):
    return {'index': build_index, 'series': build_series, 'frame': build_frame, 'bus': build_bus,
            'index-history': build_index_history, 'frame-history': build_frame_history}[rec['kind']](rec)


# ------------------------------------------------------------------------------------------ objects -> literals
CLS = {'Frame': 1, 'FrameGO': 2, 'FrameHE': 3, 'Series': 10, 'SeriesHE': 11, 'Index': 20, 'IndexGO': 21, 'IndexDate': 22, 'IndexDateGO': 23,
       'IndexSecond': 24, 'IndexSecondGO': 25, 'IndexYear': 26, 'IndexYearGO': 27,
       'IndexHierarchy': 30, 'IndexHierarchyGO': 31, 'Bus': 40, 'TypeBlocks': 50}


class Ids:
    '''small integers naming Python objects within one case (identity shortcut)'''

    def __init__(self):
        self.m = {}
        self.keep = []

    def __call__(self, obj):
        self.keep.append(obj)
        return lit.z(self.m.setdefault(id(obj), len(self.m) + 1))


def cls_id(obj):
    return lit.z(CLS[type(obj).__name__])


def flat_index_lit(ix, ids):
    labels = lit.labels(ix)
    return f'(mk_eindex {ids(ix)} {cls_id(ix)} {lit.val(ix.name)} {lit.dtype(ix.dtype)} {lit.vlist(labels)})'


def level_lit(level, ids):
    kids = [] if level.targets is None else [level_lit(t, ids) for t in level.targets]
    return f'(Lvl {flat_index_lit(level.index, ids)} {lit.lst(kids)})'


def axis_lit(ix, ids):
    if ix.depth > 1:
        return f'(AHier (mk_ehier {ids(ix)} {cls_id(ix)} {lit.val(ix.name)} {level_lit(ix._levels, ids)}))'
    return f'(AFlat {flat_index_lit(ix, ids)})'


def tb_lit(tb, ids):
    blocks = []
    for b in tb._blocks:
        cols = [b] if b.ndim == 1 else [b[:, j] for j in range(b.shape[1])]
        blocks.append(f'({lit.dtype(b.dtype)}, {lit.lst([lit.vlist(lit.array_vals(c)) for c in cols])})')
    return f'(mk_etb {ids(tb)} {lit.z(tb._shape[0])} {lit.lst(blocks)})'


def series_lit(s, ids):
    return (f'(mk_eseries {ids(s)} {cls_id(s)} {lit.val(s.name)} {lit.dtype(s.values.dtype)} {lit.vlist(lit.array_vals(s.values))} {axis_lit(s._index, ids)})')


def frame_lit(f, ids):
    return (f'(mk_eframe {ids(f)} {cls_id(f)} {lit.val(f.name)} {tb_lit(f._blocks, ids)} {axis_lit(f._index, ids)} {axis_lit(f._columns, ids)})')


def bus_lit(b, ids):
    frames = [frame_lit(f, ids) for _, f in b.items()]          # items() loads what a lazy Bus has not loaded (or no longer holds)
    return f'(mk_ebus {ids(b)} {cls_id(b)} {lit.val(b._series._name)} {axis_lit(b._series._index, ids)} {lit.lst(frames)})'


def obj_lit(kind, obj, ids):
    if kind == 'index':
        return axis_lit(obj, ids)
    return {'series': series_lit, 'frame': frame_lit, 'bus': bus_lit, 'tb': tb_lit}[kind](obj, ids)


FN = {'index': 'axis', 'series': 'series', 'frame': 'frame', 'bus': 'bus', 'tb': 'tb'}


def m_call(kind, o, a, b):
    if kind == 'tb':
        return f'(M_tb_equals c10_cfg_tb {o} {a} {b})'
    return f'(M_{FN[kind]}_equals c10_cfgs {o} {a} {b})'


def s_call(kind, o, a, b):
    if kind == 'index':
        return (f'(Ok (match {a}, {b} with AFlat x, AFlat y => S_index_equals {o} x y | AHier x, AHier y => S_hier_equals {o} x y | _, _ => false end))')
    return f'(Ok (S_{FN[kind]}_equals {o} {a} {b}))'


OPT_KEYS = ('compare_name', 'compare_dtype', 'compare_class', 'skipna')
ALL_OPTS = [dict(zip(OPT_KEYS, bits)) for bits in itertools.product((False, True), repeat=4)]
DEFAULT_OPTS = dict(compare_name=False, compare_dtype=False, compare_class=False, skipna=True)


def opts_lit(o):
    return f'(mk_eopts {_b(o["compare_name"])} {_b(o["compare_dtype"])} {_b(o["compare_class"])} {_b(o["skipna"])})'


def call_equals(kind, a, b, o):
    kw = dict(o)
    if kind == 'tb':
        kw.pop('compare_name')
    text, out = lit.res(lambda: a.equals(b, **kw), lambda r: lit.b(bool(r)))
    return text, out


# ------------------------------------------------------------------------------------------ input classes (by construction)
MISSING = {'@nan': 'nan', '@nat': 'nat', None: 'none'}


def _miss(tok):
    try:
        return MISSING.get(tok)
    except TypeError:
        return None


def _cells(rec):
    '''aligned cell token grids of a recipe: list of columns'''
    k = rec['kind']
    if k == 'series':
        return [rec['values']]
    if k == 'frame':
        return [v for _, v in rec['cols']]
    if k == 'tb':
        return [v for _, v in rec['cols']]
    if k == 'bus':
        out = []
        for f in rec['frames']:
            out += [v for _, v in f['cols']]
        return out
    return []


def _same_shape(ra, rb):
    ca, cb = _cells(ra), _cells(rb)
    return len(ca) == len(cb) and all(len(x) == len(y) for x, y in zip(ca, cb))


def _pairs(ra, rb):
    for x, y in zip(_cells(ra), _cells(rb)):
        yield from zip(x, y)


def hetero_missing(ra, rb):
    '''two DIFFERENT missing values at one position (None/NaN, NaT/None, NaN/NaT): not determined by the property'''
    if not _same_shape(ra, rb):
        return False
    return any(_miss(x) and _miss(y) and _miss(x) != _miss(y) for x, y in _pairs(ra, rb))


def one_sided_nan(ra, rb):
    '''a position where exactly one side holds NaN/NaT (what the mask marks) -- class of finding C10-tb-mask-self'''
    if not _same_shape(ra, rb):
        return False
    return any((_miss(x) in ('nan', 'nat')) != (_miss(y) in ('nan', 'nat')) for x, y in _pairs(ra, rb))


def _frames_of(rec):
    return rec['frames'] if rec['kind'] == 'bus' else [rec]


def _path_is_values(fa, fb):
    '''which operand path TypeBlocks.__eq__ takes, from the INPUT layouts and dtypes'''
    def widths(f):
        return [w for w, _ in parse_layout(f['layout'])]

    def sig(f):
        out = []
        pos = 0
        for w, _ in parse_layout(f['layout']):
            d = np.dtype(f['cols'][pos][0])
            if out and out[-1][0] == d:
                out[-1][1] += w
            else:
                out.append([d, w])
            pos += w
        return [w for _, w in out]
    if widths(fa) == widths(fb):
        return False
    return sig(fa) != sig(fb)


def _row_is_object(f):
    fams = set()
    for d, _ in f['cols']:
        k = np.dtype(d).kind
        fams.add({'b': 0, 'i': 1, 'u': 1, 'f': 1, 'c': 1, 'U': 2, 'S': 2, 'M': 3, 'm': 4, 'O': 5}[k])
    return len(fams) > 1 or fams == {5}


def nat_pair_values_path(ra, rb):
    '''class of finding C10-nat-values-path: NaT at one position on both sides in datetime64 columns of two tables whose == goes
    through .values with an object row dtype on both sides'''
    if ra['kind'] not in ('frame', 'tb', 'bus') or not _same_shape(ra, rb):
        return False
    for fa, fb in zip(_frames_of(ra), _frames_of(rb)):
        if not fa['cols'] or len(fa['cols']) != len(fb['cols']):
            continue
        if not (_path_is_values(fa, fb) and _row_is_object(fa) and _row_is_object(fb)):
            continue
        for (da, va), (db, vb) in zip(fa['cols'], fb['cols']):
            if da.startswith('datetime64') and db.startswith('datetime64') and any(x == '@nat' and y == '@nat' for x, y in zip(va, vb)):
                return True
    return False


def zero_columns(ra, rb):
    '''class of finding C10-zero-columns: two tables without columns and the same number of rows'''
    if ra['kind'] not in ('frame', 'tb', 'bus'):
        return False
    fa, fb = _frames_of(ra), _frames_of(rb)
    if len(fa) != len(fb):
        return False
    def rows(r):
        return r.get('rows', 0) if r['kind'] == 'tb' else len(r['index']['labels'])
    return any(not x['cols'] and not y['cols'] and rows(x) == rows(y) for x, y in zip(fa, fb))


def finding_tags(kind, ra, rb, o):
    '''finding class of a case, decided from the INPUT only'''
    if kind in ('frame', 'tb', 'bus'):
        # (the classes of the repaired findings C10-tb-mask-self / C10-zero-columns / C10-nat-values-path stay as regression inputs, untagged)
        pass
    return None


# ------------------------------------------------------------------------------------------ recipe generators
def ix_rec(labels, cls='Index', name=None, dtype=None):
    r = {'kind': 'index', 'cls': cls, 'labels': list(labels), 'name': name}
    if dtype is not None:
        r['dtype'] = dtype
    return r


def fr_rec(cols, layout=None, index=None, columns=None, name=None, cls='Frame'):
    '''cols: [(dtype, tokens)]'''
    cols = [(d, list(v)) for d, v in cols]
    rows = len(cols[0][1]) if cols else (len(index['labels']) if index else 0)
    if layout is None:
        layout = '|'.join('1s' for _ in cols)
    return {'kind': 'frame', 'cls': cls, 'name': name, 'cols': cols, 'layout': layout,
            'index': index or ix_rec(range(rows)), 'columns': columns or ix_rec([f'c{j}' for j in range(len(cols))])}


def se_rec(dtype, values, index=None, name=None, cls='Series'):
    values = list(values)
    return {'kind': 'series', 'cls': cls, 'name': name, 'dtype': dtype, 'values': values, 'index': index or ix_rec(range(len(values)))}


def layouts_of(rec):
    return [zoo.layout_str(l) for l in zoo.layouts_for([d for d, _ in rec['cols']])] if rec['cols'] else ['']


ALPHA = {
    'int64': [0, 1, 2, -3],
    'float64': [0.0, 1.0, 1.5, '@nan', '@inf'],
    'bool': [True, False],
    '<U2': ['a', 'b', 'ab'],
    'object': [None, '@nan', 1, 'a', 1.5, True, '@nat', '@d:2020-01-01'],
    'datetime64[D]': ['@d:2020-01-01', '@d:2020-01-02', '@nat'],
    # further dtype kinds: unsigned, narrow float, bytes, a finer datetime unit (instants off midnight: never equal to a [D] value)
    'uint8': [0, 1, 2, 255],
    'float32': [0.0, 1.0, 1.5, '@nan'],
    '|S2': ['@b:a', '@b:b', '@b:ab'],
    'datetime64[s]': ['@s:2020-01-01T00:00:01', '@s:2020-01-02T10:00:00', '@nat'],
}
# a dtype that can hold the same (non-missing) values: the "one dtype differs" variants
DTYPE_ALT = {'int64': ['float64', 'object'], 'float64': ['object'], 'bool': ['object'], '<U2': ['object', '<U3'],
             'datetime64[D]': ['object'], 'object': [], 'uint8': ['int64', 'float32', 'object'], 'float32': ['float64', 'object'],
             '|S2': ['object', '|S3'], 'datetime64[s]': []}


def _alt_ok(dtype, alt, toks):
    if dtype == 'float64' and alt == 'object':
        return True
    if dtype == 'datetime64[D]' and alt == 'object':
        return True
    return True


def rand_cols(rng, ncols, nrows, dtypes=None, p_missing=0.25):
    cols = []
    for _ in range(ncols):
        d = rng.choice(dtypes or list(ALPHA))
        toks = []
        for _ in range(nrows):
            alpha = ALPHA[d]
            miss = [t for t in alpha if _miss(t)]
            plain = [t for t in alpha if not _miss(t)]
            toks.append(rng.choice(miss) if miss and rng.random() < p_missing else rng.choice(plain))
        cols.append((d, toks))
    return cols


def other_value(rng, dtype, tok):
    cands = [t for t in ALPHA[dtype] if t != tok and not (isinstance(t, bool) != isinstance(tok, bool) and t == tok)]
    # a value that is not ==-equal to tok (True == 1, 1.0 == 1)
    def eqv(a, b):
        if _miss(a) or _miss(b):
            return a == b
        try:
            return dec(a) == dec(b)
        except Exception:  # noqa
            return False
    cands = [t for t in cands if not eqv(t, tok)]
    return rng.choice(cands) if cands else None


def frame_variants(rng, base):
    '''(what, recipe) variants of a frame recipe, each differing from base in exactly one aspect'''
    import copy
    out = [('copy', copy.deepcopy(base))]
    cols = base['cols']
    nrows = len(base['index']['labels'])
    if cols and nrows:
        j = rng.randrange(len(cols))
        i = rng.randrange(nrows)
        d, toks = cols[j]
        nv = other_value(rng, d, toks[i])
        if nv is not None:
            v = copy.deepcopy(base)
            v['cols'][j][1][i] = nv
            out.append(('cell', v))
        miss = [t for t in ALPHA[d] if _miss(t) in ('nan', 'nat')]
        if miss and not _miss(toks[i]):
            v = copy.deepcopy(base)
            v['cols'][j][1][i] = miss[0]
            out.append(('cell-missing-one-side', v))
        # one dtype differs, same values
        alts = [a for a in DTYPE_ALT[d]]
        if alts:
            v = copy.deepcopy(base)
            alt = rng.choice(alts)
            v['cols'][j] = (alt, list(toks))
            v['layout'] = rng.choice(layouts_of(v))
            out.append(('dtype', v))
    if cols:
        lays = [l for l in layouts_of(base) if l != base['layout']]
        if lays:
            v = copy.deepcopy(base)
            v['layout'] = rng.choice(lays)
            out.append(('layout', v))
        v = copy.deepcopy(base)
        labs = v['columns']['labels']
        labs[rng.randrange(len(labs))] = 'zz'
        out.append(('label-columns', v))
        if len(cols) > 1:
            v = copy.deepcopy(base)
            v['cols'] = v['cols'][:-1]
            v['columns']['labels'] = v['columns']['labels'][:-1]
            v['layout'] = rng.choice(layouts_of(v))
            out.append(('shape-columns', v))
            v = copy.deepcopy(base)
            v['cols'][0], v['cols'][1] = v['cols'][1], v['cols'][0]
            v['layout'] = rng.choice(layouts_of(v))
            out.append(('order-columns-values', v))
    hier = base['index']['cls'].startswith('IndexHierarchy')
    if nrows:
        v = copy.deepcopy(base)
        labs = v['index']['labels']
        if hier:
            labs[-1] = list(labs[-1][:-1]) + ['zz']
        else:
            labs[rng.randrange(len(labs))] = 99
        out.append(('label-index', v))
        if nrows > 1:
            if not hier:
                v = copy.deepcopy(base)
                v['index']['labels'] = v['index']['labels'][::-1]
                out.append(('order-index', v))
            v = copy.deepcopy(base)
            v['index']['labels'] = v['index']['labels'][:-1]
            v['cols'] = [(d, t[:-1]) for d, t in v['cols']]
            out.append(('shape-rows', v))
    v = copy.deepcopy(base)
    v['name'] = 'other' if base.get('name') != 'other' else 'nm'
    out.append(('name', v))
    v = copy.deepcopy(base)
    v['cls'] = rng.choice([c for c in ('Frame', 'FrameGO', 'FrameHE') if c != base['cls']])
    out.append(('class', v))
    v = copy.deepcopy(base)
    v['index']['name'] = 'ixn'
    out.append(('index-name', v))
    v = copy.deepcopy(base)
    v['index']['cls'] = 'IndexGO' if base['index']['cls'] == 'Index' else base['index']['cls']
    if v['index']['cls'] != base['index']['cls']:
        out.append(('index-class', v))
    return out


def series_variants(rng, base):
    import copy
    out = [('copy', copy.deepcopy(base))]
    n = len(base['values'])
    d = base['dtype']
    if n:
        i = rng.randrange(n)
        nv = other_value(rng, d, base['values'][i])
        if nv is not None:
            v = copy.deepcopy(base)
            v['values'][i] = nv
            out.append(('cell', v))
        miss = [t for t in ALPHA[d] if _miss(t) in ('nan', 'nat')]
        if miss and not _miss(base['values'][i]):
            v = copy.deepcopy(base)
            v['values'][i] = miss[0]
            out.append(('cell-missing-one-side', v))
        if DTYPE_ALT[d]:
            v = copy.deepcopy(base)
            v['dtype'] = rng.choice(DTYPE_ALT[d])
            out.append(('dtype', v))
        v = copy.deepcopy(base)
        labs = v['index']['labels']
        if v['index']['cls'].startswith('IndexHierarchy'):
            labs[-1] = list(labs[-1][:-1]) + ['zz']
        elif v['index']['cls'].startswith('IndexDate'):
            labs[rng.randrange(n)] = '@d:1999-12-31'
        else:
            labs[rng.randrange(n)] = 99
        out.append(('label-index', v))
        if n > 1:
            v = copy.deepcopy(base)
            v['values'] = v['values'][:-1]
            v['index']['labels'] = v['index']['labels'][:-1]
            out.append(('shape', v))
            if not v['index']['cls'].startswith('IndexHierarchy'):
                v = copy.deepcopy(base)
                v['index']['labels'] = v['index']['labels'][::-1]
                out.append(('order-index', v))
    v = copy.deepcopy(base)
    v['name'] = 'other'
    out.append(('name', v))
    v = copy.deepcopy(base)
    v['cls'] = 'SeriesHE' if base['cls'] == 'Series' else 'Series'
    out.append(('class', v))
    return out


def index_variants(rng, base):
    import copy
    out = [('copy', copy.deepcopy(base))]
    labs = base['labels']
    hier = base['cls'].startswith('IndexHierarchy')
    date = base['cls'].startswith('IndexDate')
    if hier and len(labs) > 2:
        # change the inner label of an EARLY row only (the walk pops the last children first)
        v = copy.deepcopy(base)
        v.pop('product', None)
        k = rng.randrange(0, len(labs) - 1)
        v['labels'][k] = list(labs[k][:-1]) + ['zy']
        if sorted(map(str, v['labels'])) and len({tuple(map(str, l)) for l in v['labels']}) == len(v['labels']):
            out.append(('label-early', v))
    if labs:
        v = copy.deepcopy(base)
        v.pop('product', None)
        i = rng.randrange(len(labs))
        if hier:
            v['labels'][-1] = list(labs[-1][:-1]) + ['zz']
        elif date:
            v['labels'][i] = '@d:1999-12-31'
        else:
            v['labels'][i] = 'zz'
        out.append(('label', v))
        if len(labs) > 1:
            v = copy.deepcopy(base)
            v.pop('product', None)
            v['labels'] = labs[:-1]
            out.append(('shape', v))
            if not hier:
                v = copy.deepcopy(base)
                v['labels'] = labs[::-1]
                out.append(('order', v))
    v = copy.deepcopy(base)
    v['name'] = 'other'
    out.append(('name', v))
    v = copy.deepcopy(base)
    v['cls'] = base['cls'][:-2] if base['cls'].endswith('GO') else base['cls'] + 'GO'
    out.append(('class', v))
    if not hier and not date and labs and all(isinstance(t, int) and not isinstance(t, bool) for t in labs):
        v = copy.deepcopy(base)
        v['dtype'] = 'float64'
        out.append(('dtype', v))
        v = copy.deepcopy(base)
        v['dtype'] = 'object'
        out.append(('dtype', v))
    if hier:
        v = copy.deepcopy(base)
        v.pop('product', None)
        v['labels'] = [[lab[0]] + [float(b) if isinstance(b, int) and not isinstance(b, bool) else b for b in lab[1:]] for lab in labs]
        if v['labels'] != labs:
            out.append(('dtype', v))
    return out


# ------------------------------------------------------------------------------------------ one pair -> one case
def pair_case(ctx, stratum, kind, ra, rb, o, what, identical=False, objs=None):
    '''Build both containers, call equals both ways, emit the case (M and S inside Coq on what was built).'''
    if objs is None:
        a = build(ra) if kind != 'tb' else build_tb(ra)
        b = a if identical else (build(rb) if kind != 'tb' else build_tb(rb))
    else:
        a, b = objs
    # the calls come BEFORE anything is read from the containers: reading labels would refresh the caches of grow-only indexes
    ab, rab = call_equals(kind, a, b, o)
    ba, rba = call_equals(kind, b, a, o)
    ids = Ids()
    la = obj_lit(kind, a, ids)
    lb = obj_lit(kind, b, ids)
    ol = opts_lit(o)
    m = f'(let a := {la} in let b := {lb} in rb_eqb {m_call(kind, ol, "a", "b")} {ab} && rb_eqb {m_call(kind, ol, "b", "a")} {ba})'
    s = None
    if not hetero_missing(ra, rb):
        s = f'(let a := {la} in let b := {lb} in rb_eqb {s_call(kind, ol, "a", "b")} {ab} && rb_eqb {s_call(kind, ol, "b", "a")} {ba})'
    py_fail = None
    if ab != ba:
        py_fail = f'equals is not symmetric: a.equals(b) -> {ab}, b.equals(a) -> {ba}'
    tags = {'kind': kind, 'what': what, 'skipna': o['skipna']}
    fid = finding_tags(kind, ra, rb, o)
    if fid and not identical:
        tags['finding'] = fid
    ctx.count(f'{kind}:{what}', f'opts:{"".join("1" if o[k] else "0" for k in OPT_KEYS)}', f'answer:{ab}')
    bname = 'build_tb' if kind == 'tb' else 'build'
    desc = {'call': f'a.equals(b, **opts) and b.equals(a, **opts) with a = sfv.props.c10.{bname}(a_recipe), b = {"a" if identical else bname + "(b_recipe)"}',
            'a_recipe': ra, 'b_recipe': None if identical else rb, 'opts': o, 'differs_in': what, 'observed': {'a.equals(b)': ab, 'b.equals(a)': ba}}
    key = json.dumps([stratum, ra, None if identical else rb, o, what, objs is not None], sort_keys=True, default=str)
    return list(split_case(Case(stratum, desc, m=m, s=s, py_fail=py_fail, tags=tags, nontrivial=not identical, key=key)))


def split_case(c):
    '''A case inside a known-finding class is reported through its S verdict; the harness then never looks at its M verdict.
    Emit the model comparison as a separate, untagged case so that a model/implementation mismatch inside the class still shows.'''
    if c.tags.get('finding') and c.m is not None:
        tags = {k: v for k, v in c.tags.items() if k != 'finding'}
        yield Case(c.kind, c.desc, m=c.m, tags=tags, nontrivial=False, key=c.key + '#model')
        c.m = None
    yield c


def build_tb(rec):
    from static_frame.core.type_blocks import TypeBlocks
    cols = [col_array(d, v) for d, v in rec['cols']]
    if not cols:
        return TypeBlocks.from_zero_size_shape((rec.get('rows', 0), 0))
    return TypeBlocks.from_blocks(zoo.blocks_from_columns(cols, parse_layout(rec['layout'])))


def tb_rec(cols, layout):
    return {'kind': 'tb', 'cols': [(d, list(v)) for d, v in cols], 'layout': layout}


# ------------------------------------------------------------------------------------------ strata
def kernel_tb_cases(ctx):
    '''TypeBlocks.equals called directly.'''
    # (1) every pair of single cells over the alphabet, 1-D/2-D block, skipna on/off (exhaustive)
    cells = [('float64', 1.0), ('float64', 2.0), ('float64', '@nan'), ('int64', 1), ('int64', 2), ('bool', True),
             ('datetime64[D]', '@d:2020-01-01'), ('datetime64[D]', '@nat'), ('<U2', 'a'),
             ('object', 1), ('object', None), ('object', '@nan'), ('object', '@nat'), ('object', 'a'), ('object', '@d:2020-01-01')]
    lay_pairs = [('1s', '1s'), ('1s', '1d')] if ctx.tier == 'quick' else [('1s', '1s'), ('1s', '1d'), ('1d', '1s'), ('1d', '1d')]
    for (da, va), (db, vb) in itertools.product(cells, repeat=2):
        for la, lb in lay_pairs:
            for sk in (True, False):
                o = dict(DEFAULT_OPTS, skipna=sk)
                yield from pair_case(ctx, 'kernel:tb.equals-cell-pairs', 'tb', tb_rec([(da, [va])], la), tb_rec([(db, [vb])], lb), o, 'cell-pair')
    # (2) every pair of NaN masks of a 1xN float row, every pair of layouts (the block walk and the mask offsets)
    n = 2 if ctx.tier == 'quick' else 3
    base = [1.0, 2.0, 3.0][:n]
    lays = [zoo.layout_str(l) for l in zoo.layouts_for(['float64'] * n)]
    for ma in itertools.product((False, True), repeat=n):
        for mb in itertools.product((False, True), repeat=n):
            ca = [('float64', ['@nan' if m else v]) for m, v in zip(ma, base)]
            cb = [('float64', ['@nan' if m else v]) for m, v in zip(mb, base)]
            for la, lb in itertools.product(lays, repeat=2):
                # without skipna the mask is not consulted: one layout of a against every layout of b is enough there
                for sk in ((True,) if ctx.tier == 'quick' or la != lays[0] else (True, False)):
                    o = dict(DEFAULT_OPTS, skipna=sk)
                    yield from pair_case(ctx, 'kernel:tb.equals-masks-x-layouts', 'tb', tb_rec(ca, la), tb_rec(cb, lb), o, 'nan-masks')
    # (3) random multi-dtype tables: the three operand paths
    for _ in range(ctx.n(150, 1800)):
        ncols = ctx.rng.randint(1, 4)
        nrows = ctx.rng.randint(0, 3)
        ca = rand_cols(ctx.rng, ncols, nrows)
        mode = ctx.rng.random()
        import copy
        cb = copy.deepcopy(ca)
        if mode < 0.35 and ncols:
            j = ctx.rng.randrange(ncols)
            alts = DTYPE_ALT[cb[j][0]]
            if alts:
                cb[j] = (ctx.rng.choice(alts), cb[j][1])
        elif mode < 0.6 and ncols and nrows:
            j = ctx.rng.randrange(ncols)
            i = ctx.rng.randrange(nrows)
            nv = ctx.rng.choice(ALPHA[cb[j][0]])
            cb[j][1][i] = nv
        elif mode < 0.7:
            cb = rand_cols(ctx.rng, ncols, nrows)
        la = ctx.rng.choice([zoo.layout_str(l) for l in zoo.layouts_for([d for d, _ in ca])])
        lb = ctx.rng.choice([zoo.layout_str(l) for l in zoo.layouts_for([d for d, _ in cb])])
        o = dict(DEFAULT_OPTS, skipna=ctx.rng.random() < 0.6, compare_dtype=ctx.rng.random() < 0.3)
        yield from pair_case(ctx, 'kernel:tb.equals-random', 'tb', tb_rec(ca, la), tb_rec(cb, lb), o, 'random')


def kernel_tb_route_cases(ctx):
    '''routes of TypeBlocks.equals no Frame reaches: the same object, compare_class, different shapes, other not a TypeBlocks'''
    a = tb_rec([('float64', [1.0, '@nan']), ('int64', [1, 2])], '1s|1s')
    for o in (dict(DEFAULT_OPTS), dict(DEFAULT_OPTS, skipna=False), dict(DEFAULT_OPTS, compare_class=True), dict(DEFAULT_OPTS, compare_class=True, compare_dtype=True)):
        yield from pair_case(ctx, 'kernel:tb.equals-routes', 'tb', a, a, o, 'identity', identical=True)
        yield from pair_case(ctx, 'kernel:tb.equals-routes', 'tb', a, tb_rec(a['cols'], '2d') if False else tb_rec([('float64', [1.0, '@nan']), ('int64', [1, 2])], '1d|1d'), o, 'copy')
        yield from pair_case(ctx, 'kernel:tb.equals-routes', 'tb', a, tb_rec([('float64', [1.0, '@nan'])], '1s'), o, 'shape-columns')
        yield from pair_case(ctx, 'kernel:tb.equals-routes', 'tb', a, tb_rec([('float64', [1.0]), ('int64', [1])], '1s|1s'), o, 'shape-rows')
        yield from pair_case(ctx, 'kernel:tb.equals-routes', 'tb', a, tb_rec([('float64', []), ('int64', [])], '1s|1s'), o, 'shape-zero-rows')
    t = build_tb(a)
    import static_frame as sf
    for other in (None, 1, t.values, sf.Frame(t.values), [1, 2]):
        for o in (DEFAULT_OPTS, dict(DEFAULT_OPTS, compare_class=True)):
            kw = {k: v for k, v in o.items() if k != 'compare_name'}
            text, _ = lit.res(lambda: t.equals(other, **kw), lambda r: lit.b(bool(r)))
            ctx.count('malformed:tb-other')
            yield Case('malformed:non-container', {'call': f'TypeBlocks.equals({type(other).__name__} object, **opts)', 'opts': o, 'observed': text},
                       py_fail=None if text == '(Ok false)' else f'TypeBlocks.equals({type(other).__name__}) -> {text}, expected False', tags={'kind': 'malformed'},
                       key=json.dumps(['malformed-tb', type(other).__name__, o], sort_keys=True))


def kernel_level_cases(ctx):
    '''IndexLevel.equals called directly (IndexHierarchy.equals compares shapes first, so it never sees levels of different length
    or depth, nor depth-1 levels): whole trees, subtrees, leaves, the same object, another kind of object'''
    import static_frame as sf
    recs = [ix_rec([['a', 1], ['a', 2], ['b', 1]], cls='IndexHierarchy'), ix_rec([['a', 1], ['a', 2], ['b', 1]], cls='IndexHierarchyGO'),
            ix_rec([['a', 1], ['a', 2], ['b', 3]], cls='IndexHierarchy'), ix_rec([['a', 1], ['b', 1]], cls='IndexHierarchy'),
            ix_rec([['a', 1, 'p'], ['a', 1, 'q'], ['b', 2, 'p']], cls='IndexHierarchy'), ix_rec([['a', 1, 'p'], ['a', 2, 'q'], ['b', 2, 'p']], cls='IndexHierarchy'),
            ix_rec([['a', 1.0], ['a', 2.0], ['b', 1.0]], cls='IndexHierarchy', name='nm')]
    prod = ix_rec([['a', 1], ['a', 2], ['b', 1], ['b', 2]], cls='IndexHierarchy')
    prod['product'] = [['a', 'b'], [1, 2]]
    recs.append(prod)
    hs = [build(r) for r in recs]
    levels = []
    for k, h in enumerate(hs):
        root = h._levels
        levels.append((f'h{k}', root))
        if root.targets is not None:
            for j, t in enumerate(root.targets):
                levels.append((f'h{k}.targets[{j}]', t))
                if t.targets is not None:
                    levels.append((f'h{k}.targets[{j}].targets[0]', t.targets[0]))
    pairs = list(itertools.product(range(len(levels)), repeat=2))
    ctx.rng.shuffle(pairs)
    keep = [p for p in pairs if p[0] == p[1]][:4] + [p for p in pairs if p[0] != p[1]][:ctx.n(150, 1200)]
    for i, j in keep:
        (na, a), (nb, b) = levels[i], levels[j]
        o = history_opts(ctx.rng)
        ab = lit.res(lambda: a.equals(b, **o), lambda r: lit.b(bool(r)))[0]
        ba = lit.res(lambda: b.equals(a, **o), lambda r: lit.b(bool(r)))[0]
        ids = Ids()
        la, lb = level_lit(a, ids), level_lit(b, ids)
        ol = opts_lit(o)
        if a is b:
            m = None
            s = f'(rb_eqb (Ok true) {ab})'
        else:
            m = f'(let a := {la} in let b := {lb} in rb_eqb (M_level_equals c10_cfgs {ol} a b) {ab} && rb_eqb (M_level_equals c10_cfgs {ol} b a) {ba})'
            s = (f'(let a := mk_ehier 9001 30 VNone {la} in let b := mk_ehier 9002 30 VNone {lb} in '
                 f'rb_eqb (Ok (S_hier_equals {ol} a b)) {ab} && rb_eqb (Ok (S_hier_equals {ol} b a)) {ba})')
        ctx.count('level-pair', f'level-answer:{ab}')
        yield Case('kernel:index_level.equals', {'call': f'{na}.equals({nb}, **opts) and back; h_k = sfv.props.c10.build(hierarchies[k])._levels', 'hierarchies': recs,
                                                 'opts': o, 'observed': {'a.equals(b)': ab, 'b.equals(a)': ba}},
                   m=m, s=s, py_fail=None if ab == ba else f'IndexLevel.equals not symmetric: {ab} / {ba}', tags={'kind': 'level', 'skipna': o['skipna']},
                   nontrivial=a is not b, key=json.dumps(['level', na, nb, o], sort_keys=True))
    root = hs[0]._levels
    for other in (None, hs[0], hs[0]._levels.index, 'a'):
        for o in (DEFAULT_OPTS, dict(DEFAULT_OPTS, compare_class=True)):
            text, _ = lit.res(lambda: root.equals(other, **o), lambda r: lit.b(bool(r)))
            yield Case('malformed:non-container', {'call': f'IndexLevel.equals({type(other).__name__} object, **opts)', 'opts': o, 'observed': text},
                       py_fail=None if text == '(Ok false)' else f'IndexLevel.equals({type(other).__name__}) -> {text}, expected False', tags={'kind': 'malformed'},
                       key=json.dumps(['malformed-level', type(other).__name__, o], sort_keys=True))


def lazy_bus_cases(ctx):
    '''Bus.equals loads what a Bus read from a store has not loaded yet (or no longer holds under max_persist)'''
    import copy
    import shutil
    import tempfile
    import static_frame as sf
    rng = ctx.rng
    tmp = tempfile.mkdtemp(prefix='c10_bus_')
    try:
        for k in range(ctx.n(10, 80)):
            frames = []
            for j, f in enumerate(base_frames(ctx, rng.randint(2, 3))):
                f['name'] = 'f%d' % j
                f['cls'] = 'Frame'
                if f['index']['cls'].startswith('IndexHierarchy'):
                    f['index'] = ix_rec(range(len(f['index']['labels'])))
                f['cols'] = [(d, v) for d, v in f['cols'] if d != 'object'] or [('int64', [1] * len(f['index']['labels']))]
                f['columns'] = ix_rec(['c%d' % i for i in range(len(f['cols']))])
                f['layout'] = '|'.join('1s' for _ in f['cols'])
                frames.append(f)
            base = {'kind': 'bus', 'frames': frames, 'name': None}
            mem = build_bus(base)
            fp = os.path.join(tmp, f'b{k}.zip')
            mem.to_zip_pickle(fp)
            other = copy.deepcopy(base)
            what = 'copy'
            if rng.random() < 0.5:
                vs = [x for x in frame_variants(rng, other['frames'][-1]) if x[0] in ('cell', 'label-index', 'label-columns', 'cell-missing-one-side')]
                if vs:
                    what, fv = rng.choice(vs)
                    other['frames'][-1] = fv
                    what = 'frame-' + what
            fp2 = os.path.join(tmp, f'o{k}.zip')
            build_bus(other).to_zip_pickle(fp2)
            for mode, mk in (('lazy-vs-memory', lambda: (sf.Bus.from_zip_pickle(fp), build_bus(other))),
                             ('lazy-vs-lazy', lambda: (sf.Bus.from_zip_pickle(fp), sf.Bus.from_zip_pickle(fp2))),
                             ('max_persist-1', lambda: (sf.Bus.from_zip_pickle(fp, max_persist=1), sf.Bus.from_zip_pickle(fp2, max_persist=1)))):
                a, b = mk()
                o = history_opts(rng)
                o['compare_name'] = False       # a Bus read from a store is named after the file
                o['compare_class'] = False
                cl = pair_case(ctx, 'api:bus.equals-lazy', 'bus', base, other, o, f'{mode}:{what}', objs=(a, b))
                for c in cl:
                    c.desc['call'] = f'a.equals(b, **opts) and back; a = Bus.from_zip_pickle(file written from build(a_recipe)){", max_persist=1" if mode.startswith("max") else ""}; mode {mode}'
                    c.key = json.dumps(['lazy-bus', k, mode, base, other, o], sort_keys=True, default=str)
                yield from cl
    finally:
        shutil.rmtree(tmp, ignore_errors=True)


def route_cases(ctx):
    '''small distinct routes: conversions between the HE / GO / plain classes, date-typed and unsigned / bytes labels, date-typed
    inner levels of a hierarchy, depth-3 and date-typed grow-only histories, flat IndexGO histories, empty shapes'''
    import copy
    import static_frame as sf
    rng = ctx.rng
    some = [dict(DEFAULT_OPTS), dict(DEFAULT_OPTS, compare_class=True), dict(DEFAULT_OPTS, compare_dtype=True), dict(DEFAULT_OPTS, compare_name=True),
            dict(DEFAULT_OPTS, skipna=False)]
    # -- conversions (objects derived through the public interface)
    sr = se_rec('float64', [1.0, '@nan', 2.5], index=ix_rec(['x', 'y', 'z']), name='nm')
    s = build(sr)
    for what, fn, rb in (('to_series_he', lambda x: x.to_series_he(), dict(sr, cls='SeriesHE')),
                         ('to_series_he.to_series', lambda x: x.to_series_he().to_series(), sr),
                         ('rename', lambda x: x.rename('other'), dict(sr, name='other')),
                         ('astype-object', lambda x: x.astype(object), dict(sr, dtype='object'))):
        for o in some:
            yield from pair_case(ctx, 'api:routes', 'series', sr, rb, o, what, objs=(s, fn(s)))
    fr = fr_rec([('float64', [1.0, '@nan']), ('int64', [1, 2])], layout='1s|1d', name='nm')
    f = build(fr)
    for what, fn, rb in (('to_frame_he.to_frame', lambda x: x.to_frame_he().to_frame(), fr), ('to_frame_go.to_frame_he', lambda x: x.to_frame_go().to_frame_he(), dict(fr, cls='FrameHE')),
                         ('astype-float', lambda x: x.astype(float), dict(fr, cols=[('float64', [1.0, '@nan']), ('float64', [1.0, 2.0])], layout='2d'))):
        for o in some:
            yield from pair_case(ctx, 'api:routes', 'frame', fr, rb, o, what, objs=(f, fn(f)))
    # -- label dtypes and date-typed index classes
    flat = [(ix_rec([1, 2, 255], dtype='uint8'), ix_rec([1, 2, 255])), (ix_rec([1, 2, 255], dtype='uint8'), ix_rec([1, 2, -1])),
            (ix_rec(['@b:a', '@b:b'], dtype='|S2'), ix_rec(['a', 'b'])), (ix_rec(['@b:a', '@b:b'], dtype='|S2'), ix_rec(['@b:a', '@b:b'], dtype='object')),
            (ix_rec(['@d:2020-01-01', '@d:2020-01-02'], cls='IndexDate'), ix_rec(['@d:2020-01-01', '@d:2020-01-02'], dtype='object')),
            (ix_rec(['@d:2020-01-01', '@d:2020-01-02'], cls='IndexDate'), ix_rec(['@d:2020-01-01', '@d:2020-01-03'], cls='IndexDateGO')),
            (ix_rec(['@s:2020-01-01T00:00:01', '@s:2020-01-01T00:00:02'], cls='IndexSecond'), ix_rec(['@s:2020-01-01T00:00:01', '@s:2020-01-01T00:00:02'], cls='IndexSecondGO')),
            (ix_rec(['@s:2020-01-01T00:00:01'], cls='IndexSecond'), ix_rec(['@d:2020-01-01'], cls='IndexDate')),
            (ix_rec(['@s:2020-01-01T00:00:01', '@s:2020-01-01T00:00:02'], cls='IndexSecond', name='nm'), ix_rec(['@s:2020-01-01T00:00:01', '@s:2020-01-01T00:00:03'], cls='IndexSecond'))]
    dated = ix_rec([['a', '@d:2020-01-01'], ['a', '@d:2020-01-02'], ['b', '@d:2020-01-01']], cls='IndexHierarchy')
    dated['index_constructors'] = ['Index', 'IndexDate']
    plain = ix_rec([['a', '@d:2020-01-01'], ['a', '@d:2020-01-02'], ['b', '@d:2020-01-01']], cls='IndexHierarchy')
    dated2 = copy.deepcopy(dated)
    dated2['labels'][1][1] = '@d:2020-01-05'
    flat += [(dated, copy.deepcopy(dated)), (dated, plain), (dated, dated2), (dated, dict(copy.deepcopy(dated), cls='IndexHierarchyGO'))]
    for ra, rb in flat:
        for o in ALL_OPTS[::2] + [ALL_OPTS[1]]:
            yield from pair_case(ctx, 'api:routes', 'index', ra, rb, o, 'label-dtype/class')
    # the same as Series / Frame axes, and through HE
    for ra, rb in flat[:6] + flat[-4:-1]:
        n = len(ra['labels'])
        if len(rb['labels']) != n:
            continue
        sa, sb = se_rec('int64', list(range(n)), index=ra, cls='SeriesHE'), se_rec('int64', list(range(n)), index=rb, cls='SeriesHE')
        yield from he_case(ctx, 'series', sa, sb, 'label-dtype/class')
        yield from pair_case(ctx, 'api:routes', 'series', sa, sb, rng.choice(some), 'label-dtype/class')
    # -- empty shapes
    e0 = fr_rec([('float64', []), ('int64', [])], layout='1s|1s')
    for rb, what in ((fr_rec([('float64', []), ('int64', [])], layout='1d|1s'), 'zero-rows-copy'), (fr_rec([('float64', []), ('float64', [])], layout='2d'), 'zero-rows-dtype'),
                     (fr_rec([('float64', [])], layout='1s'), 'zero-rows-shape'), (fr_rec([], index=ix_rec([]), columns=ix_rec([])), 'zero-rows-vs-0x0')):
        for o in some:
            yield from pair_case(ctx, 'api:routes', 'frame', e0, rb, o, what)
    for o in some:
        yield from pair_case(ctx, 'api:routes', 'series', se_rec('float64', []), se_rec('int64', []), o, 'empty-dtype')
        yield from pair_case(ctx, 'api:routes', 'index', ix_rec([]), ix_rec([], cls='IndexGO', name='nm'), o, 'empty')
    # -- grow-only histories: flat IndexGO, depth 3, date-typed inner level
    for _ in range(ctx.n(25, 200)):
        mode = rng.choice(['flat', 'depth3', 'dated'])
        if mode == 'flat':
            labels = rng.sample(['a', 'b', 'c', 'd'], rng.randint(0, 3))
            rest = [x for x in ['e', 'f', 'g', 'h', 1] if x not in labels]
            g = [['append', rest[0]], ['extend', rest[1:3]]][:rng.randint(1, 2)]
            g2 = [['append', rest[3]], ['extend', rest[1:3]]][:len(g)]
            ra = {'kind': 'index-history', 'flat': True, 'labels': labels, 'name': None, 'ops': _interleave(rng, g, 0.8, False)}
            fin = labels + [rest[0]] + (rest[1:3] if len(g) > 1 else [])
            variants = [('flat-other-history', dict(ra, ops=_interleave(rng, copy.deepcopy(g), 0.4, rng.random() < 0.2))),
                        ('flat-built-at-once', ix_rec(fin, cls='IndexGO')), ('flat-static', ix_rec(fin)),
                        ('flat-different-growth', dict(ra, ops=_interleave(rng, g2, 0.8, False)))]
        elif mode == 'depth3':
            labels = [['a', 1, 'p'], ['a', 1, 'q'], ['a', 2, 'p']]
            g = [['append', ['a', 2, 'q']], ['append', ['b', 1, 'p']], ['extend', [['c', 1, 'p'], ['c', 1, 'q']]]][:rng.randint(1, 3)]
            g2 = copy.deepcopy(g)
            g2[-1] = ['append', ['a', 2, 'r']] if len(g) == 1 else (['append', ['b', 1, 'q']] if len(g) == 2 else ['extend', [['c', 1, 'p'], ['c', 2, 'q']]])
            ra = {'kind': 'index-history', 'labels': labels, 'name': None, 'ops': _interleave(rng, g, 0.8, False)}
            variants = [('depth3-other-history', dict(ra, ops=_interleave(rng, copy.deepcopy(g), 0.4, rng.random() < 0.2))),
                        ('depth3-built-at-once', {'kind': 'index-history', 'labels': _final_labels(ra), 'name': None, 'ops': []}),
                        ('depth3-different-growth', dict(ra, ops=_interleave(rng, g2, 0.8, False)))]
        else:
            labels = [['a', '@d:2020-01-01'], ['a', '@d:2020-01-02']]
            g = [['append', ['a', '@d:2020-01-03']], ['append', ['b', '@d:2020-01-01']]][:rng.randint(1, 2)]
            g2 = copy.deepcopy(g)
            g2[-1] = ['append', [g[-1][1][0], '@d:2021-06-01']]
            ra = {'kind': 'index-history', 'labels': labels, 'name': None, 'index_constructors': ['IndexGO', 'IndexDateGO'], 'ops': _interleave(rng, g, 0.8, False)}
            variants = [('dated-other-history', dict(ra, ops=_interleave(rng, copy.deepcopy(g), 0.4, rng.random() < 0.2))),
                        ('dated-built-at-once', dict(ra, labels=_final_labels(ra), ops=[])),
                        ('dated-different-growth', dict(ra, ops=_interleave(rng, g2, 0.8, False)))]
        for what, rb in variants:
            cl = pair_case(ctx, 'api:index.equals-histories', 'index', ra, rb, history_opts(rng), what)
            for c in cl:
                c.desc['call'] = 'a.equals(b, **opts), b.equals(a, **opts) with a = sfv.props.c10.build(a_recipe) (grow-only index, then ops in order), nothing read in between'
            yield from cl


def _layouts_2d(dtypes, only_2d=True):
    out = []
    for l in zoo.layouts_for(dtypes):
        if only_2d and any(not is2d for _, is2d in l):
            continue
        out.append(zoo.layout_str(l))
    return out


def zero_size_layout_cases(ctx):
    '''ZERO-ROW (and zero-column) tables over every partition of the columns into blocks, including equal block counts with
    different widths (2|3 vs 3|2, 2|2|1 vs 1|2|2): equals must not depend on the partition (C10_tb_layout_independent)'''
    import copy
    import static_frame as sf
    rng = ctx.rng
    five = ['float64'] * 5
    lays = _layouts_2d(five)                                    # the 16 compositions of 5, every block 2-D
    # (1) TypeBlocks.equals directly: every pair of 2-D partitions of five same-typed zero-row columns
    for la, lb in itertools.product(lays, repeat=2):
        for o in ((dict(DEFAULT_OPTS),) if ctx.tier == 'quick' else (dict(DEFAULT_OPTS), dict(DEFAULT_OPTS, skipna=False), dict(DEFAULT_OPTS, compare_dtype=True))):
            yield from pair_case(ctx, 'kernel:tb.equals-zero-rows-x-layouts', 'tb', tb_rec([(d, []) for d in five], la), tb_rec([(d, []) for d in five], lb), o, 'zero-rows-layouts')
    # mixed dtypes: the consolidated partitions (int,int | float x3) against (int x3 | float,float) and one block per column
    mixes = [(['int64', 'int64', 'float64', 'float64', 'float64'], '2d|3d'), (['int64', 'int64', 'int64', 'float64', 'float64'], '3d|2d'),
             (['int64', 'int64', 'float64', 'float64', 'float64'], '1s|1s|1s|1s|1s'), (['int64', 'float64', 'float64', 'bool', 'bool'], '1d|2d|2d'),
             (['int64', 'int64', 'float64', 'bool', 'bool'], '2d|1s|2d'), (['float64'] * 5, '2d|2d|1d'), (['float64'] * 5, '1d|2d|2d'), (['float64'] * 5, '5d')]
    for (da, la), (db, lb) in itertools.product(mixes, repeat=2):
        for o in (dict(DEFAULT_OPTS), dict(DEFAULT_OPTS, compare_dtype=True), dict(DEFAULT_OPTS, skipna=False)):
            yield from pair_case(ctx, 'kernel:tb.equals-zero-rows-x-layouts', 'tb', tb_rec([(d, []) for d in da], la), tb_rec([(d, []) for d in db], lb), o, 'zero-rows-mixed')
    # (2) Frames: every option, both directions; HE; the whole-pool matrix; a Bus of them
    def zf(dtypes, layout, cls='Frame'):
        return fr_rec([(d, []) for d in dtypes], layout=layout, cls=cls, name='nm')
    pool = [('2|3', zf(five, '2d|3d')), ('3|2', zf(five, '3d|2d')), ('1x5', zf(five, '1s|1s|1s|1s|1s')), ('2|2|1', zf(five, '2d|2d|1d')), ('1|2|2', zf(five, '1s|2d|2d')),
            ('5', zf(five, '5d')), ('i2|f3', zf(mixes[0][0], '2d|3d')), ('i3|f2', zf(mixes[1][0], '3d|2d')), ('4|1', zf(five, '4d|1s')), ('1|4', zf(five, '1d|4d'))]
    for (na, ra), (nb, rb) in itertools.combinations(pool, 2):
        for o in ALL_OPTS:
            yield from pair_case(ctx, 'api:frame.equals-zero-rows-x-layouts', 'frame', ra, rb, o, f'{na}~{nb}')
        yield from he_case(ctx, 'frame', dict(ra, cls='FrameHE'), dict(rb, cls='FrameHE'), f'zero-rows:{na}~{nb}')
    yield _matrix_case(ctx, 'frame', [r for _, r in pool], [k for k, _ in pool])
    yield _matrix_case(ctx, 'frame', [dict(r, cls='FrameHE') for _, r in pool], [k for k, _ in pool])
    # three identical FrameHE of different partitions: one set member, dict lookup succeeds
    hes = [build(dict(r, cls='FrameHE')) for _, r in pool[:6]]
    obs = lit.res(lambda: len(set(hes)), lit.z)[0]
    look = lit.res(lambda: all(h in {hes[0]: 0} for h in hes), lit.b)[0]
    yield Case('api:frame.equals-zero-rows-x-layouts', {'call': 'len(set(frames)), all(f in {frames[0]: 0} for f in frames); frames = FrameHE zero-row pool', 'pool': [r for _, r in pool[:6]],
                                                        'observed': {'len(set)': obs, 'lookup': look}},
               py_fail=None if (obs, look) == ('(Ok 1)', '(Ok true)') else f'identical zero-row FrameHE of different block partitions: len(set) -> {obs}, dict lookup -> {look}',
               tags={'kind': 'he-frame-set'}, key='zero-rows-he-set')
    for k in range(ctx.n(6, 40)):
        (na, ra), (nb, rb) = rng.sample(pool[:6], 2)
        base = {'kind': 'bus', 'frames': [dict(copy.deepcopy(ra), name='f0'), dict(copy.deepcopy(rb), name='f1')], 'name': None}
        other = {'kind': 'bus', 'frames': [dict(copy.deepcopy(rb), name='f0'), dict(copy.deepcopy(ra), name='f1')], 'name': None}
        yield from pair_case(ctx, 'api:frame.equals-zero-rows-x-layouts', 'bus', base, other, history_opts(rng), f'bus:{na}~{nb}')
    # (3) zero-row frames obtained through the public interface: slices and Boolean selections of consolidated frames
    fa = sf.Frame.from_dict(dict(a=(1, 2), b=(3, 4), c=(1.5, 2.5), d=(3.5, 4.5), e=(5.5, 6.5)), consolidate_blocks=True)
    fb = sf.Frame.from_dict(dict(a=(1, 2), b=(3, 4), c=(5, 6), d=(3.5, 4.5), e=(5.5, 6.5)), consolidate_blocks=True)
    fc = sf.Frame.from_dict(dict(a=(1, 2), b=(3, 4), c=(1.5, 2.5), d=(3.5, 4.5), e=(5.5, 6.5)))
    ff = sf.Frame(np.arange(10, dtype=float).reshape(2, 5), columns=tuple('abcde'))
    derived = [('a.iloc[0:0]', fa.iloc[0:0]), ("a.loc[a['a'] > 99]", fa.loc[fa['a'] > 99]), ('b.iloc[0:0]', fb.iloc[0:0]), ("b.loc[b['a'] > 99]", fb.loc[fb['a'] > 99]),
               ('c.iloc[0:0]', fc.iloc[0:0]), ('f.iloc[0:0]', ff.iloc[0:0]), ('a.iloc[:, 0:0]', fa.iloc[:, 0:0]), ('b.iloc[:, 0:0]', fb.iloc[:, 0:0]), ('a.iloc[0:0, 0:0]', fa.iloc[0:0, 0:0])]
    note = {'kind': 'frame-derived', 'how': 'a, b = Frame.from_dict(2 int + 3 float | 3 int + 2 float columns, consolidate_blocks=True); c = a without consolidation; f = Frame(5-wide float array)'}
    for (na, xa), (nb, xb) in itertools.combinations(derived, 2):
        for o in (dict(DEFAULT_OPTS), dict(DEFAULT_OPTS, compare_dtype=True), dict(DEFAULT_OPTS, compare_name=True, skipna=False)):
            cl = pair_case(ctx, 'api:frame.equals-zero-rows-x-layouts', 'frame', dict(note, a=na), dict(note, a=nb), o, f'derived:{na}~{nb}', objs=(xa, xb))
            for c in cl:
                c.desc['call'] = f'({na}).equals({nb}, **opts) and back; ' + note['how']
            yield from cl
    # zero columns with rows: nothing to partition, but the same route
    z1, z2 = fr_rec([], index=ix_rec([1, 2]), columns=ix_rec([])), fr_rec([], index=ix_rec([1, 2]), columns=ix_rec([]), cls='FrameGO')
    for o in ALL_OPTS[::3]:
        yield from pair_case(ctx, 'api:frame.equals-zero-rows-x-layouts', 'frame', z1, z2, o, 'zero-columns')


def fixed_witness_cases(ctx):
    '''the minimal inputs of the four repaired findings (regressions: the
    specification is the correct behaviour -- symmetric equals, column-less tables equal, hierarchical HE hashable with equal hashes)'''
    a = fr_rec([('float64', ['@nan']), ('int64', [1])], columns=ix_rec(['x', 'y']))
    b = fr_rec([('float64', [3.0]), ('int64', [1])], columns=ix_rec(['x', 'y']))
    yield from pair_case(ctx, 'api:frame.equals-witness', 'frame', a, b, dict(DEFAULT_OPTS), 'cell-missing-one-side')
    a = fr_rec([('datetime64[D]', ['@nat']), ('int64', [1]), ('float64', [1.5])], layout='1s|1s|1s')
    b = fr_rec([('datetime64[D]', ['@nat']), ('float64', [1.0]), ('float64', [1.5])], layout='1s|2d')
    yield from pair_case(ctx, 'api:frame.equals-witness', 'frame', a, b, dict(DEFAULT_OPTS, skipna=False), 'nat-both-sides-values-path')
    a = fr_rec([], index=ix_rec([1, 2]), columns=ix_rec([]))
    b = fr_rec([], index=ix_rec([1, 2]), columns=ix_rec([]))
    yield from pair_case(ctx, 'api:frame.equals-witness', 'frame', a, b, dict(DEFAULT_OPTS), 'zero-columns')
    a = fr_rec([], index=ix_rec([]), columns=ix_rec([]))
    yield from pair_case(ctx, 'api:frame.equals-witness', 'frame', a, a, dict(DEFAULT_OPTS), 'zero-columns')


def base_frames(ctx, count):
    rng = ctx.rng
    for _ in range(count):
        ncols = rng.randint(1, 4)
        nrows = rng.randint(1, 3)
        dts = rng.choice([None, ['float64'], ['float64', 'int64'], ['float64', 'datetime64[D]', 'int64'], ['object', 'float64', '<U2']])
        cols = rand_cols(rng, ncols, nrows, dts, p_missing=rng.choice([0.0, 0.3, 0.6]))
        rec = fr_rec(cols, name=rng.choice([None, 'nm', 3]), cls=rng.choice(['Frame', 'Frame', 'FrameGO', 'FrameHE']))
        rec['layout'] = rng.choice(layouts_of(rec))
        if rng.random() < 0.2 and nrows == 2:
            rec['index'] = ix_rec([['a', 1], ['a', 2]], cls='IndexHierarchy')
        elif rng.random() < 0.2:
            rec['index'] = ix_rec(['r%d' % i for i in range(nrows)])
        yield rec


def rand_opts(rng):
    return {k: rng.random() < (0.7 if k == 'skipna' else 0.35) for k in OPT_KEYS}


def api_frame_cases(ctx):
    # a fixed family x all 16 option settings
    fam = fr_rec([('float64', [1.0, '@nan']), ('int64', [1, 2]), ('datetime64[D]', ['@nat', '@d:2020-01-01'])], layout='1s|1s|1s', name='nm')
    variants = frame_variants(ctx.rng, fam)
    for what, v in variants:
        for o in ALL_OPTS:
            yield from pair_case(ctx, 'api:frame.equals-all-options', 'frame', fam, v, o, what)
    for o in ALL_OPTS:
        yield from pair_case(ctx, 'api:frame.equals-all-options', 'frame', fam, fam, o, 'identity', identical=True)
    # random bases x every kind of variant x random options
    for base in base_frames(ctx, ctx.n(40, 450)):
        for what, v in frame_variants(ctx.rng, base):
            yield from pair_case(ctx, 'api:frame.equals', 'frame', base, v, rand_opts(ctx.rng), what)
        yield from pair_case(ctx, 'api:frame.equals', 'frame', base, base, rand_opts(ctx.rng), 'identity', identical=True)
    # objects derived through the public interface (shared index / blocks objects)
    for base in base_frames(ctx, ctx.n(15, 120)):
        a = build(base)
        derived = [('rename', lambda f: f.rename('other'), dict(base, name='other')),
                   ('to_frame_go', lambda f: f.to_frame_go(), dict(base, cls='FrameGO')),
                   ('to_frame_he', lambda f: f.to_frame_he(), dict(base, cls='FrameHE')),
                   ('consolidate', lambda f: f.consolidate(), base)]
        for what, fn, rb in derived:
            try:
                b = fn(a)
            except Exception:  # noqa
                continue
            yield from pair_case(ctx, 'api:frame.equals-derived', 'frame', base, rb, rand_opts(ctx.rng), what, objs=(a, b))


def base_series(ctx, count):
    rng = ctx.rng
    for _ in range(count):
        n = rng.randint(0, 4)
        d = rng.choice(list(ALPHA))
        (_, toks), = rand_cols(rng, 1, n, [d], p_missing=rng.choice([0.0, 0.4]))
        rec = se_rec(d, toks, name=rng.choice([None, 'nm']), cls=rng.choice(['Series', 'SeriesHE']))
        r = rng.random()
        if r < 0.25 and n >= 2:
            outer = ['a'] * (n // 2) + ['b'] * (n - n // 2)
            inner = list(range(n // 2)) + list(range(n - n // 2))
            rec['index'] = ix_rec([[x, y] for x, y in zip(outer, inner)], cls='IndexHierarchy')
        elif r < 0.45:
            rec['index'] = ix_rec(['k%d' % i for i in range(n)])
        elif r < 0.55 and n:
            rec['index'] = ix_rec(['@d:2020-01-%02d' % (i + 1) for i in range(n)], cls='IndexDate')
        yield rec


def api_series_cases(ctx):
    fam = se_rec('float64', [1.0, '@nan', 2.5], name='nm')
    for what, v in series_variants(ctx.rng, fam):
        for o in ALL_OPTS:
            yield from pair_case(ctx, 'api:series.equals-all-options', 'series', fam, v, o, what)
    for base in base_series(ctx, ctx.n(40, 450)):
        for what, v in series_variants(ctx.rng, base):
            yield from pair_case(ctx, 'api:series.equals', 'series', base, v, rand_opts(ctx.rng), what)
        yield from pair_case(ctx, 'api:series.equals', 'series', base, base, rand_opts(ctx.rng), 'identity', identical=True)


def base_indexes(ctx, count):
    rng = ctx.rng
    for _ in range(count):
        n = rng.randint(0, 4)
        r = rng.random()
        if r < 0.3:
            yield ix_rec(rng.sample(range(-2, 8), n), cls=rng.choice(['Index', 'IndexGO']), name=rng.choice([None, 'nm']))
        elif r < 0.5:
            yield ix_rec(rng.sample(['a', 'b', 'c', 'ab', 'x'], n), cls=rng.choice(['Index', 'IndexGO']), name=rng.choice([None, 'nm']))
        elif r < 0.6:
            yield ix_rec(rng.sample([1, 'a', None, 2.5, 'b'], n), cls='Index', dtype='object')
        elif r < 0.7:
            yield ix_rec(['@d:2020-01-%02d' % d for d in rng.sample(range(1, 9), n)], cls=rng.choice(['IndexDate', 'IndexDateGO']))
        else:
            # hierarchies of depth 2 or 3, tree ordered
            depth = rng.choice([2, 2, 3])
            outer = rng.sample(['a', 'b', 'c'], rng.randint(1, 3))
            labels = []
            for x in outer:
                for y in rng.sample([1, 2, 3], rng.randint(1, 2)):
                    if depth == 2:
                        labels.append([x, y])
                    else:
                        for z in rng.sample(['p', 'q'], rng.randint(1, 2)):
                            labels.append([x, y, z])
            rec = ix_rec(labels, cls=rng.choice(['IndexHierarchy', 'IndexHierarchyGO']), name=rng.choice([None, 'nm']))
            if rng.random() < 0.4:
                levels = [rng.sample(['a', 'b', 'c'], rng.randint(1, 3)), rng.sample([1, 2, 3], rng.randint(1, 3))] + ([rng.sample(['p', 'q'], rng.randint(1, 2))] if depth == 3 else [])
                rec['product'] = levels
                rec['labels'] = [list(t) for t in itertools.product(*levels)]
            yield rec


def api_index_cases(ctx):
    prod = ix_rec([['a', 1], ['a', 2], ['b', 1], ['b', 2]], cls='IndexHierarchy', name='nm')
    prod['product'] = [['a', 'b'], [1, 2]]
    for fam in (ix_rec([1, 2, 3], name='nm'), ix_rec([['a', 1], ['a', 2], ['b', 1]], cls='IndexHierarchy', name='nm'), prod):
        for what, v in index_variants(ctx.rng, fam):
            for o in ALL_OPTS:
                yield from pair_case(ctx, 'api:index.equals-all-options', 'index', fam, v, o, what)
    bases = list(base_indexes(ctx, ctx.n(50, 500)))
    for base in bases:
        for what, v in index_variants(ctx.rng, base):
            yield from pair_case(ctx, 'api:index.equals', 'index', base, v, rand_opts(ctx.rng), what)
        yield from pair_case(ctx, 'api:index.equals', 'index', base, base, rand_opts(ctx.rng), 'identity', identical=True)
    # flat against hierarchical, and unrelated pairs
    for _ in range(ctx.n(20, 200)):
        ra, rb = ctx.rng.choice(bases), ctx.rng.choice(bases)
        yield from pair_case(ctx, 'api:index.equals', 'index', ra, rb, rand_opts(ctx.rng), 'unrelated')


def api_bus_cases(ctx):
    import copy
    rng = ctx.rng
    for _ in range(ctx.n(12, 100)):
        frames = []
        for k, f in enumerate(base_frames(ctx, rng.randint(1, 3))):
            f['name'] = 'f%d' % k
            f['cls'] = 'Frame'
            frames.append(f)
        base = {'kind': 'bus', 'frames': frames, 'name': rng.choice([None, 'bn'])}
        variants = [('copy', copy.deepcopy(base))]
        v = copy.deepcopy(base)
        k = rng.randrange(len(frames))
        inner = frame_variants(rng, v['frames'][k])
        what, fv = rng.choice([x for x in inner if x[0] not in ('name', 'class')])
        v['frames'][k] = fv
        variants.append(('frame-' + what, v))
        v = copy.deepcopy(base)
        v['name'] = 'other'
        variants.append(('name', v))
        v = copy.deepcopy(base)
        v['frames'][k]['name'] = 'relabelled'
        variants.append(('label', v))
        if len(frames) > 1:
            v = copy.deepcopy(base)
            v['frames'] = v['frames'][:-1]
            variants.append(('shape', v))
        for what, v in variants:
            yield from pair_case(ctx, 'api:bus.equals', 'bus', base, v, rand_opts(ctx.rng), what)
        yield from pair_case(ctx, 'api:bus.equals', 'bus', base, base, rand_opts(ctx.rng), 'identity', identical=True)
        # two buses sharing the SAME frame objects (identity shortcut inside the loop over frames)
        import static_frame as sf
        fs = [build_frame(f) for f in base['frames']]
        a = sf.Bus.from_frames(fs, name=dec(base['name']))
        b = sf.Bus.from_frames(fs, name=dec(base['name']))
        yield from pair_case(ctx, 'api:bus.equals', 'bus', base, base, rand_opts(ctx.rng), 'shared-frames', objs=(a, b), identical=True)


# ---- histories of grow-only hierarchies: equality is a function of the CURRENT labels, never of what was read when
READERS = ['values', 'display', 'reversed', 'iloc', 'len']


def _final_labels(rec):
    labs = [list(l) for l in rec['labels']]
    for op in rec['ops']:
        if op[0] == 'append':
            labs.append(list(op[1]))
        elif op[0] == 'extend':
            labs += [list(l) for l in op[1]]
    return labs


def _growths(rng, labels, count):
    '''tree-compatible growth ops: the outer label is the last outer label or a new one'''
    ops = []
    last_outer = labels[-1][0]
    used = {tuple(l) for l in labels}
    fresh = iter(['x', 'y', 'z', 'w'])
    for _ in range(count):
        if rng.random() < 0.3:
            outer = next(fresh)
            ext = [[outer, i] for i in rng.sample([1, 2, 3], rng.randint(1, 2))]
            ops.append(['extend', sorted(ext)])
            last_outer = outer
            used |= {tuple(l) for l in ext}
            continue
        outer = last_outer if rng.random() < 0.6 else next(fresh)
        inner = rng.choice([i for i in (1, 2, 3, 4, 5, 6, 7) if (outer, i) not in used])
        ops.append(['append', [outer, inner]])
        used.add((outer, inner))
        last_outer = outer
    return ops


def _interleave(rng, growths, p_read_before, trailing_reader):
    ops = []
    if rng.random() < p_read_before:
        ops.append(['read', rng.choice(READERS)])
    for g in growths:
        ops.append(g)
        if rng.random() < 0.25:
            ops.append(['read', rng.choice(READERS)])
    while ops and ops[-1][0] == 'read' and not trailing_reader:
        ops.pop()            # no reader between the last growth and equals
    if trailing_reader:
        ops.append(['read', rng.choice(READERS)])
    return ops


def history_opts(rng):
    r = rng.random()
    if r < 0.55:
        return dict(DEFAULT_OPTS)
    if r < 0.85:
        k = rng.choice(OPT_KEYS)
        return dict(DEFAULT_OPTS, **{k: not DEFAULT_OPTS[k]})
    return rand_opts(rng)


def history_cases(ctx):
    import copy
    rng = ctx.rng
    for _ in range(ctx.n(70, 700)):
        outer = rng.sample(['a', 'b', 'c'], rng.randint(1, 2))
        labels = [[x, y] for x in sorted(outer) for y in sorted(rng.sample([1, 2, 3], rng.randint(1, 2)))]
        name = rng.choice([None, 'nm'])
        g = _growths(rng, labels, rng.randint(1, 3))
        ra = {'kind': 'index-history', 'labels': labels, 'name': name, 'ops': _interleave(rng, g, 0.8, rng.random() < 0.15)}
        variants = []
        # same labels, same growth, another reading history
        variants.append(('same-labels-other-history', dict(ra, ops=_interleave(rng, copy.deepcopy(g), 0.5, rng.random() < 0.15))))
        # same labels, built at once (tables up to date)
        variants.append(('same-labels-built-at-once', {'kind': 'index-history', 'labels': _final_labels(ra), 'name': name, 'ops': []}))
        # same start, realised alike, then DIFFERENT new labels (same count)
        for _try in range(5):
            g2 = _growths(rng, labels, len(g))
            rb = dict(ra, ops=_interleave(rng, g2, 0.8, False))
            if _final_labels(rb) != _final_labels(ra) and len(_final_labels(rb)) == len(_final_labels(ra)):
                variants.append(('different-growth', rb))
                break
        rb = dict(ra, name='other', ops=copy.deepcopy(ra['ops']))
        variants.append(('name', rb))
        for what, rb in variants:
            o = history_opts(rng)
            case_list = pair_case(ctx, 'api:index.equals-histories', 'index', ra, rb, o, what)
            for c in case_list:
                c.desc['call'] = 'a.equals(b, **opts), b.equals(a, **opts) with a = sfv.props.c10.build(a_recipe) (IndexHierarchyGO.from_labels, then ops in order), nothing read in between'
            yield from case_list
    for _ in range(ctx.n(30, 300)):
        cols = [['a', 1], ['a', 2]] if rng.random() < 0.5 else [['a', 1], ['b', 1]]
        nrows = rng.randint(1, 2)
        records = [[rng.randint(0, 3) for _ in cols] for _ in range(nrows)]
        adds = []
        last = cols[-1][0]
        for k in range(rng.randint(1, 2)):
            adds.append(['add', [last, 5 + k + rng.randint(0, 1) * 2], [rng.randint(0, 3) for _ in range(nrows)]])
        ra = {'kind': 'frame-history', 'columns': cols, 'records': records, 'name': None, 'ops': _interleave(rng, adds, 0.8, False)}
        variants = [('same-other-history', dict(ra, ops=_interleave(rng, copy.deepcopy(adds), 0.5, rng.random() < 0.2)))]
        adds2 = copy.deepcopy(adds)
        adds2[-1][1] = [adds2[-1][1][0], adds2[-1][1][1] + 10]
        variants.append(('different-column-label', dict(ra, ops=_interleave(rng, adds2, 0.8, False))))
        adds3 = copy.deepcopy(adds)
        adds3[-1][2] = [v + 1 for v in adds3[-1][2]]
        variants.append(('different-cell', dict(ra, ops=_interleave(rng, adds3, 0.8, False))))
        for what, rb in variants:
            o = history_opts(rng)
            case_list = pair_case(ctx, 'api:frame.equals-histories', 'frame', ra, rb, o, what)
            for c in case_list:
                c.desc['call'] = 'a.equals(b, **opts), b.equals(a, **opts) with a = sfv.props.c10.build(a_recipe) (FrameGO.from_records over IndexHierarchyGO columns, then ops), nothing read in between'
            yield from case_list


# ---- auto-supplied indices (no index= / columns= given, IndexAutoFactory, unset_index): an axis index the library created
#      itself is an index like any other: its name, dtype and class count exactly when the option asks for them
NDC_OPTS = [dict(zip(OPT_KEYS[:3], bits), skipna=True) for bits in itertools.product((False, True), repeat=3)]


def auto_ix(n, name=None, how='default', cls='Index'):
    return dict(ix_rec(range(n), cls=cls, name=name), auto=how)


def _matrix_case(ctx, kind, pool, names):
    '''equals over a whole pool for the 8 settings of (compare_name, compare_dtype, compare_class): reflexive, symmetric,
    transitive on the implementation's own answers, and an option only ever ADDS a requirement'''
    objs = [build(r) for r in pool]
    n = len(objs)
    ans = {}
    for o in NDC_OPTS:
        k = tuple(o[x] for x in OPT_KEYS[:3])
        for i in range(n):
            for j in range(n):
                ans[k, i, j] = call_equals(kind, objs[i], objs[j], o)[0]
    T = '(Ok true)'
    fail = None
    for (k, i, j), v in ans.items():
        if i == j and v != T:
            fail = f'not reflexive: {names[i]}.equals(itself, opts={k}) -> {v}'
        elif v != ans[k, j, i]:
            fail = f'not symmetric: {names[i]} vs {names[j]}, opts={k}: {v} / {ans[k, j, i]}'
        elif v == T:
            for l in range(n):
                if ans[k, j, l] == T and ans[k, i, l] != T:
                    fail = f'not transitive: {names[i]} = {names[j]} = {names[l]} but {names[i]}.equals({names[l]}) -> {ans[k, i, l]}, opts={k}'
            for pos in range(3):
                if k[pos]:
                    weaker = tuple(False if q == pos else k[q] for q in range(3))
                    if ans[weaker, i, j] != T:
                        fail = f'an option removed a requirement: {names[i]} vs {names[j]} equal under {k} but not under {weaker}'
        if fail:
            break
    ctx.count(f'auto-matrix:{kind}')
    desc = {'call': 'x_i.equals(x_j, compare_name=, compare_dtype=, compare_class=) for all i, j and the 8 settings; x_i = sfv.props.c10.build(pool[i])',
            'pool': dict(zip(names, pool)), 'observed_true': sorted(f'{k}:{names[i]}={names[j]}' for (k, i, j), v in ans.items() if v == T and i < j)}
    return Case('api:auto-index-matrix', desc, py_fail=fail, tags={'kind': kind + '-auto-matrix'},
                key=json.dumps(['auto-matrix', kind, pool], sort_keys=True, default=str))


def auto_index_cases(ctx):
    n = 3
    # ---- Index
    pool = [('auto', auto_ix(n)), ('auto-a', auto_ix(n, 'a')), ('auto-b', auto_ix(n, 'b')), ('factory-a', auto_ix(n, 'a', 'factory')),
            ('autoGO-b', auto_ix(n, 'b', cls='IndexGO')),
            ('explicit', ix_rec(range(n))), ('explicit-a', ix_rec(range(n), name='a')), ('explicit-f8-a', ix_rec(range(n), name='a', dtype='float64')),
            ('explicit-obj', ix_rec(range(n), dtype='object'))]
    for (na, ra), (nb, rb) in itertools.combinations(pool, 2):
        if not (ra.get('auto') or rb.get('auto')):
            continue
        for o in (ALL_OPTS if ctx.tier == 'thorough' else NDC_OPTS):
            yield from pair_case(ctx, 'api:auto-index', 'index', ra, rb, o, f'{na}|{nb}')
    yield _matrix_case(ctx, 'index', [r for _, r in pool], [k for k, _ in pool])
    # ---- Series / SeriesHE
    vals = [5, 6, 7]
    for cls in ('Series', 'SeriesHE'):
        pool = [('auto', se_rec('int64', vals, index=auto_ix(n), cls=cls)), ('auto-a', se_rec('int64', vals, index=auto_ix(n, 'a'), cls=cls)),
                ('auto-b', se_rec('int64', vals, index=auto_ix(n, 'b'), cls=cls)), ('factory-b', se_rec('int64', vals, index=auto_ix(n, 'b', 'factory'), cls=cls)),
                ('explicit', se_rec('int64', vals, index=ix_rec(range(n)), cls=cls)), ('explicit-a', se_rec('int64', vals, index=ix_rec(range(n), name='a'), cls=cls)),
                ('explicit-f8', se_rec('int64', vals, index=ix_rec(range(n), dtype='float64'), cls=cls))]
        for (na, ra), (nb, rb) in itertools.combinations(pool, 2):
            if not (ra['index'].get('auto') or rb['index'].get('auto')):
                continue
            if cls == 'Series':
                for o in NDC_OPTS:
                    yield from pair_case(ctx, 'api:auto-index', 'series', ra, rb, o, f'{na}|{nb}')
            else:
                yield from he_case(ctx, 'series', ra, rb, f'auto:{na}|{nb}')
        yield _matrix_case(ctx, 'series', [r for _, r in pool], [k for k, _ in pool])
    # ---- Frame / FrameHE (both axes)
    cols = [('int64', [10, 11, 12]), ('int64', [4, 5, 6])]
    for cls in ('Frame', 'FrameHE'):
        def fr(ix, cx):
            return fr_rec(cols, layout='2d', index=ix, columns=cx, cls=cls)
        c2 = 2
        pool = [('auto', fr(auto_ix(n), auto_ix(c2))), ('index-a', fr(auto_ix(n, 'a'), auto_ix(c2))), ('index-b', fr(auto_ix(n, 'b'), auto_ix(c2))),
                ('columns-a', fr(auto_ix(n), auto_ix(c2, 'a'))), ('columns-b', fr(auto_ix(n, 'a'), auto_ix(c2, 'b'))),
                ('unset-a', fr(auto_ix(n, 'a', 'unset_index'), ix_rec(range(c2)))),
                ('explicit', fr(ix_rec(range(n)), ix_rec(range(c2)))), ('explicit-a', fr(ix_rec(range(n), name='a'), ix_rec(range(c2))))]
        for (na, ra), (nb, rb) in itertools.combinations(pool, 2):
            if cls == 'Frame':
                for o in NDC_OPTS:
                    yield from pair_case(ctx, 'api:auto-index', 'frame', ra, rb, o, f'{na}|{nb}')
            else:
                yield from he_case(ctx, 'frame', ra, rb, f'auto:{na}|{nb}')
        yield _matrix_case(ctx, 'frame', [r for _, r in pool], [k for k, _ in pool])


# ---- HE
def he_observe(a, b):
    plain = True

    def op(fn):
        nonlocal plain

        def run():
            r = fn()
            if type(r) is not bool:
                plain = False
            return bool(r)
        return lit.res(run, lit.b)[0]
    eq_ab = op(lambda: a == b)
    eq_ba = op(lambda: b == a)
    ne_ab = op(lambda: a != b)
    ne_ba = op(lambda: b != a)
    hash_eq = lit.res(lambda: hash(a) == hash(b), lit.b)[0]
    set_len = lit.res(lambda: len({a, b}), lit.z)[0]
    in_dict = lit.res(lambda: b in {a: 0}, lit.b)[0]
    text = f'(mk_he_obs {eq_ab} {eq_ba} {ne_ab} {ne_ba} {_b(plain)} {hash_eq} {set_len} {in_dict})'
    obs = {'a == b': eq_ab, 'b == a': eq_ba, 'a != b': ne_ab, 'b != a': ne_ba, 'plain bool': plain, 'hash(a) == hash(b)': hash_eq,
           'len({a, b})': set_len, 'b in {a: 0}': in_dict}
    return text, obs


def he_case(ctx, kind, ra, rb, what, identical=False):
    a = build(ra)
    b = a if identical else build(rb)
    ids = Ids()
    la, lb = obj_lit(kind, a, ids), obj_lit(kind, b, ids)
    obs_lit, obs = he_observe(a, b)
    if kind == 'frame':
        m = (f'(let a := {la} in let b := {lb} in M_he_check key2_eqb (M_frame_equals c10_cfgs c10_he_frame a b) (M_frame_equals c10_cfgs c10_he_frame b a) '
             f'(M_frame_hash_key c10_hash_values_frame a) (M_frame_hash_key c10_hash_values_frame b) {obs_lit})')
        s = f'(let a := {la} in let b := {lb} in S_he_check (S_frame_equals he_opts_doc a b) (S_frame_equals he_opts_doc b a) {obs_lit})'
    else:
        m = (f'(let a := {la} in let b := {lb} in M_he_check vl_eqb (M_series_equals c10_cfgs c10_he_series a b) (M_series_equals c10_cfgs c10_he_series b a) '
             f'(M_series_hash_key c10_hash_values_series a) (M_series_hash_key c10_hash_values_series b) {obs_lit})')
        s = f'(let a := {la} in let b := {lb} in S_he_check (S_series_equals he_opts_doc a b) (S_series_equals he_opts_doc b a) {obs_lit})'
    if hetero_missing(ra, rb):
        s = None
    tags = {'kind': 'he-' + kind, 'what': what, 'skipna': True}
    hier = any(r[ax]['cls'].startswith('IndexHierarchy') for r in (ra, rb) for ax in (('index', 'columns') if kind == 'frame' else ('index',)))
    he_opts = dict(compare_name=True, compare_dtype=False, compare_class=False, skipna=True)
    fid = finding_tags(kind, ra, rb, he_opts)
    tags['hierarchical'] = hier            # regression class of the repaired finding C10-he-hash-hierarchy
    if fid and not identical:
        tags['finding'] = fid
    py_fail = None
    if obs['a == b'] != obs['b == a']:
        py_fail = f'== is not symmetric: a == b -> {obs["a == b"]}, b == a -> {obs["b == a"]}'
    ctx.count(f'he-{kind}:{what}', f'he-answer:{obs["a == b"]}')
    desc = {'call': 'a == b, b == a, a != b, b != a, hash(a) == hash(b), len({a, b}), b in {a: 0}; a = sfv.props.c10.build(a_recipe)', 'a_recipe': ra,
            'b_recipe': None if identical else rb, 'differs_in': what, 'observed': obs}
    key = json.dumps(['he', kind, ra, None if identical else rb, what], sort_keys=True, default=str)
    return list(split_case(Case('api:he-' + kind, desc, m=m, s=s, py_fail=py_fail, tags=tags, nontrivial=not identical, key=key)))


def api_he_cases(ctx):
    # label sets that are ==-equal but of different dtype must hash alike: 1 / 1.0 / True
    a = se_rec('int64', [1, 2], index=ix_rec([0, 1]), cls='SeriesHE')
    b = se_rec('int64', [1, 2], index=ix_rec([0, 1], dtype='float64'), cls='SeriesHE')
    yield from he_case(ctx, 'series', a, b, 'label-dtype')
    b = se_rec('int64', [1, 2], index=ix_rec([False, True], dtype='object'), cls='SeriesHE')
    yield from he_case(ctx, 'series', a, b, 'label-dtype')
    a = se_rec('int64', [1, 2], index=ix_rec([['a', 1], ['a', 2]], cls='IndexHierarchy'), cls='SeriesHE')
    yield from he_case(ctx, 'series', a, a, 'hierarchical-index', identical=True)
    import copy
    yield from he_case(ctx, 'series', a, copy.deepcopy(a), 'hierarchical-index')
    f = fr_rec([('int64', [1, 2])], index=ix_rec([['a', 1], ['a', 2]], cls='IndexHierarchy'), cls='FrameHE')
    yield from he_case(ctx, 'frame', f, copy.deepcopy(f), 'hierarchical-index')
    for base in base_series(ctx, ctx.n(40, 300)):
        base['cls'] = 'SeriesHE'
        for what, v in series_variants(ctx.rng, base):
            if what == 'class':
                continue          # a plain Series has no hash; HE == non-HE is covered by the equals strata (class variants)
            yield from he_case(ctx, 'series', base, v, what)
        yield from he_case(ctx, 'series', base, base, 'identity', identical=True)
    for base in base_frames(ctx, ctx.n(30, 250)):
        base['cls'] = 'FrameHE'
        for what, v in frame_variants(ctx.rng, base):
            if what == 'class':
                continue
            yield from he_case(ctx, 'frame', base, v, what)
        yield from he_case(ctx, 'frame', base, base, 'identity', identical=True)


# ---- triples: transitivity on the implementation's own answers
def triple_cases(ctx):
    import copy
    rng = ctx.rng
    for base in base_frames(ctx, ctx.n(40, 400)):
        vs = frame_variants(rng, base)
        # chains of "harmless" differences (layout, dtype, copy) and one harmful one
        pool = [v for w, v in vs if w in ('copy', 'layout', 'dtype', 'class', 'index-class')]
        harm = [v for w, v in vs if w in ('cell', 'cell-missing-one-side', 'label-index')]
        recs = [base] + rng.sample(pool, min(2, len(pool)))
        if harm and rng.random() < 0.5:
            recs[rng.randrange(len(recs))] = rng.choice(harm)
        while len(recs) < 3:
            recs.append(copy.deepcopy(base))
        o = rand_opts(rng)
        o['compare_class'] = False
        objs = [build(r) for r in recs]
        ans = {}
        for i, j in itertools.permutations(range(3), 2):
            ans[(i, j)] = call_equals('frame', objs[i], objs[j], o)[0]
        py_fail = None
        for i, j, k in itertools.permutations(range(3), 3):
            if ans[(i, j)] == '(Ok true)' and ans[(j, k)] == '(Ok true)' and ans[(i, k)] != '(Ok true)':
                py_fail = f'equals is not transitive: x{i}.equals(x{j}) and x{j}.equals(x{k}) but x{i}.equals(x{k}) -> {ans[(i, k)]}'
                break
        tags = {'kind': 'frame-triple', 'what': 'triple', 'skipna': o['skipna']}
        fids = {finding_tags('frame', recs[i], recs[j], o) for i, j in itertools.permutations(range(3), 2)} - {None}
        if fids:
            tags['finding'] = sorted(fids)[0]
        ctx.count('triple')
        yield Case('api:frame.equals-triples', {'call': 'x_i.equals(x_j, **opts) for all ordered pairs; x_i = sfv.props.c10.build(recipes[i])', 'recipes': recs, 'opts': o,
                                              'observed': {f'x{i}.equals(x{j})': v for (i, j), v in ans.items()}},
                   py_fail=py_fail, tags=tags, key=json.dumps(['triple', recs, o], sort_keys=True, default=str))


# ---- malformed: other is not a container of the same kind
def malformed_cases(ctx):
    import static_frame as sf
    f = build(fr_rec([('int64', [1, 2])]))
    s = build(se_rec('int64', [1, 2]))
    i = build(ix_rec([0, 1]))
    h = build(ix_rec([['a', 1], ['a', 2]], cls='IndexHierarchy'))
    b = sf.Bus.from_frames([f.rename('x')])
    others = [None, 1, 'a', (1, 2), np.array([1, 2]), f.values, f._blocks]
    things = [('frame', f), ('series', s), ('index', i), ('hier', h), ('bus', b)]
    for (ka, a), (kb, bb) in itertools.permutations(things, 2):
        others_a = [(kb, bb)]
        for ko, other in others_a:
            for o in (DEFAULT_OPTS, dict(DEFAULT_OPTS, compare_class=True)):
                text, _ = lit.res(lambda: a.equals(other, **o), lambda r: lit.b(bool(r)))
                ctx.count('malformed:other-kind')
                yield Case('malformed:other-kind', {'call': f'{ka}.equals({ko}, **opts)', 'opts': o, 'observed': text},
                           py_fail=None if text == '(Ok false)' else f'{ka}.equals({ko}) -> {text}, expected False', tags={'kind': 'malformed'}, nontrivial=True,
                           key=json.dumps(['malformed', ka, ko, o], sort_keys=True))
    for (ka, a) in things:
        for other in others:
            for o in (DEFAULT_OPTS, dict(DEFAULT_OPTS, compare_class=True)):
                text, _ = lit.res(lambda: a.equals(other, **o), lambda r: lit.b(bool(r)))
                ctx.count('malformed:non-container')
                yield Case('malformed:non-container', {'call': f'{ka}.equals({type(other).__name__} object, **opts)', 'opts': o, 'observed': text},
                           py_fail=None if text == '(Ok false)' else f'{ka}.equals({type(other).__name__}) -> {text}, expected False', tags={'kind': 'malformed'},
                           key=json.dumps(['malformed', ka, type(other).__name__, repr(other)[:40], o], sort_keys=True))


def cases(ctx):
    yield from fixed_witness_cases(ctx)
    yield from kernel_tb_cases(ctx)
    yield from kernel_tb_route_cases(ctx)
    yield from zero_size_layout_cases(ctx)
    yield from kernel_level_cases(ctx)
    yield from api_frame_cases(ctx)
    yield from api_series_cases(ctx)
    yield from api_index_cases(ctx)
    yield from history_cases(ctx)
    yield from route_cases(ctx)
    yield from auto_index_cases(ctx)
    yield from api_bus_cases(ctx)
    yield from lazy_bus_cases(ctx)
    yield from api_he_cases(ctx)
    yield from triple_cases(ctx)
    yield from malformed_cases(ctx)
