'''C13 -- grouping partitions the container; windows cover it as specified.'''
import ast
import itertools
import os

import numpy as np

from .. import lit
from .. import zoo
from ..core import Case

ID = 'C13'
MANIFEST = {
    'text': ('Coq theorems, all unbounded (any number of rows, any key function/type): C13_group_partition / C13_group_keys_distinct / C13_group_sound (the specification S_group is a partition: '
             'groups concatenated are a Permutation of the rows, keys pairwise distinct, every group non-empty, key-constant and equal to the filter of the input, i.e. original order kept); '
             'C13_pathA_refines (the sort-and-slice path Frame._axis_group_sort_items -- stable sort, flatnonzero(v != roll(v,1))[1:], slices between transitions -- equals one group per distinct key in sorted order with '
             'members in input order; the [1:] trick is proved correct from sortedness), C13_pathB_refines (np.unique(return_inverse) + one mask per key = the same), C13_paths_agree, C13_pathA_partition, '
             'C13_pathA_is_S_up_to_group_order, C13_paths_agree_int (hypotheses satisfiable), C13_fallback_partition + C13_fallback_exact_when_repr_separates (string-representation branch), C13_apply_one_per_group, '
             'C13_code_shape (sort kind, roll amount, [1:] and the path-choice expression REGENERATED from frame.py/util.py agree with the model), '
             'C13_group_unique_axis (TypeBlocks.group calls np.unique with axis= exactly when the key array is 2-D, along the grouping axis -- decision REGENERATED), C13_window_keywords_forwarded (every keyword of Frame/Series._axis_window reaches _axis_window_items and axis_window_items, lists REGENERATED), C13_windows_exact (the loop of axis_window_items with index arithmetic REGENERATED from container_util.py = the anchor enumeration, every parameter tuple), C13_windows_terminate, '
             'C13_windows_sound / C13_window_inside / C13_windows_complete (each yielded window is the contiguous slice of its anchor with the stated size; every anchor inside the container with an existing label is yielded). '
             'Correspondence: API-level runs of Series/Frame iter_group_items, iter_group_labels_items, iter_group(...).apply, iter_window_items over all block layouts, both axes, single/multiple keys, '
             'int/str/bool/float/object/mixed keys, hierarchical indices, exhaustive window parameter grid; kernel-level runs of util.array_to_groups_and_locations; malformed inputs.'),
    'note': ('trusted: Coq kernel, harness, generate() AST extractor of this module (fail closed), oracle contracts: np.argsort(kind=mergesort) gives the stable sorted arrangement, np.unique(return_inverse) the sorted '
             'distinct values with positions, both under val_leb; np.unique raises TypeError on unorderable object arrays and on 2-D object arrays with axis=; str(x) of ints/strs/bools/None; l[a:b] for a,b>=0 = firstn/skipn. '
             'Modelled, not proved about the code: that frame_sorted/_extract take whole rows (C03/C04/C12 territory; observed through the complete group contents), dtype resolution of the key array (a rule on dtype classes). '
             'The order hypotheses of the path theorems are proved satisfiable for Z only (val_leb on the generated key classes is validated by the correspondence, not proved). '
             'Known findings (model follows the code, spec does not): C13-str-fallback, C13-framego-axis1-sort-path, C13-window-array-axis1-empty, C13-window-apply-index-constructor, C13-window-apply-empty-hier, C13-series-group-apply-index-constructor (for the last three only S is compared, the model does not follow the wrong index construction). Repaired after this check derived them (regression cases kept): one-row list key on axis 1 (cf0ec12), string-branch labels on axis 1 (f8cd3fd), Frame.iter_group_labels over several depths (b935330). Not covered: the map_any / map_fill / map_all family of the iterator delegates (mappings keyed by the iterated value: group and window values are containers, not hashable), apply_pool with processes (threads only; process pools are C18), Quilt sources of axis_window_items (container_util.py:477, C19), window_valid / window_func other than the two callbacks used (even number of rows; reverse), timedelta64 and complex keys, label depth out of range. NaN keys are outside the generated domain '
             '(the two paths visibly disagree on them: one group per NaN on the sort path, one NaN group on the unique path).'),
    'technique': 'refinement of two implementation models to one specification + partition laws; loop = closed-form enumeration with regenerated arithmetic; differential correspondence by vm_compute',
}
PROPERTY_FILES = ['Properties/C13.v']
REFUTED_FILES = ['Refuted/C13.v']
MODEL_FILES = ['SF/GroupVal.v', 'SF/WindowSpec.v', 'SF/Window.v', 'SF/GroupCode.v', 'Gen/Gen_c13.v']
GENERATED_FILES = ['Gen/Gen_c13.v']      # overwritten with a broken stub by targets.py when generate() raises
IMPORTS = 'Require Import SF.Prelude SF.PySlice SF.Dtype SF.Value SF.Group SF.GroupVal SF.WindowSpec SF.Window Gen.Gen_c13.'
# the specification side needs nothing generated: it is still evaluated (search for a failing input) when generate() raises or a model no longer builds
IMPORTS_SPEC_ONLY = 'Require Import SF.Prelude SF.PySlice SF.Dtype SF.Value SF.Group SF.GroupVal SF.WindowSpec.'
RULE = ('api strata: public iter_group_items / iter_group_labels_items / iter_group*.apply / iter_window_items calls on generated Series and Frames -- exhaustive value sequences of length <= 4 over 3 values for Series, '
        'every block layout of frames with <= 3 columns (thorough: <= 4), both axes, element/list/slice keys of 1-3 positions, key dtypes int/str/bool/float/object(orderable, mixed, colliding str()), flat and hierarchical axes, '
        'one group / all-distinct / duplicated keys; windows: the grid n<=6, size<=4, step<=3, shifts in [-3,3], increment in [-1,1], window_sized on/off (thorough: complete, quick: boundary + random sample) on Series (Series and array windows), plus Frames on both axes; longer axes (17-60 positions, 2-4 interleaved keys of dtype int64/float64/bool/str/int16/uint8, both axes) on the sort path so that an unstable sort shows as a changed order inside a group; a second window grid n<=9, size<=3, start_shift down to -(n+2), label_shift up to n+2 (thorough: complete; quick: every run samples the anchors lying wholly left of the container that still have a label); '
        'the other public forms of the same iterators (iter_group / iter_group_labels iterated without keys, apply over values and over items, apply_iter, apply_iter_items, apply_pool with threads over values and items; window_valid / window_func callbacks and the apply family over windows) on Series, SeriesHE, Frame, FrameGO, FrameHE; key dtypes also uint8, bytes, datetime64[D]; date-typed inner levels and IndexDate indices; integer (non-positional) labels; ndarray-of-labels and Boolean-mask keys; empty and 1x1 shapes; composite object-dtype keys adversarial under stringification ((1,1x)/(11,x), (a,bc)/(ab,c), empty-string parts, None/None-as-text, 1/1-as-text/1.0/True) on both axes and for label-depth lists; the values-only forms list(iter_window(...)) / list(iter_window_array(...)) on Series and on Frames of both axes (sequence of windows = map snd of the items), weighted to label_shift != 0; FrameGO receivers whose first yielded group is grown in place during the iteration; kernel stratum: util.array_to_groups_and_locations called directly; malformed stream: absent key, invalid axis, size<=0, step<0. '
        'A group case is non-trivial when it has >= 2 groups and some group with >= 2 members; a window case when at least one window is yielded and at least one anchor is rejected or clipped; '
        'distinct = distinct (call, input, parameters).')
ASSUMPTIONS = [
    'np.argsort(kind="mergesort") + take = the stable sorted arrangement under val_leb (numbers by value, strings by code point, tuples lexicographically)',
    'np.unique(a, return_inverse=True) = (sorted distinct values, position of each element); TypeError for unorderable 1-D object arrays and for any object array with axis= on a 2-D source',
        'str(x) for int / str / bool / None keys; floats never reach the string branch (generator families are disjoint)',
    'dtype resolution of several key columns / of a row: same class (int|float, bool, str) keeps a non-object dtype, mixed classes give object',
    'Python int = Z; l[a:b] with a, b >= 0 is firstn (b-a) (skipn a l)',
]
TRUSTED = ['tools/sfv/props/c13.py generate(): AST extraction of the window loop arithmetic, sort kind, transitions expression and path choice (fails closed on any other shape)']
EXHAUSTIVE = {'quick': False, 'thorough': True}


# =========================================================================== generate(): source -> Gen/Gen_c13.v
_CU = 'static_frame/core/container_util.py'
_FR = 'static_frame/core/frame.py'
_UT = 'static_frame/core/util.py'


class Shape(Exception):
    """the source no longer has the shape the extractor understands (fail closed)"""


def _need(cond, what):
    if not cond:
        raise Shape(what)


_CMP = {ast.Lt: '<?', ast.LtE: '<=?', ast.Gt: '>?', ast.GtE: '>=?', ast.Eq: '=?'}


def _zexpr(node, names):
    """Python int/bool expression over the variables `names` -> Gallina (Z / bool) text."""
    rec = lambda n: _zexpr(n, names)
    if isinstance(node, ast.Name):
        _need(node.id in names, f'unexpected variable {node.id}')
        return node.id
    if isinstance(node, ast.Constant) and isinstance(node.value, int) and not isinstance(node.value, bool):
        return lit.z(node.value)
    if (isinstance(node, ast.UnaryOp) and isinstance(node.op, ast.USub) and isinstance(node.operand, ast.Constant)
            and isinstance(node.operand.value, int)):
        return lit.z(-node.operand.value)
    if isinstance(node, ast.UnaryOp) and isinstance(node.op, ast.Not):
        return f'(negb {rec(node.operand)})'
    if isinstance(node, ast.BinOp) and isinstance(node.op, (ast.Add, ast.Sub, ast.Mult)):
        op = {ast.Add: '+', ast.Sub: '-', ast.Mult: '*'}[type(node.op)]
        return f'({rec(node.left)} {op} {rec(node.right)})'
    if (isinstance(node, ast.Call) and isinstance(node.func, ast.Name) and node.func.id == 'abs'
            and len(node.args) == 1 and not node.keywords):
        return f'(Z.abs {rec(node.args[0])})'
    if (isinstance(node, ast.Call) and isinstance(node.func, ast.Name) and node.func.id == 'len' and len(node.args) == 1
            and isinstance(node.args[0], ast.Name) and node.args[0].id == 'labels'):
        _need('n' in names, 'len(labels) not expected here')
        return 'n'
    if isinstance(node, ast.IfExp):
        return f'(if {rec(node.test)} then {rec(node.body)} else {rec(node.orelse)})'
    if isinstance(node, ast.Compare) and len(node.ops) == 1:
        a, b = rec(node.left), rec(node.comparators[0])
        if isinstance(node.ops[0], ast.NotEq):
            return f'(negb ({a} =? {b}))'
        _need(type(node.ops[0]) in _CMP, f'comparison {type(node.ops[0]).__name__}')
        return f'({a} {_CMP[type(node.ops[0])]} {b})'
    if isinstance(node, ast.BoolOp):
        op = '||' if isinstance(node.op, ast.Or) else '&&'
        return '(' + f' {op} '.join(rec(v) for v in node.values) + ')'
    raise Shape(f'expression form {ast.dump(node)[:80]}')


def _assign(st, target):
    _need(isinstance(st, ast.Assign) and len(st.targets) == 1 and isinstance(st.targets[0], ast.Name) and st.targets[0].id == target,
          f'expected `{target} = ...`, found `{ast.unparse(st)[:60]}`')
    return st.value


def _aug(st, target):
    _need(isinstance(st, ast.AugAssign) and isinstance(st.op, ast.Add) and isinstance(st.target, ast.Name) and st.target.id == target,
          f'expected `{target} += ...`, found `{ast.unparse(st)[:60]}`')
    return st.value


def _raise_if(st, exc):
    _need(isinstance(st, ast.If) and not st.orelse and len(st.body) == 1 and isinstance(st.body[0], ast.Raise)
          and exc in ast.unparse(st.body[0]), f'expected `if ...: raise {exc}`, found `{ast.unparse(st)[:60]}`')
    return st.test


def _names_loaded(node):
    return {n.id for n in ast.walk(node) if isinstance(n, ast.Name)}


def _is_doc(st):
    return isinstance(st, ast.Expr) and isinstance(st.value, ast.Constant) and isinstance(st.value.value, str)


def _gen_window(repo):
    with open(os.path.join(repo, _CU)) as f:
        tree = ast.parse(f.read())
    fn = [n for n in tree.body if isinstance(n, ast.FunctionDef) and n.name == 'axis_window_items']
    _need(len(fn) == 1, 'axis_window_items not found')
    fn = fn[0]
    kw = {a.arg: d for a, d in zip(fn.args.kwonlyargs, fn.args.kw_defaults)}
    for name, default in (('step', 1), ('label_shift', 0), ('start_shift', 0), ('size_increment', 0), ('axis', 0)):
        _need(name in kw and isinstance(kw[name], ast.Constant) and kw[name].value == default and not isinstance(kw[name].value, bool),
              f'default of {name}')
    _need(isinstance(kw.get('window_sized'), ast.Constant) and kw['window_sized'].value is True, 'default of window_sized')
    body = [st for st in fn.body if not isinstance(st, (ast.ImportFrom, ast.Import)) and not _is_doc(st)]
    wi = [i for i, st in enumerate(body) if isinstance(st, ast.While)]
    _need(len(wi) == 1 and wi[0] == len(body) - 1, 'exactly one trailing while loop expected')
    pre, loop = body[:-1], body[-1]
    _need(isinstance(loop.test, ast.Constant) and loop.test.value is True and not loop.orelse, '`while True:` expected')
    _need(len(pre) >= 6, 'statements before the loop')
    out = {}
    out['w_reject_size'] = ('size', 'bool', _zexpr(_raise_if(pre[0], 'RuntimeError'), {'size'}))
    out['w_reject_step'] = ('step', 'bool', _zexpr(_raise_if(pre[1], 'RuntimeError'), {'step'}))
    loop_vars = {'idx_left', 'idx_right', 'size', 'count', 'count_window_max', 'idx_left_max', 'step', 'size_increment',
                 'label_shift', 'start_shift', 'idx_left_floored', 'idx_right_floored', 'idx_label'}
    # nothing between the guards and the loop may assign a loop variable except count_window_max and the three initialisations
    tail = pre[-4:]
    for st in pre[2:-4]:
        assigned = set()
        for n in ast.walk(st):
            if isinstance(n, ast.Assign):
                assigned |= {t.id for t in n.targets if isinstance(t, ast.Name)}
            elif isinstance(n, (ast.AnnAssign, ast.AugAssign)) and isinstance(n.target, ast.Name):
                assigned.add(n.target.id)
        _need(not (assigned & loop_vars), f'unexpected assignment to {sorted(assigned & loop_vars)} before the loop')
    cwm = tail[0]
    _need(isinstance(cwm, ast.If) and len(cwm.body) == 1 and len(cwm.orelse) == 1, 'count_window_max if/else')
    a = _zexpr(_assign(cwm.body[0], 'count_window_max'), {'n', 'start_shift'})
    b = _zexpr(_assign(cwm.orelse[0], 'count_window_max'), {'n', 'start_shift'})
    out['w_count_window_max'] = ('n start_shift', 'Z', f'if {_zexpr(cwm.test, {"start_shift"})} then {a} else {b}')
    out['w_idx_left_max'] = ('count_window_max', 'Z', _zexpr(_assign(tail[1], 'idx_left_max'), {'count_window_max'}))
    out['w_idx_left_init'] = ('start_shift', 'Z', _zexpr(_assign(tail[2], 'idx_left'), {'start_shift'}))
    out['w_count_init'] = ('', 'Z', _zexpr(_assign(tail[3], 'count'), set()))
    lb = loop.body
    _need(len(lb) == 14, f'loop body has {len(lb)} statements, 14 expected')
    out['w_idx_right'] = ('idx_left size', 'Z', _zexpr(_assign(lb[0], 'idx_right'), {'idx_left', 'size'}))
    out['w_idx_left_floored'] = ('idx_left', 'Z', _zexpr(_assign(lb[1], 'idx_left_floored'), {'idx_left'}))
    out['w_idx_right_floored'] = ('idx_right', 'Z', _zexpr(_assign(lb[2], 'idx_right_floored'), {'idx_right'}))
    key = _assign(lb[3], 'key')
    _need(isinstance(key, ast.Call) and isinstance(key.func, ast.Name) and key.func.id == 'slice' and len(key.args) == 2 and not key.keywords,
          'key = slice(a, b)')
    kvars = {'idx_left', 'idx_right', 'idx_left_floored', 'idx_right_floored'}
    out['w_key_start'] = ('idx_left idx_right idx_left_floored idx_right_floored', 'Z', _zexpr(key.args[0], kvars))
    out['w_key_stop'] = ('idx_left idx_right idx_left_floored idx_right_floored', 'Z', _zexpr(key.args[1], kvars))
    # the extraction uses `key` and none of the index variables
    ext = lb[4]
    _need(isinstance(ext, ast.If), 'extraction if')
    used = _names_loaded(ext)
    _need('key' in used and not (used & loop_vars), f'extraction uses {sorted(used & loop_vars)}')
    for n in ast.walk(ext):
        if isinstance(n, ast.Assign):
            _need(all(isinstance(t, ast.Name) and t.id == 'window' for t in n.targets), 'extraction assigns only `window`')
        _need(not isinstance(n, (ast.AugAssign, ast.AnnAssign)), 'no other assignment in the extraction')
    v = _assign(lb[5], 'valid')
    _need(isinstance(v, ast.Constant) and v.value is True, 'valid = True')
    tr = lb[6]
    _need(isinstance(tr, ast.Try) and len(tr.body) == 3 and len(tr.handlers) == 1 and not tr.orelse and not tr.finalbody
          and ast.unparse(tr.handlers[0].type) == 'IndexError', 'try/except IndexError')
    out['w_idx_label'] = ('idx_right label_shift', 'Z', _zexpr(_assign(tr.body[0], 'idx_label'), {'idx_right', 'label_shift'}))
    out['w_label_neg'] = ('idx_label', 'bool', _zexpr(_raise_if(tr.body[1], 'IndexError'), {'idx_label'}))
    lab = _assign(tr.body[2], 'label')
    _need(ast.unparse(lab) == 'labels.iloc[idx_label]', 'label = labels.iloc[idx_label]')
    hv = tr.handlers[0].body
    _need(len(hv) == 1 and isinstance(_assign(hv[0], 'valid'), ast.Constant) and hv[0].value.value is False, 'except: valid = False')
    sz = lb[7]
    _need(isinstance(sz, ast.If) and not sz.orelse and len(sz.body) == 1 and isinstance(sz.test, ast.BoolOp) and isinstance(sz.test.op, ast.And)
          and len(sz.test.values) == 3 and ast.unparse(sz.test.values[0]) == 'valid' and ast.unparse(sz.test.values[1]) == 'window_sized',
          'if valid and window_sized and <cmp>: valid = False')
    cmp_ = sz.test.values[2]
    _need(isinstance(cmp_, ast.Compare) and ast.unparse(cmp_.left) == 'window.shape[axis]', 'window.shape[axis] compared')
    cmp2 = ast.Compare(left=ast.Name(id='window_len', ctx=ast.Load()), ops=cmp_.ops, comparators=cmp_.comparators)
    out['w_sized_invalid'] = ('window_len size', 'bool', _zexpr(cmp2, {'window_len', 'size'}))
    _need(isinstance(_assign(sz.body[0], 'valid'), ast.Constant) and sz.body[0].value.value is False, 'valid = False')
    wv = lb[8]
    _need(isinstance(wv, ast.If) and ast.unparse(wv.test) == 'valid and window_valid and (not window_valid(window))' and not wv.orelse
          and len(wv.body) == 1 and ast.unparse(wv.body[0]) == 'valid = False', 'window_valid test')
    yl = lb[9]
    _need(isinstance(yl, ast.If) and ast.unparse(yl.test) == 'valid' and not yl.orelse and len(yl.body) == 2
          and ast.unparse(yl.body[1]) == 'yield (label, window)' and ast.unparse(yl.body[0]).startswith('if window_func:'),
          'if valid: ... yield label, window')
    out['w_next_left'] = ('idx_left step', 'Z', f'(idx_left + {_zexpr(_aug(lb[10], "idx_left"), {"step"})})')
    out['w_next_size'] = ('size size_increment', 'Z', f'(size + {_zexpr(_aug(lb[11], "size"), {"size_increment"})})')
    out['w_next_count'] = ('count', 'Z', f'(count + {_zexpr(_aug(lb[12], "count"), set())})')
    br = lb[13]
    _need(isinstance(br, ast.If) and not br.orelse and len(br.body) == 1 and isinstance(br.body[0], ast.Break), 'if ...: break')
    out['w_break'] = ('count count_window_max idx_left idx_left_max size', 'bool',
                      _zexpr(br.test, {'count', 'count_window_max', 'idx_left', 'idx_left_max', 'size'}))
    lines = []
    for name, (params, ty, expr) in out.items():
        ps = f' ({params} : Z)' if params else ''
        lines.append(f'Definition {name}{ps} : {ty} := {expr}.')
    return lines


def _method(tree, cls, name):
    c = [n for n in tree.body if isinstance(n, ast.ClassDef) and n.name == cls]
    _need(len(c) == 1, f'class {cls}')
    m = [n for n in c[0].body if isinstance(n, ast.FunctionDef) and n.name == name]
    _need(len(m) == 1, f'{cls}.{name}')
    return m[0]


def _gen_group(repo):
    with open(os.path.join(repo, _FR)) as f:
        tree = ast.parse(f.read())
    with open(os.path.join(repo, _UT)) as f:
        util = ast.parse(f.read())
    lines = []
    # --- sort kind used by the sort path
    gs = _method(tree, 'Frame', '_axis_group_sort_items')
    body = [st for st in gs.body if not _is_doc(st)]
    st0 = body[0]
    _need(isinstance(st0, (ast.Assign, ast.AnnAssign)) and isinstance(st0.value, ast.Call) and ast.unparse(st0.value.func) == 'self.sort_values'
          and [ast.unparse(a) for a in st0.value.args] == ['key']
          and {k.arg for k in st0.value.keywords} <= {'axis', 'kind'} and 'axis' in {k.arg for k in st0.value.keywords}
          and all(ast.unparse(k.value) == 'not axis' for k in st0.value.keywords if k.arg == 'axis'),
          f'frame_sorted = self.sort_values(key, axis=not axis[, kind=...]); found {ast.unparse(st0)[:80]}')
    explicit_kind = [k.value for k in st0.value.keywords if k.arg == 'kind']
    sv = _method(tree, 'Frame', 'sort_values')
    kw = {a.arg: d for a, d in zip(sv.args.kwonlyargs, sv.args.kw_defaults)}
    _need('kind' in kw and 'ascending' in kw and isinstance(kw['ascending'], ast.Constant) and kw['ascending'].value is True,
          'sort_values defaults')
    kind = explicit_kind[0] if explicit_kind else kw['kind']
    if isinstance(kind, ast.Name):
        consts = {t.id: st.value for st in util.body if isinstance(st, ast.Assign) for t in st.targets if isinstance(t, ast.Name)}
        _need(kind.id in consts and isinstance(consts[kind.id], ast.Constant) and isinstance(consts[kind.id].value, str), f'constant {kind.id}')
        kind = consts[kind.id]
    _need(isinstance(kind, ast.Constant) and isinstance(kind.value, str), 'kind default is a string')
    # ... and the order really comes from np.argsort(values_for_sort, kind=kind)
    _need(any(ast.unparse(n) == 'np.argsort(values_for_sort, kind=kind)' for n in ast.walk(sv)), 'np.argsort(values_for_sort, kind=kind) in sort_values')
    lines.append(f'Definition group_sort_kind : string := {lit.s(kind.value)}.')
    # --- transitions = np.flatnonzero(group_values != np.roll(group_values, 1))[1:]
    tr = [st for st in body if isinstance(st, ast.Assign) and isinstance(st.targets[0], ast.Name) and st.targets[0].id == 'transitions']
    _need(len(tr) == 1, 'transitions assignment')
    v = tr[0].value
    _need(isinstance(v, ast.Subscript) and isinstance(v.slice, ast.Slice) and v.slice.upper is None and v.slice.step is None
          and isinstance(v.slice.lower, ast.Constant) and isinstance(v.slice.lower.value, int), 'transitions = (...)[k:]')
    call = v.value
    _need(isinstance(call, ast.Call) and ast.unparse(call.func) == 'np.flatnonzero' and len(call.args) == 1, 'np.flatnonzero(...)')
    cmp_ = call.args[0]
    _need(isinstance(cmp_, ast.Compare) and len(cmp_.ops) == 1 and isinstance(cmp_.ops[0], ast.NotEq)
          and ast.unparse(cmp_.left) == 'group_values', 'group_values != ...')
    roll = cmp_.comparators[0]
    _need(isinstance(roll, ast.Call) and ast.unparse(roll.func) == 'np.roll' and len(roll.args) == 2 and not roll.keywords
          and ast.unparse(roll.args[0]) == 'group_values'
          and isinstance(roll.args[1], ast.Constant) and isinstance(roll.args[1].value, int), 'np.roll(group_values, k)')
    lines.append(f'Definition transitions_drop : Z := {lit.z(v.slice.lower.value)}.')
    lines.append(f'Definition transitions_roll : Z := {lit.z(roll.args[1].value)}.')
    # --- the slicing loop
    i = body.index(tr[0])
    _need(len(body) == i + 4, 'statements after `transitions = ...`')
    _need(ast.unparse(body[i + 1]) == 'start = 0', 'start = 0')
    loop = body[i + 2]
    _need(isinstance(loop, ast.For) and ast.unparse(loop.target) == 't' and ast.unparse(loop.iter) == 'transitions' and not loop.orelse
          and [ast.unparse(s) for s in loop.body] == ['slc = slice(start, t)', 'yield (group_values[start], extract_frame(slc, index[slc]))', 'start = t'],
          'for t in transitions: slc = slice(start, t); yield ...; start = t')
    _need(ast.unparse(body[i + 3]) == 'yield (group_values[start], extract_frame(slice(start, None), index[start:]))',
          'final yield of slice(start, None)')
    # --- path choice of _axis_group_loc_items
    gl = _method(tree, 'Frame', '_axis_group_loc_items')
    body = [st for st in gl.body if not _is_doc(st)]
    _need(len(body) == 2 and isinstance(body[1], ast.If), '_axis_group_loc_items: key resolution then the path if')
    top = body[1]
    atoms = {'self.columns.depth == 1': 'columns_depth1', 'self.index.depth == 1': 'index_depth1',
             'isinstance(key, KEY_MULTIPLE_TYPES)': 'key_multiple', 'has_object': 'has_object'}

    def bexpr(node):
        text = ast.unparse(node)
        if text in atoms:
            return atoms[text]
        if isinstance(node, ast.UnaryOp) and isinstance(node.op, ast.Not):
            return f'(negb {bexpr(node.operand)})'
        if isinstance(node, ast.BoolOp):
            op = '||' if isinstance(node.op, ast.Or) else '&&'
            return '(' + f' {op} '.join(bexpr(x) for x in node.values) + ')'
        raise Shape(f'path condition {text[:60]}')

    def leaf(stmts):
        _need(len(stmts) == 1 and isinstance(stmts[0], ast.Expr) and isinstance(stmts[0].value, ast.YieldFrom), 'yield from ...')
        call = stmts[0].value.value
        name = ast.unparse(call.func)
        _need(name in ('self._axis_group_sort_items', 'self._axis_group_iloc_items'), f'path target {name}')
        return 'true' if name.endswith('sort_items') else 'false'

    _need(len(top.body) == 2 and isinstance(top.body[0], ast.If) and isinstance(top.body[1], ast.If), 'has_object computation then inner if')
    ho = top.body[0]
    _need(ast.unparse(ho.test) == 'axis == 0' and len(ho.body) == 1 and len(ho.orelse) == 1
          and ast.unparse(ho.body[0]) == 'has_object = self._blocks.dtypes[iloc_key] == DTYPE_OBJECT'
          and ast.unparse(ho.orelse[0]) == 'has_object = self._blocks._row_dtype == DTYPE_OBJECT', 'has_object = key dtype == object')
    inner = top.body[1]
    expr = (f'if {bexpr(top.test)} then (if {bexpr(inner.test)} then {leaf(inner.body)} else {leaf(inner.orelse)}) '
            f'else {leaf(top.orelse)}')
    lines.append('(* true = _axis_group_sort_items, false = _axis_group_iloc_items (TypeBlocks.group) *)')
    lines.append(f'Definition gen_sort_path (columns_depth1 index_depth1 key_multiple has_object : bool) : bool := {expr}.')
    return lines


_SE = 'static_frame/core/series.py'
_TB = 'static_frame/core/type_blocks.py'


def _gen_unique_axis(repo):
    """TypeBlocks.group: when is np.unique called with axis=, and with which axis (the model takes: iff the key array is 2-D,
    along the grouping axis -- also for a key selecting a single row/column)"""
    with open(os.path.join(repo, _TB)) as f:
        tree = ast.parse(f.read())
    fn = _method(tree, 'TypeBlocks', 'group')
    top = [st for st in fn.body if isinstance(st, ast.If) and ast.unparse(st.test) == 'axis == 0']
    _need(len(top) == 1 and len(top[0].orelse) == 1 and isinstance(top[0].orelse[0], ast.If) and ast.unparse(top[0].orelse[0].test) == 'axis == 1',
          'TypeBlocks.group: if axis == 0 / elif axis == 1')
    init = [st for st in fn.body if isinstance(st, ast.Assign) and ast.unparse(st) == 'unique_axis = None']
    _need(len(init) == 1, 'unique_axis = None')
    atoms = {'group_source.ndim > 1': 'two_d', 'group_source.shape[0] > 1': 'many_rows', 'group_source.shape[1] > 1': 'many_cols'}

    def bexpr(node):
        text = ast.unparse(node)
        if text in atoms:
            return atoms[text]
        if isinstance(node, ast.BoolOp):
            op = '||' if isinstance(node.op, ast.Or) else '&&'
            return '(' + f' {op} '.join(bexpr(x) for x in node.values) + ')'
        if isinstance(node, ast.UnaryOp) and isinstance(node.op, ast.Not):
            return f'(negb {bexpr(node.operand)})'
        raise Shape(f'unique_axis condition {text[:60]}')

    def branch(body, source):
        _need(len(body) == 2 and ast.unparse(body[0]) == source and isinstance(body[1], ast.If) and not body[1].orelse and len(body[1].body) == 1,
              f'branch shape: {source}; if ...: unique_axis = k')
        v = _assign(body[1].body[0], 'unique_axis')
        _need(isinstance(v, ast.Constant) and isinstance(v.value, int), 'unique_axis = <int>')
        return f'(if {bexpr(body[1].test)} then Some {lit.z(v.value)} else None)'

    b0 = branch(top[0].body, 'group_source = self._extract_array(column_key=key)')
    b1 = branch(top[0].orelse[0].body, 'group_source = self._extract_array(row_key=key)')
    _need(any(ast.unparse(n) == 'array_to_groups_and_locations(group_source, unique_axis)' for n in ast.walk(fn)), 'array_to_groups_and_locations(group_source, unique_axis)')
    return [f'Definition tb_group_unique_axis (axis : Z) (two_d many_rows many_cols : bool) : option Z := if axis =? 0 then {b0} else {b1}.']


def _gen_forwarding(repo):
    """keyword pass-through of the window generators: (sorted parameter names, sorted names forwarded as k=k)"""
    lines = []
    for path, cls in ((_FR, 'Frame'), (_SE, 'Series')):
        with open(os.path.join(repo, path)) as f:
            tree = ast.parse(f.read())
        for meth, callee in (('_axis_window', 'self._axis_window_items'), ('_axis_window_items', 'axis_window_items')):
            fn = _method(tree, cls, meth)
            _need(not fn.args.args[1:] and not fn.args.vararg and not fn.args.kwarg, f'{cls}.{meth}: keyword-only parameters expected')
            params = sorted(a.arg for a in fn.args.kwonlyargs)
            calls = [n for n in ast.walk(fn) if isinstance(n, ast.Call) and ast.unparse(n.func) == callee]
            _need(len(calls) == 1 and not calls[0].args, f'{cls}.{meth}: exactly one call of {callee} with keywords only')
            kws = calls[0].keywords
            _need(all(k.arg is not None for k in kws), f'{cls}.{meth}: no ** forwarding expected')
            if callee == 'axis_window_items':
                src = [k for k in kws if k.arg == 'source']
                _need(len(src) == 1 and ast.unparse(src[0].value) == 'self', f'{cls}.{meth}: source=self')
                kws = [k for k in kws if k.arg != 'source']
            forwarded = sorted(k.arg for k in kws if isinstance(k.value, ast.Name) and k.value.id == k.arg)
            extra = [k.arg for k in kws if not (isinstance(k.value, ast.Name) and k.value.id == k.arg)]
            forwarded = sorted(forwarded + [f'{a}:=other' for a in extra])     # a keyword bound to something else is not a pass-through
            lines.append(f'Definition fwd_{cls.lower()}{meth} : list string * list string := '
                         f'({lit.lst([lit.s(x) for x in params])}, {lit.lst([lit.s(x) for x in forwarded])}).')
    return lines


def generate(repo):
    head = ['(* GENERATED on every run by tools/sfv/props/c13.py generate() from',
            f'   {_CU}:axis_window_items, {_FR}:Frame._axis_group_sort_items/_axis_group_loc_items/sort_values, {_UT} -- do not edit *)',
            'Require Import SF.Prelude.', 'Local Open Scope string_scope.', 'Local Open Scope Z_scope.', '']
    return {'Gen/Gen_c13.v': '\n'.join(head + _gen_window(repo) + [''] + _gen_group(repo) + [''] + _gen_forwarding(repo) + [''] + _gen_unique_axis(repo)) + '\n'}


# --------------------------------------------------------------------------- literals / observation
_NOKEY = object()


def nat(n):
    return f'{int(n)}%nat'


def rows_lit(rows):
    return lit.lst([f'({lit.val(l)}, {lit.vlist(cells)})' for l, cells in rows])


def okey_lit(k):
    return 'None' if k is _NOKEY else f'(Some {lit.val(k)})'


def groups_lit(groups):
    return lit.lst([f'({okey_lit(k)}, {rows_lit(rows)})' for k, rows in groups])


def keyspec_lit(ks):
    kind, arg = ks
    if kind == 'cell':
        return f'(KCell {nat(arg)})'
    if kind == 'cells':
        return f'(KCells {lit.lst([nat(x) for x in arg])})'
    if kind == 'depth':
        return f'(KDepth {nat(arg)})'
    if kind == 'depths':
        return f'(KDepths {lit.lst([nat(x) for x in arg])})'
    raise ValueError(ks)


def res_lit(st, out, printer):
    return f'(Ok {printer(out)})' if st == 'ok' else f'(Err {lit.s(out)})'


def key_py(k):
    '''group key as yielded by the implementation -> plain Python value (tuples for arrays/tuples)'''
    if isinstance(k, np.ndarray):
        return tuple(key_py(x) for x in k.tolist())
    if isinstance(k, tuple):
        return tuple(key_py(x) for x in k)
    if isinstance(k, np.generic):
        return k.item()
    return k


def axis_rows(c, axis):
    '''container -> rows along `axis`: [(label, [cells across])]; Series: [(label, [value])]'''
    if c.ndim == 1:
        return [(key_py(l), [v]) for l, v in zip(lit.labels(c.index), lit.array_vals(c.values))]
    cols = [lit.array_vals(a) for a in c.iter_array(axis=0)]
    if axis == 0:
        labels = [key_py(l) for l in lit.labels(c.index)]
        return [(labels[i], [col[i] for col in cols]) for i in range(len(labels))]
    labels = [key_py(l) for l in lit.labels(c.columns)]
    return [(labels[j], cols[j]) for j in range(len(cols))]


def run(fn):
    '''-> ('ok', value) or ('err', class)'''
    try:
        return 'ok', fn()
    except Exception as e:  # noqa
        return 'err', lit.err_class(e)


def brief(out, st):
    if st == 'err':
        return out
    return [[repr(k), [repr(r[0]) for r in rows_]] for k, rows_ in out]


# --------------------------------------------------------------------------- dtype / key classes (the harness's own rules, not the implementation's)
def dclass(dt):
    return {'i': 'num', 'u': 'num', 'f': 'num', 'b': 'bool', 'U': 'str', 'O': 'obj', 'S': 'bytes', 'M': 'date'}[np.dtype(dt).kind]


def resolved_obj(dts):
    cl = {dclass(d) for d in dts}
    return 'obj' in cl or len(cl) > 1


def _canon(k):
    if isinstance(k, tuple):
        return tuple(_canon(x) for x in k)
    if isinstance(k, (bool, np.bool_)):
        return int(k)
    if isinstance(k, float) and k == int(k):
        return int(k)
    return k


def _strs(k):
    return tuple(str(x) for x in k) if isinstance(k, tuple) else str(k)


def orderable(keys):
    if len(keys) <= 1:
        return True
    num = all(isinstance(k, (int, float, bool)) and not isinstance(k, str) for k in keys)
    return num or all(isinstance(k, str) for k in keys)


def str_grouping_differs(keys):
    '''does grouping by str() differ from grouping by ==?  (the class of finding C13-str-fallback)'''
    ks = list(keys)
    for i in range(len(ks)):
        for j in range(i + 1, len(ks)):
            a, b = ks[i], ks[j]
            same = type(_canon(a)) is type(_canon(b)) and _canon(a) == _canon(b) if not isinstance(a, tuple) else (
                len(a) == len(b) and all(type(x) is type(y) and x == y for x, y in zip(_canon(a), _canon(b))))
            if same != (_strs(a) == _strs(b)):
                return True
    return False


def fallback_tags(tags, obj, two_d, keys):
    '''tag the finding class BY CONSTRUCTION OF THE INPUT: object key array that takes the string branch and whose
    keys are not separated/merged by str() the way == does'''
    if obj and (two_d or not orderable(keys)) and str_grouping_differs(keys):
        tags = dict(tags, finding='C13-str-fallback')
    return tags


def nontrivial_groups(keys):
    ck = [_canon(k) if not isinstance(k, tuple) else tuple(_canon(x) for x in k) for k in keys]
    distinct = []
    for k in ck:
        if not any(type(k) is type(d) and k == d for d in distinct):
            distinct.append(k)
    return len(distinct) >= 2 and len(ck) > len(distinct)


# --------------------------------------------------------------------------- known findings: outcome discriminators
# A finding tag is kept only when the input is in the recorded class (decided where the tag is set) AND the observed outcome is the
# RECORDED kind of outcome; any other failure on the same input stays unexcused (tag `finding_class_other_outcome` for the record).
def _crepr(k):
    return repr(_canon(k))


def _str_classes(rows, keys):
    """the groups the string branch forms: classes of equal str() of the key parts, first-occurrence order; [first key, member positions]"""
    classes = {}
    for i, k in enumerate(keys):
        classes.setdefault(_strs(k), [k, []])[1].append(i)
    return list(classes.values())


def _eq_classes(keys):
    classes = []
    for i, k in enumerate(keys):
        for c in classes:
            if _crepr(c[0]) == _crepr(k):
                c[1].append(i)
                break
        else:
            classes.append([k, [i]])
    return classes


def _bitmask(members):
    return sum(1 << i for i in members)


def _recorded_str_fallback(shape, st, out, rows, keys, expect):
    classes = _str_classes(rows, keys)
    if shape == 'items':
        want = sorted((_crepr(k0), tuple(repr(rows[i][0]) for i in m)) for k0, m in classes)
        return st == 'ok' and sorted((_crepr(k), tuple(repr(r[0]) for r in rs)) for k, rs in out) == want
    if shape == 'values':
        return st == 'ok' and sorted(tuple(repr(r[0]) for r in rs) for rs in out) == sorted(tuple(repr(rows[i][0]) for i in m) for _, m in classes)
    if shape == 'avalues':
        return st == 'ok' and sorted(out) == sorted(_bitmask(m) for _, m in classes)
    if shape == 'pairs':
        firsts = [_crepr(k0) for k0, _ in classes]
        if len(set(firsts)) < len(firsts):      # equal keys split by str(): the result index cannot be built
            return (st, out) == ('err', 'ErrorInitIndex')
        return st == 'ok' and sorted(zip(map(_crepr, out[0]), out[1])) == sorted((_crepr(k0), _bitmask(m)) for k0, m in classes)
    return False


def _recorded_series_apply(shape, st, out, rows, keys, expect):
    # the result index is built by a typed / hierarchical constructor from the group keys: it raises, or the values are right and
    # the labels are the keys reinterpreted
    if st == 'err':       # IndexDate / IndexHierarchy .from_labels over ints, strs, None: the three classes seen on the unchanged tree
        return out in ('ErrorInitIndex', 'TypeError', 'RuntimeError')
    if shape != 'pairs':
        return False
    return sorted(out[1]) in (sorted(_bitmask(m) for _, m in _str_classes(rows, keys)), sorted(_bitmask(m) for _, m in _eq_classes(keys)))


def _recorded_window_apply_constructor(shape, st, out, rows, keys, expect):
    axis, exp_labels, exp_values = expect
    if axis == 0:                                   # FrameGO: IndexGO.from_labels -> Series refuses a grow-only index
        return (st, out) == ('err', 'ErrorInitSeries')
    if st == 'err':                                 # hierarchical from_labels over flat column labels
        return out in ('ErrorInitIndex', 'TypeError')
    return shape == 'pairs' and list(out[1]) == exp_values and [_crepr(l) for l in out[0]] != [_crepr(l) for l in exp_labels]


_RECORDED = {
    'C13-str-fallback': _recorded_str_fallback,
    'C13-framego-axis1-sort-path': lambda shape, st, out, rows, keys, expect: (st, out) == ('err', 'ErrorInitFrame'),
    'C13-window-array-axis1-empty': lambda shape, st, out, rows, keys, expect: (st, out) == ('err', 'RuntimeError'),
    'C13-window-apply-empty-hier': lambda shape, st, out, rows, keys, expect: (st, out) == ('err', 'ErrorInitIndex'),
    'C13-window-apply-index-constructor': _recorded_window_apply_constructor,
    'C13-series-group-apply-index-constructor': _recorded_series_apply,
}


def confirm_outcome(tags, shape, st, out, rows=None, keys=None, expect=None):
    f = tags.get('finding')
    if f is None:
        return tags
    try:
        ok = _RECORDED[f](shape, st, out, rows, keys, expect)
    except Exception:  # noqa -- an outcome the discriminator cannot even read is not the recorded one
        ok = False
    if ok:
        return dict(tags, outcome='recorded')
    tags = {k: v for k, v in tags.items() if k != 'finding'}
    tags['finding_class_other_outcome'] = f
    return tags


def spec_windows(n, p):
    """(label position, first row, one past the last row) of every window the specification yields (own arithmetic)"""
    out = []
    if p['size'] <= 0 or p['step'] < 0:
        return out
    cmax = n if p['start_shift'] >= 0 else n - p['start_shift']
    for i in range(cmax + 1):
        left = p['start_shift'] + i * p['step']
        size = p['size'] + i * p['size_increment']
        if i and not (left <= cmax - 1 and size >= 0):
            continue
        lab = left + size - 1 + p['label_shift']
        lo, hi = min(max(0, left), n), min(max(0, left + size), n)
        if 0 <= lab < n and (not p['window_sized'] or max(0, hi - lo) == size):
            out.append((lab, lo, max(lo, hi)))
    return out


# --------------------------------------------------------------------------- generators
_VALS = {
    'int': [1, 2, 3, 10, 9],
    'float': [1.0, 2.5, 0.5, 2.0],
    'str': ['a', 'b', '1', '10'],
    'bool': [True, False],
    'obj-int': [10, 9, 1],           # object dtype, orderable: np.unique succeeds
    'obj-mix': [1, 'a', None, 10],   # unorderable, str() separates the keys
    'obj-col': [1, '1', 'a'],        # unorderable, str() collides (1 / '1')
    'uint': [3, 1, 200, 7],
    'bytes': [b'a', b'b', b'ab', b'B'],
    'date': [np.datetime64('2020-01-03'), np.datetime64('2019-12-31'), np.datetime64('2020-01-01')],
}
_DTYPE = {'int': np.int64, 'float': np.float64, 'str': '<U2', 'bool': bool, 'obj-int': object, 'obj-mix': object, 'obj-col': object,
          'uint': np.uint8, 'bytes': 'S2', 'date': 'datetime64[D]'}
_FAMILY = {'N': ['int', 'float', 'uint'], 'M': ['int', 'str', 'bool', 'obj-int', 'obj-mix', 'obj-col'], 'I': ['int'], 'S': ['str'],
           'U': ['uint'], 'B': ['bytes'], 'T': ['date']}


def column_values(rng, kind, n, mode):
    if mode == 'distinct':
        if kind in ('int', 'obj-int'):
            return [100 - i for i in range(n)]
        if kind == 'float':
            return [i + 0.5 for i in range(n)]
        if kind == 'str':
            return [f'{chr(122 - i)}' for i in range(n)]
    alpha = _VALS[kind]
    k = 1 if mode == 'single' else rng.randint(1, len(alpha))
    pool = rng.sample(alpha, k)
    return [rng.choice(pool) for _ in range(n)]


def make_array(kind, values):
    if _DTYPE[kind] is object:
        a = np.empty(len(values), dtype=object)
        for i, v in enumerate(values):
            a[i] = v
        return a
    return np.array(values, dtype=_DTYPE[kind])


def hier_labels(rng, n, depth_kinds=('str', 'int')):
    '''n tree-ordered distinct tuples (outer labels contiguous), inner labels repeating across outers'''
    outs = ['a', 'b', 'c', 'd']
    inner = {'int': [1, 2, 3], 'str': ['x', 'y', 'z'], 'date': [np.datetime64('2020-01-01'), np.datetime64('2020-01-02'), np.datetime64('2020-02-01')]}[depth_kinds[1]]
    labels = []
    o = 0
    while len(labels) < n:
        width = rng.randint(1, len(inner))
        for i in range(width):
            if len(labels) < n:
                labels.append((outs[o % 4] + ('' if o < 4 else str(o // 4)), inner[i]))
        o += 1
    return labels


def make_frame(ctx, family, nrows, ncols, mode=None, hier_index=False, hier_columns=False, layout=None):
    import static_frame as sf
    rng = ctx.rng
    kinds = [rng.choice(_FAMILY[family]) for _ in range(ncols)]
    mode = mode or rng.choice(['dup', 'dup', 'dup', 'single', 'distinct'])
    cols_values = [column_values(rng, k, nrows, mode if (mode != 'distinct' or k in ('int', 'float', 'str', 'obj-int')) else 'dup') for k in kinds]
    arrays = [make_array(k, v) for k, v in zip(kinds, cols_values)]
    int_labels = rng.random() < 0.12       # integer labels that are not positions
    index_labels = hier_labels(rng, nrows) if hier_index else ([10 * i + 5 for i in range(nrows)] if int_labels else [f'r{i}' for i in range(nrows)])
    col_labels = hier_labels(rng, ncols) if hier_columns else ([100 - j for j in range(ncols)] if int_labels else [f'c{j}' for j in range(ncols)])
    index = sf.IndexHierarchy.from_labels(index_labels) if hier_index and nrows else (sf.Index(index_labels) if not hier_index else None)
    columns = sf.IndexHierarchy.from_labels(col_labels) if hier_columns and ncols else (sf.Index(col_labels) if not hier_columns else None)
    dts = [a.dtype for a in arrays]
    layouts = list(zoo.layouts_for(dts)) if ncols else [()]
    return {'kinds': kinds, 'cols': cols_values, 'arrays': arrays, 'dtypes': dts, 'index_labels': index_labels, 'col_labels': col_labels,
            'index': index, 'columns': columns, 'layouts': layouts, 'mode': mode, 'hier_index': hier_index, 'hier_columns': hier_columns}


def build(spec, layout, cls=None):
    return zoo.frame_from_columns(spec['arrays'], layout, index=spec['index'], columns=spec['columns'], cls=cls)


def pick_layouts(ctx, spec, quick_n):
    lay = spec['layouts']
    if ctx.tier == 'thorough' or len(lay) <= quick_n:
        return lay
    return ctx.rng.sample(lay, quick_n)


def spec_desc(spec, layout):
    return {'columns': {str(l): {'kind': k, 'values': [repr(v) for v in vs]} for l, k, vs in zip(spec['col_labels'], spec['kinds'], spec['cols'])},
            'index': [repr(l) for l in spec['index_labels']], 'layout': zoo.layout_str(layout)}


# --------------------------------------------------------------------------- group strata
_FORMS = ['values', 'apply', 'apply_items', 'apply_iter', 'apply_iter_items', 'apply_pool', 'apply_pool_items']


def form_case(ctx, stratum, desc, tags, keys, rows, axis, mcall, scall, it_values, it_items, form, callname, series_apply_finding=False):
    '''the other public forms over the same group iterator: iterated without keys, apply over values / items,
    apply_iter, apply_iter_items, apply_pool (threads); func = bitmask of the member labels'''
    code = {_hash_label(l): 1 << i for i, (l, _) in enumerate(rows)}
    member_axis = (lambda g: g.index if (g.ndim == 1 or axis == 0) else g.columns)
    fv = lambda g: sum(code[_hash_label(l)] for l in lit.labels(member_axis(g)))
    fi = lambda k, g: fv(g)
    as_pair = lambda sr: ([key_py(k) for k in lit.labels(sr.index)], sr.values.tolist())
    ctx.count(f'{stratum}:{form}')
    tags = dict(tags, form=form)
    if form == 'values':
        st, out = run(lambda: [axis_rows(g, axis) for g in it_values()])
        obs = res_lit(st, out, lambda o: lit.lst([rows_lit(r) for r in o]))
        m, sp = f'gvres_eqb {obs} (gvalues {mcall})', f'gvres_same {obs} (gvalues {scall})'
        call = f'list({callname})'
    elif form == 'apply_iter':
        st, out = run(lambda: [int(v) for v in it_values().apply_iter(fv)])
        obs = res_lit(st, out, lit.vlist)
        m = f'avres_eqb {obs} (avalues (M_apply_api {rows_lit(rows)} {mcall}))'
        sp = f'avres_same {obs} (avalues (S_apply_api {rows_lit(rows)} {scall}))'
        call = f'list({callname}.apply_iter(bitmask))'
    else:
        if form == 'apply':
            st, out = run(lambda: as_pair(it_values().apply(fv)))
            call = f'{callname}.apply(bitmask)'
        elif form == 'apply_items':
            st, out = run(lambda: as_pair(it_items().apply(fi)))
            call = f'{callname.replace("(", "_items(", 1)}.apply(lambda k, g: bitmask(g))'
        elif form == 'apply_pool':
            st, out = run(lambda: as_pair(it_values().apply_pool(fv, use_threads=True, max_workers=2)))
            call = f'{callname}.apply_pool(bitmask, use_threads=True, max_workers=2)'
        elif form == 'apply_pool_items':
            st, out = run(lambda: as_pair(it_items().apply_pool(lambda kv: fv(kv[1]), use_threads=True, max_workers=2)))
            call = f'{callname.replace("(", "_items(", 1)}.apply_pool(lambda kv: bitmask(kv[1]), use_threads=True, max_workers=2)'
        else:
            def pairs():
                kv = list(it_values().apply_iter_items(fv))
                return [key_py(k) for k, _ in kv], [int(v) for _, v in kv]
            st, out = run(pairs)
            call = f'list({callname}.apply_iter_items(bitmask))'
        obs = res_lit(st, out, apply_lit)
        m = f'ares_eqb {obs} (M_apply_api {rows_lit(rows)} {mcall})'
        sp = f'ares_same {obs} (S_apply_api {rows_lit(rows)} {scall})'
    desc = dict(desc, call=call, observed=repr(out)[:400])
    if series_apply_finding and form in ('apply', 'apply_items', 'apply_pool', 'apply_pool_items'):
        tags, m = dict(tags, finding='C13-series-group-apply-index-constructor'), None     # only S is compared (the model does not follow)
    tags = confirm_outcome(tags, {'values': 'values', 'apply_iter': 'avalues'}.get(form, 'pairs'), st, out, rows, keys)
    return Case(stratum, desc, m=m, s=sp, tags=tags, nontrivial=nontrivial_groups(keys))


def frame_group_case(ctx, spec, layout, axis, keykind, positions, stratum, apply_=False, go=False, receiver=None, form=None):
    '''one call of Frame.iter_group_items (or iter_group(...).apply) -> Case.
    go: the receiver is a FrameGO and the first yielded group, when it is itself a FrameGO, is GROWN in place (a column is
    added) while the iteration is suspended: the remaining groups must still be the original rows with the original columns'''
    import static_frame as sf
    f = build(spec, layout, cls=sf.FrameGO if go else (getattr(sf, receiver) if receiver else None))
    labels_key_axis = spec['col_labels'] if axis == 0 else spec['index_labels']
    if keykind == 'element':
        key = labels_key_axis[positions[0]]
        ks = ('cell', positions[0])
        multi = False
    elif keykind == 'list':
        key = [labels_key_axis[p] for p in positions]
        ks = ('cells', positions)
        multi = True
    elif keykind == 'array':    # ndarray of labels
        key = np.array([labels_key_axis[p] for p in positions])
        ks = ('cells', positions)
        multi = True
    elif keykind == 'mask':     # Boolean ndarray over the key axis: the True positions in ascending order
        positions = sorted(set(positions))
        key = np.array([i in positions for i in range(len(labels_key_axis))], dtype=bool)
        ks = ('cells', positions)
        multi = True
    else:  # slice (inclusive of the stop label)
        key = slice(labels_key_axis[positions[0]], labels_key_axis[positions[-1]])
        ks = ('cells', positions)
        multi = True
    if axis == 0:
        obj = resolved_obj([spec['dtypes'][p] for p in positions])
    else:
        obj = resolved_obj(spec['dtypes'])
    rows = axis_rows(f, axis)
    keys = []
    for _, cells in rows:
        keys.append(cells[positions[0]] if not multi else tuple(cells[p] for p in positions))
    cdepth1, idepth1 = not spec['hier_columns'], not spec['hier_index']
    tags = {'api': 'frame.iter_group_items', 'axis': axis, 'keykind': keykind, 'nkeys': len(positions), 'apply': apply_}
    sort_path = cdepth1 and idepth1 and not multi and not obj
    two_d = multi
    if not sort_path:
        tags = fallback_tags(tags, obj, two_d, keys)
    elif go and axis == 1 and len(rows) >= 1:
        tags = dict(tags, finding='C13-framego-axis1-sort-path')
    ctx.count(f'{stratum}:axis{axis}', f'{stratum}:{keykind}', f'{stratum}:path={"sort" if sort_path else ("unique-str" if obj and (two_d or not orderable(keys)) else "unique")}',
              f'{stratum}:layout-blocks={len(layout)}', f'{stratum}:rows={len(rows)}', f'{stratum}:hier={int(not (cdepth1 and idepth1))}')
    desc = dict(spec_desc(spec, layout), axis=axis, key=repr(key))
    mcall = (f'(M_frame_group_api {lit.z(axis)} (Some {keyspec_lit(ks)}) {lit.b(multi)} {lit.b(cdepth1)} {lit.b(idepth1)} {lit.b(obj)} {lit.b(go)} '
             f'{rows_lit(rows)})')
    scall = f'(S_frame_group_api {lit.z(axis)} (Some {keyspec_lit(ks)}) {rows_lit(rows)})'
    other = (lambda g: lit.labels(g.columns)) if axis == 0 else (lambda g: lit.labels(g.index))
    want_other = other(f)
    if not apply_ and form is None:
        def observe():
            out = []
            for k, g in f.iter_group_items(key, axis=axis):
                if other(g) != want_other:
                    raise AssertionError('labels of the other axis changed')
                out.append((key_py(k), axis_rows(g, axis)))
                if go and len(out) == 1 and isinstance(g, sf.FrameGO):
                    g['__grown__'] = 0
            if go and (lit.labels(f.columns) != spec['col_labels'] or f.shape != (len(spec['index_labels']), len(spec['col_labels']))):
                raise AssertionError('growing a group changed the receiver')
            return out
        st, out = run(observe)
        py_fail = 'a group (or the receiver) shows labels it must not have' if (st, out) == ('err', 'AssertionError') else None
        obs = res_lit(st, out, groups_lit)
        desc.update(call=(f'f = FrameGO(...); for i, (k, g) in enumerate(f.iter_group_items({key!r}, axis={axis})): record g; if i == 0 and isinstance(g, FrameGO): g["__grown__"] = 0'
                          if go else f'f.iter_group_items({key!r}, axis={axis})'), observed=brief(out, st))
        if go or receiver:
            tags = dict(tags, receiver='FrameGO' if go else receiver)
        tags = confirm_outcome(tags, 'items', st, out, rows, keys)
        return Case(stratum, desc, m=f'gres_eqb {obs} {mcall}', s=f'gres_same {obs} {scall}', py_fail=py_fail, tags=tags,
                    nontrivial=nontrivial_groups(keys))
    if form is not None:
        if receiver:
            tags = dict(tags, receiver=receiver)
        return form_case(ctx, stratum, desc, tags, keys, rows, axis, mcall, scall, lambda: f.iter_group(key, axis=axis),
                         lambda: f.iter_group_items(key, axis=axis), form, f'f.iter_group({key!r}, axis={axis})')
    code = {_hash_label(l): 1 << i for i, (l, _) in enumerate(rows)}
    func = (lambda g: sum(code[_hash_label(l)] for l in lit.labels(g.index if axis == 0 else g.columns)))
    st, out = run(lambda: f.iter_group(key, axis=axis).apply(func))
    if st == 'ok':
        out = ([key_py(k) for k in lit.labels(out.index)], out.values.tolist())
    obs = res_lit(st, out, apply_lit)
    desc.update(call=f'f.iter_group({key!r}, axis={axis}).apply(bitmask of member labels)', observed=repr(out))
    tags = confirm_outcome(tags, 'pairs', st, out, rows, keys)
    return Case(stratum, desc, m=f'ares_eqb {obs} (M_apply_api {rows_lit(rows)} {mcall})',
                s=f'ares_same {obs} (S_apply_api {rows_lit(rows)} {scall})', tags=tags, nontrivial=nontrivial_groups(keys))


def _hash_label(l):
    return tuple(_hash_label(x) for x in l) if isinstance(l, (tuple, list)) else (l.item() if isinstance(l, np.generic) else l)


def apply_lit(out):
    labels, values = out
    return f'({lit.lst([okey_lit(k) for k in labels])}, {lit.vlist(values)})'


def series_index_special(s):
    '''class of finding C13-series-group-apply-index-constructor: the index is not a plain Index, so index.from_labels
    (used by Series.iter_group(...).apply to build the result index from the GROUP KEYS) is a typed / hierarchical constructor'''
    import static_frame as sf
    return len(s) >= 1 and type(s.index) not in (sf.Index, sf.IndexGO)


def series_spec(ctx, kind, values, hier=False):
    import static_frame as sf
    n = len(values)
    index_labels = hier_labels(ctx.rng, n) if hier else [f'r{i}' for i in range(n)]
    arr = make_array(kind, values)
    if hier and n:
        index = sf.IndexHierarchy.from_labels(index_labels)
    elif n and not hier and ctx.rng.random() < 0.1:      # a date-typed index (IndexDate, datetime64[D] labels)
        index = sf.IndexDate([np.datetime64('2020-02-27') + i for i in range(n)])
        index_labels = [key_py(l) for l in lit.labels(index)]
    else:
        index = sf.Index(index_labels) if n else sf.Index(())
        index_labels = index_labels if n else []
    return sf.Series(arr, index=index), index_labels


def series_group_cases(ctx):
    specs = []
    for kind in ('int', 'str'):
        for n in range(0, 5 if ctx.tier == 'thorough' else 4):
            for seq in itertools.product(_VALS[kind][:3], repeat=n):
                specs.append((kind, list(seq), False))
    for seq in itertools.product(_VALS['obj-col'], repeat=3):
        specs.append(('obj-col', list(seq), False))
    for _ in range(ctx.n(80, 800)):
        kind = ctx.rng.choice(list(_VALS))
        n = ctx.rng.randint(1, 9)
        mode = ctx.rng.choice(['dup', 'dup', 'single', 'distinct'])
        if mode == 'distinct' and kind not in ('int', 'float', 'str', 'obj-int'):
            mode = 'dup'
        specs.append((kind, column_values(ctx.rng, kind, n, mode), False))
    for kind, values, hier in specs:
        s, index_labels = series_spec(ctx, kind, values, hier)
        rows = axis_rows(s, 0)
        obj = _DTYPE[kind] is object
        st, out = run(lambda: [(key_py(k), axis_rows(g, 0)) for k, g in s.iter_group_items()])
        tags = fallback_tags({'api': 'series.iter_group_items', 'dtype': kind}, obj, False, values)
        tags = confirm_outcome(tags, 'items', st, out, rows, values)
        ctx.count(f'series-group:{kind}', f'series-group:n={len(values)}')
        obs = res_lit(st, out, groups_lit)
        yield Case('api:series.iter_group_items',
                   {'call': 'sf.Series(values, index=index, dtype=...).iter_group_items()', 'values': [repr(v) for v in values], 'index': index_labels,
                    'kind': kind, 'observed': brief(out, st)},
                   m=f'gres_eqb {obs} (M_unique_api {lit.b(obj)} (KCell 0) {rows_lit(rows)})',
                   s=f'gres_same {obs} (S_group_api (KCell 0) {rows_lit(rows)})',
                   tags=tags, nontrivial=nontrivial_groups(values))
    # apply over Series groups
    for _ in range(ctx.n(30, 300)):
        kind = ctx.rng.choice(['int', 'str', 'bool', 'float', 'obj-int', 'obj-mix'])
        values = column_values(ctx.rng, kind, ctx.rng.randint(1, 8), 'dup')
        s, index_labels = series_spec(ctx, kind, values)
        rows = axis_rows(s, 0)
        obj = _DTYPE[kind] is object
        code = {_hash_label(l): 1 << i for i, (l, _) in enumerate(rows)}
        fv = lambda g: sum(code[_hash_label(l)] for l in lit.labels(g.index))
        items = ctx.rng.random() < 0.5
        if items:
            st, out = run(lambda: s.iter_group_items().apply(lambda k, g: fv(g)))
        else:
            st, out = run(lambda: s.iter_group().apply(fv))
        if st == 'ok':
            out = ([key_py(k) for k in lit.labels(out.index)], out.values.tolist())
        obs = res_lit(st, out, apply_lit)
        tags = fallback_tags({'api': 'series.iter_group.apply', 'dtype': kind}, obj, False, values)
        special_index = series_index_special(s)
        if special_index:
            tags = dict(tags, finding='C13-series-group-apply-index-constructor')
        tags = confirm_outcome(tags, 'pairs', st, out, rows, values)
        ctx.count('series-apply')
        yield Case('api:series.iter_group.apply',
                   {'call': f's.iter_group{"_items" if items else ""}().apply(bitmask of member labels)', 'values': [repr(v) for v in values],
                    'index': index_labels, 'kind': kind, 'observed': repr(out)},
                   m=None if special_index else f'ares_eqb {obs} (M_apply_api {rows_lit(rows)} (M_unique_api {lit.b(obj)} (KCell 0) {rows_lit(rows)}))',
                   s=f'ares_same {obs} (S_apply_api {rows_lit(rows)} (S_group_api (KCell 0) {rows_lit(rows)}))',
                   tags=tags, nontrivial=nontrivial_groups(values))


def choose_key(ctx, n_positions):
    '''-> (keykind, positions)'''
    r = ctx.rng.random()
    if r < 0.5 or n_positions == 0:
        return 'element', [ctx.rng.randrange(n_positions)]
    if r < 0.8:
        k = ctx.rng.randint(1, min(3, n_positions))
        positions = ctx.rng.sample(range(n_positions), k)
        r2 = ctx.rng.random()
        if r2 < 0.15:
            positions.append(ctx.rng.choice(positions))     # a REPEATED key label: the key tuple repeats that cell
        elif r2 < 0.3:
            return 'array', positions
        elif r2 < 0.45:
            return 'mask', positions
        return 'list', positions
    a = ctx.rng.randrange(n_positions)
    b = ctx.rng.randint(a, min(n_positions - 1, a + 2))
    return 'slice', list(range(a, b + 1))


def frame_group_cases(ctx):
    # exhaustive over layouts: small frames, every layout, a handful of keys each
    for _ in range(ctx.n(70, 500)):
        family = ctx.rng.choice(['N', 'M', 'M', 'I', 'S', 'U', 'B', 'T'])
        ncols = ctx.rng.randint(1, 3 if ctx.tier == 'quick' else 4)
        nrows = ctx.rng.randint(1, 7)
        hier = ctx.rng.random() < 0.12
        spec = make_frame(ctx, family, nrows, ncols, hier_index=hier and ctx.rng.random() < 0.7, hier_columns=hier and ctx.rng.random() < 0.4)
        for axis in (0, 1):
            npos = ncols if axis == 0 else nrows
            if (axis == 0 and spec['hier_columns']) or (axis == 1 and spec['hier_index']):
                keykind, positions = 'element', [ctx.rng.randrange(npos)]    # tuple label = one element key
            else:
                keykind, positions = choose_key(ctx, npos)
            for layout in pick_layouts(ctx, spec, 2):
                yield frame_group_case(ctx, spec, layout, axis, keykind, positions, 'api:frame.iter_group_items')
    for _ in range(ctx.n(25, 250)):
        family = ctx.rng.choice(['N', 'M', 'I'])
        spec = make_frame(ctx, family, ctx.rng.randint(1, 6), ctx.rng.randint(1, 3))
        axis = ctx.rng.choice([0, 1])
        npos = len(spec['col_labels']) if axis == 0 else len(spec['index_labels'])
        keykind, positions = choose_key(ctx, npos)
        layout = ctx.rng.choice(spec['layouts'])
        yield frame_group_case(ctx, spec, layout, axis, keykind, positions, 'api:frame.iter_group.apply', apply_=True)


def forms_cases(ctx):
    '''values-only iteration, apply over items, apply_iter, apply_iter_items, apply_pool(threads) -- Series, Frame on both
    axes, label-depth grouping; HE receivers'''
    import static_frame as sf
    for i in range(ctx.n(72, 600)):
        form = _FORMS[i % len(_FORMS)]
        which = ['frame', 'frame', 'series', 'labels'][(i // len(_FORMS)) % 4]
        if which == 'frame':
            family = ctx.rng.choice(['N', 'M', 'I', 'S', 'U', 'B', 'T'])
            spec = make_frame(ctx, family, ctx.rng.randint(1, 6), ctx.rng.randint(1, 3))
            axis = ctx.rng.choice([0, 0, 1])
            npos = len(spec['col_labels']) if axis == 0 else len(spec['index_labels'])
            keykind, positions = choose_key(ctx, npos)
            yield frame_group_case(ctx, spec, ctx.rng.choice(spec['layouts']), axis, keykind, positions, 'api:frame.iter_group[forms]',
                                   receiver=ctx.rng.choice([None, None, 'FrameHE']), form=form)
        elif which == 'series':
            kind = ctx.rng.choice(['int', 'str', 'bool', 'float', 'obj-int', 'obj-mix', 'uint', 'bytes', 'date'])
            values = column_values(ctx.rng, kind, ctx.rng.randint(1, 8), 'dup')
            s, index_labels = series_spec(ctx, kind, values, hier=ctx.rng.random() < 0.15)
            if ctx.rng.random() < 0.3:
                s = sf.SeriesHE(s)
            rows = axis_rows(s, 0)
            obj = _DTYPE[kind] is object
            tags = fallback_tags({'api': 'series.iter_group', 'dtype': kind, 'receiver': type(s).__name__}, obj, False, values)
            yield form_case(ctx, 'api:series.iter_group[forms]', {'values': [repr(v) for v in values], 'index': index_labels, 'kind': kind, 'receiver': type(s).__name__},
                            tags, values, rows, 0, f'(M_unique_api {lit.b(obj)} (KCell 0) {rows_lit(rows)})', f'(S_group_api (KCell 0) {rows_lit(rows)})',
                            lambda: s.iter_group(), lambda: s.iter_group_items(), form, 's.iter_group()', series_apply_finding=series_index_special(s))
        else:
            n = ctx.rng.randint(1, 8)
            inner_kind = ctx.rng.choice(['int', 'str'])
            labels = hier_labels(ctx.rng, n, ('str', inner_kind))
            index = sf.IndexHierarchy.from_labels(labels)
            depth = ctx.rng.choice([0, 1, 1, [0, 1], [1]])
            ks = ('depth', depth) if isinstance(depth, int) else ('depths', depth)
            obj = False if isinstance(depth, int) else resolved_obj([np.dtype('<U2') if d == 0 else (np.dtype(np.int64) if inner_kind == 'int' else np.dtype('<U1')) for d in depth])
            which_c = ctx.rng.choice(['series', 'frame0', 'frame1'])
            if which_c == 'series':
                c, axis = sf.Series(np.arange(n), index=index), 0
                itv, iti, callname = (lambda: c.iter_group_labels(depth)), (lambda: c.iter_group_labels_items(depth)), f'series.iter_group_labels({depth})'
            elif which_c == 'frame0':
                c, axis = sf.Frame(np.arange(n * 2).reshape(n, 2), index=index, columns=('x', 'y')), 0
                itv, iti, callname = (lambda: c.iter_group_labels(depth, axis=0)), (lambda: c.iter_group_labels_items(depth, axis=0)), f'frame.iter_group_labels({depth}, axis=0)'
            else:
                c, axis = sf.Frame(np.arange(n * 2).reshape(2, n), index=('x', 'y'), columns=index), 1
                itv, iti, callname = (lambda: c.iter_group_labels(depth, axis=1)), (lambda: c.iter_group_labels_items(depth, axis=1)), f'frame.iter_group_labels({depth}, axis=1)'
            rows = axis_rows(c, axis)
            keys = [(l[depth] if isinstance(depth, int) else tuple(l[d] for d in depth)) for l, _ in rows]
            multi = ks[0] == 'depths'
            tags = fallback_tags({'api': 'iter_group_labels', 'container': which_c, 'multi_depth': multi}, obj, multi, keys)
            yield form_case(ctx, 'api:iter_group_labels[forms]', {'labels': [repr(l) for l in labels], 'depth_level': depth, 'container': which_c},
                            tags, keys, rows, axis, f'(M_unique_api {lit.b(obj)} {keyspec_lit(ks)} {rows_lit(rows)})', f'(S_group_api {keyspec_lit(ks)} {rows_lit(rows)})',
                            itv, iti, form, callname)


def edge_cases(ctx):
    '''empty and 1x1 shapes'''
    import static_frame as sf
    fixed = ctx
    for nrows, ncols in ((0, 1), (0, 2), (1, 1), (1, 2), (2, 1)):
        for family in ('I', 'S', 'M'):
            spec = make_frame(ctx, family, nrows, ncols, mode='dup')
            for layout in spec['layouts'][:3]:
                for keykind, positions in (('element', [0]), ('list', [0]), ('list', list(range(ncols)))):
                    yield frame_group_case(fixed, spec, layout, 0, keykind, positions, 'api:frame.iter_group_items[edge]')
                if nrows:
                    yield frame_group_case(fixed, spec, layout, 1, 'element', [0], 'api:frame.iter_group_items[edge]')
                    yield frame_group_case(fixed, spec, layout, 1, 'list', [0], 'api:frame.iter_group_items[edge]')
                f = build(spec, layout)
                for axis in (0, 1):
                    for sized in (True, False):
                        p = dict(size=1, step=1, window_sized=sized, label_shift=0, start_shift=-1, size_increment=0)
                        yield window_case(ctx, f, axis, p, 'api:frame.iter_window_items[edge]', dict(spec_desc(spec, layout), call='frame.iter_window_items(axis=axis, **params)'))


def go_group_cases(ctx):
    '''FrameGO receivers, mostly on the generic path (list/slice keys, object key column) whose groups are FrameGO'''
    for i in range(ctx.n(24, 200)):
        family = ctx.rng.choice(['N', 'M', 'I'])
        spec = make_frame(ctx, family, ctx.rng.randint(2, 6), ctx.rng.randint(1, 3), mode='dup')
        axis = 0 if i % 4 else 1
        npos = len(spec['col_labels']) if axis == 0 else len(spec['index_labels'])
        keykind, positions = choose_key(ctx, npos)
        if i % 3 and keykind == 'element':
            keykind = 'list'
        layout = ctx.rng.choice(spec['layouts'])
        yield frame_group_case(ctx, spec, layout, axis, keykind, positions, 'api:framego.iter_group_items[grow]', go=True)


_LONG_DTYPES = {     # key dtype -> (values to draw keys from, dtype, identity row for axis 1 or None)
    'int64': ([3, 1, 2, 7], np.int64), 'float64': ([2.5, 0.5, 1.0, 7.25], np.float64), 'bool': ([True, False], bool),
    'str': (['b', 'a', 'ab', 'c'], '<U2'), 'int16': ([3, 1, 2, 7], np.int16), 'uint8': ([3, 1, 2, 7], np.uint8),
    'datetime64[D]': ([np.datetime64('2020-01-03'), np.datetime64('2019-12-31'), np.datetime64('2020-01-01'), np.datetime64('2021-05-05')], 'datetime64[D]'),
}


def interleaved_keys(rng, pool, n):
    '''n keys over `pool`, every key occurring several times, drawn pseudo-randomly (neither sorted nor regularly
    alternating), so that a sort which is not stable reorders the members of some group'''
    while True:
        keys = [rng.choice(pool) for _ in range(n)]
        counts = [keys.count(k) for k in pool]
        runs = sum(1 for i in range(1, n) if keys[i] != keys[i - 1])
        if min(counts) >= 3 and runs >= n // 3 and keys != sorted(keys) and keys != sorted(keys, reverse=True):
            return keys


def long_group_cases(ctx):
    '''the sort path (single element key, flat axes, non-object key dtype) on longer axes with few distinct,
    interleaved keys: the order INSIDE each group is the original order only if the sort is stable; NumPy's unstable
    kinds show it from ~8 positions for int64/float64 and from 17 for the other dtypes (insertion sort below 16)'''
    import static_frame as sf
    kinds = list(_LONG_DTYPES)
    for i in range(ctx.n(16, 120)):
        kind = kinds[i % 4] if i < 8 else ctx.rng.choice(kinds)       # int64, float64, bool, str on both axes first
        axis = (i // 4) % 2 if i < 8 else ctx.rng.choice([0, 1])
        vals, dt = _LONG_DTYPES[kind]
        n = ctx.rng.randint(17, 60)
        k = 2 if kind == 'bool' else ctx.rng.randint(2, 4)
        keyv = interleaved_keys(ctx.rng, ctx.rng.sample(vals, k), n)
        fam_kind = {'int64': 'int', 'int16': 'int', 'uint8': 'int', 'float64': 'float', 'bool': 'bool', 'str': 'str', 'datetime64[D]': 'date'}[kind]
        if axis == 0:
            arrays = [np.array(keyv, dtype=dt), np.arange(n, dtype=np.int64)]
            labels = [f'r{j}' for j in range(n)]
            spec = {'kinds': [fam_kind, 'int'], 'cols': [keyv, list(range(n))], 'arrays': arrays, 'dtypes': [a.dtype for a in arrays],
                    'index_labels': labels, 'col_labels': ['k', 'id'], 'index': sf.Index(labels), 'columns': sf.Index(['k', 'id']),
                    'layouts': list(zoo.layouts_for([a.dtype for a in arrays])), 'mode': 'dup', 'hier_index': False, 'hier_columns': False}
        else:   # n one-cell columns of the key dtype grouped by their only row; the column label is the identity
            arrays = [np.array([keyv[j]], dtype=dt) for j in range(n)]
            labels = [f'c{j}' for j in range(n)]
            spec = {'kinds': [fam_kind] * n, 'cols': [[keyv[j]] for j in range(n)], 'arrays': arrays, 'dtypes': [a.dtype for a in arrays],
                    'index_labels': ['k'], 'col_labels': labels, 'index': sf.Index(['k']), 'columns': sf.Index(labels),
                    'layouts': [tuple((1, False) for _ in range(n)), ((n, True),), tuple((1, True) for _ in range(n))], 'mode': 'dup',
                    'hier_index': False, 'hier_columns': False}
        layout = ctx.rng.choice(spec['layouts'])
        ctx.count(f'long:{kind}', f'long:axis{axis}')
        yield frame_group_case(ctx, spec, layout, axis, 'element', [0], 'api:frame.iter_group_items[long]')


# composite keys whose parts are ADVERSARIAL under stringification: distinct key tuples that read the same once their parts
# are stringified and run together ((1,'1x') / (11,'x'); ('a','bc') / ('ab','c'); '' parts), next to parts that collide or
# split one by one (None / 'None', 1 / '1', 1 / 1.0 / True: the known str-fallback class, tagged from the input)
_ADV_POOLS = [
    [(1, '1x'), (11, 'x'), (1, 'x'), (11, '1x')],
    [('a', 'bc'), ('ab', 'c'), ('abc', ''), ('', 'abc'), ('a', 'b')],
    [(1, ''), ('', 1), (1, 1), ('1', ''), (11, '')],
    [(None, 'x'), ('None', 'x'), ('Non', 'ex'), (None, 'ex')],
    [(1, 'a'), (1.0, 'a'), (True, 'a'), ('1', 'a'), (10, 'a')],
    [(1, 2, '3'), (12, '', '3'), (1, 23, ''), (1, '2', '3'), ('', 12, '3')],
    [('a', 1, 'b'), ('a1', '', 'b'), ('a', '1b', ''), ('', 'a1', 'b')],
]


def _obj_array(values):
    a = np.empty(len(values), dtype=object)
    for i, v in enumerate(values):
        a[i] = v
    return a


def adversarial_key_cases(ctx):
    import static_frame as sf
    for i in range(ctx.n(56, 400)):
        pool = _ADV_POOLS[i % len(_ADV_POOLS)]
        width = len(pool[0])
        n = ctx.rng.randint(2, 7)
        keys = [ctx.rng.choice(pool) for _ in range(n)]
        if len(set(map(repr, keys))) < 2:
            keys[0], keys[-1] = pool[0], pool[1]
        route = ['axis0', 'axis0-apply', 'axis1', 'axis1-apply', 'labels-series', 'labels-frame', 'labels-apply'][(i // len(_ADV_POOLS)) % 7]
        if route.startswith('axis'):
            axis = int(route[4])
            if axis == 0:     # one object column per key part + an id column
                arrays = [_obj_array([k[j] for k in keys]) for j in range(width)] + [np.arange(n, dtype=np.int64)]
                cols = [[k[j] for k in keys] for j in range(width)] + [list(range(n))]
                index_labels, col_labels = [f'r{j}' for j in range(n)], [f'k{j}' for j in range(width)] + ['id']
                kinds = ['obj-mix'] * width + ['int']
            else:             # one object column per key, the key parts in the first `width` rows
                arrays = [_obj_array(list(k) + [j]) for j, k in enumerate(keys)]
                cols = [list(k) + [j] for j, k in enumerate(keys)]
                index_labels, col_labels = [f'k{j}' for j in range(width)] + ['id'], [f'c{j}' for j in range(n)]
                kinds = ['obj-mix'] * n
            dts = [a.dtype for a in arrays]
            spec = {'kinds': kinds, 'cols': cols, 'arrays': arrays, 'dtypes': dts, 'index_labels': index_labels, 'col_labels': col_labels,
                    'index': sf.Index(index_labels), 'columns': sf.Index(col_labels), 'layouts': list(zoo.layouts_for(dts)), 'mode': 'dup',
                    'hier_index': False, 'hier_columns': False}
            positions = list(range(width))
            if ctx.rng.random() < 0.3:
                ctx.rng.shuffle(positions)
            keykind = ctx.rng.choice(['list', 'list', 'slice', 'array']) if positions == sorted(positions) else 'list'
            yield frame_group_case(ctx, spec, ctx.rng.choice(spec['layouts']), axis, keykind, positions, 'api:frame.iter_group[adversarial-keys]',
                                   form=('apply' if route.endswith('apply') else None))
        else:
            # label-depth lists: the hierarchy must be tree ordered -> sort the distinct keys by their outer parts, all depths as strings or ints
            if any(not isinstance(p, (int, str)) or isinstance(p, bool) for k in pool for p in k) or any(type(k[0]) is not type(pool[0][0]) for k in pool):
                pool = [('a', 11), ('a1', 1), ('a', 1), ('a1', 11)] if i % 2 else [('a', 'bc'), ('ab', 'c'), ('abc', ''), ('a', 'b')]
                width = 2
            distinct = sorted(set(pool), key=lambda k: tuple(str(p) for p in k[:-1]))
            labels, seen = [], set()
            for k in distinct:     # make labels unique with a trailing counter depth
                labels.append(tuple(k) + (0,))
                if ctx.rng.random() < 0.6:
                    labels.append(tuple(k) + (1,))
            try:
                index = sf.IndexHierarchy.from_labels(labels)
            except Exception:
                continue
            depth = list(range(width))
            ks = ('depths', depth)
            m = len(labels)
            if route == 'labels-series':
                c, axis = sf.Series(np.arange(m), index=index), 0
                itv, iti, callname = (lambda: c.iter_group_labels(depth)), (lambda: c.iter_group_labels_items(depth)), f'series.iter_group_labels({depth})'
            else:
                axis = ctx.rng.choice([0, 1])
                c = (sf.Frame(np.arange(m * 2).reshape(m, 2), index=index, columns=('x', 'y')) if axis == 0
                     else sf.Frame(np.arange(m * 2).reshape(2, m), index=('x', 'y'), columns=index))
                itv, iti, callname = (lambda: c.iter_group_labels(depth, axis=axis)), (lambda: c.iter_group_labels_items(depth, axis=axis)), f'frame.iter_group_labels({depth}, axis={axis})'
            rows = axis_rows(c, axis)
            lkeys = [tuple(l[d] for d in depth) for l, _ in rows]
            part_dtype = lambda vs: (np.dtype(np.int64) if all(isinstance(v, int) and not isinstance(v, bool) for v in vs)
                                     else np.dtype('<U4') if all(isinstance(v, str) for v in vs) else np.dtype(object))
            obj = resolved_obj([part_dtype([k[d] for k in lkeys]) for d in depth])
            tags = fallback_tags({'api': 'iter_group_labels', 'adversarial': True, 'multi_depth': True}, obj, True, lkeys)
            mcall = f'(M_unique_api {lit.b(obj)} {keyspec_lit(ks)} {rows_lit(rows)})'
            scall = f'(S_group_api {keyspec_lit(ks)} {rows_lit(rows)})'
            desc = {'labels': [repr(l) for l in labels], 'depth_level': depth, 'container': route}
            if route == 'labels-apply':
                yield form_case(ctx, 'api:iter_group_labels[adversarial-keys]', desc, tags, lkeys, rows, axis, mcall, scall, itv, iti, 'apply', callname)
            else:
                st, out = run(lambda: [(key_py(k), axis_rows(g, axis)) for k, g in iti()])
                obs = res_lit(st, out, groups_lit)
                tags = confirm_outcome(tags, 'items', st, out, rows, lkeys)
                yield Case('api:iter_group_labels[adversarial-keys]', dict(desc, call=callname.replace('(', '_items(', 1), observed=brief(out, st)),
                           m=f'gres_eqb {obs} {mcall}', s=f'gres_same {obs} {scall}', tags=tags, nontrivial=nontrivial_groups(lkeys))


def labels_cases(ctx):
    '''iter_group_labels_items / iter_group_labels(...).apply on hierarchical (and a few flat) axes'''
    import static_frame as sf
    for _ in range(ctx.n(60, 600)):
        n = ctx.rng.randint(1, 8)
        inner_kind = ctx.rng.choice(['int', 'str', 'date'])
        flat = ctx.rng.random() < 0.1
        labels = [f'r{i}' for i in range(n)] if flat else hier_labels(ctx.rng, n, ('str', inner_kind))
        index = sf.Index(labels) if flat else sf.IndexHierarchy.from_labels(labels)
        which = ctx.rng.choice(['series', 'frame0', 'frame1'])
        if flat:
            depth, ks, obj = 0, ('depth', 0), False
        else:
            r = ctx.rng.random()
            if r < 0.4:
                depth, ks, obj = 0, ('depth', 0), False
            elif r < 0.75:
                depth, ks, obj = 1, ('depth', 1), False
            else:
                depth = ctx.rng.choice([[0, 1], [1, 0], [0], [1]])
                ks = ('depths', depth)
                obj = resolved_obj([np.dtype('<U2') if d == 0 else {'int': np.dtype(np.int64), 'str': np.dtype('<U1'), 'date': np.dtype('datetime64[D]')}[inner_kind] for d in depth])
        apply_ = ctx.rng.random() < 0.35
        if which == 'series':
            c = sf.Series(np.arange(n), index=index)
            axis = 0
            it = lambda: c.iter_group_labels_items(depth)
            ap = lambda func: c.iter_group_labels(depth).apply(func)
            call = f'sf.Series(range(n), index=IndexHierarchy.from_labels(labels)).iter_group_labels{"" if apply_ else "_items"}({depth})'
        else:
            axis = 0 if which == 'frame0' else 1
            m = ctx.rng.randint(1, 3)
            kinds = [ctx.rng.choice(['int', 'float', 'str']) for _ in range(m)]
            if axis == 0:
                arrays = [make_array(k, column_values(ctx.rng, k, n, 'dup')) for k in kinds]
                layout = ctx.rng.choice(list(zoo.layouts_for([a.dtype for a in arrays])))
                c = zoo.frame_from_columns(arrays, layout, index=index, columns=sf.Index([f'c{j}' for j in range(m)]))
            else:
                kinds = [ctx.rng.choice(['int', 'float', 'str']) for _ in range(n)]
                arrays = [make_array(k, column_values(ctx.rng, k, m, 'dup')) for k in kinds]
                layout = ctx.rng.choice(list(zoo.layouts_for([a.dtype for a in arrays])))
                c = zoo.frame_from_columns(arrays, layout, index=sf.Index([f'r{j}' for j in range(m)]), columns=index)
            it = lambda: c.iter_group_labels_items(depth, axis=axis)
            ap = lambda func: c.iter_group_labels(depth, axis=axis).apply(func)
            call = f'frame.iter_group_labels{"" if apply_ else "_items"}({depth}, axis={axis})'
        rows = axis_rows(c, axis)
        keys = [(l if flat else (l[depth] if isinstance(depth, int) else tuple(l[d] for d in depth))) for l, _ in rows]
        multi = ks[0] == 'depths'
        tags = fallback_tags({'api': 'iter_group_labels', 'container': which, 'multi_depth': multi, 'apply': apply_}, obj, multi, keys)
        ctx.count(f'labels:{which}', f'labels:{"multi" if multi else "single"}-depth', f'labels:apply={int(apply_)}')
        desc = {'call': call, 'labels': [repr(l) for l in labels], 'depth_level': depth, 'container': which}
        mcall = f'(M_unique_api {lit.b(obj)} {keyspec_lit(ks)} {rows_lit(rows)})'
        scall = f'(S_group_api {keyspec_lit(ks)} {rows_lit(rows)})'
        if not apply_:
            st, out = run(lambda: [(key_py(k), axis_rows(g, axis)) for k, g in it()])
            obs = res_lit(st, out, groups_lit)
            desc['observed'] = brief(out, st)
            tags = confirm_outcome(tags, 'items', st, out, rows, keys)
            yield Case('api:iter_group_labels_items', desc, m=f'gres_eqb {obs} {mcall}', s=f'gres_same {obs} {scall}', tags=tags,
                       nontrivial=nontrivial_groups(keys))
        else:
            code = {_hash_label(l): 1 << i for i, (l, _) in enumerate(rows)}
            func = lambda g: sum(code[_hash_label(l)] for l in lit.labels(g.index if axis == 0 else g.columns))
            st, out = run(lambda: ap(func))
            if st == 'ok':
                out = ([key_py(k) for k in lit.labels(out.index)], out.values.tolist())
            obs = res_lit(st, out, apply_lit)
            desc['observed'] = repr(out)
            tags = confirm_outcome(tags, 'pairs', st, out, rows, keys)
            yield Case('api:iter_group_labels.apply', desc,
                       m=f'ares_eqb {obs} (M_apply_api {rows_lit(rows)} {mcall})',
                       s=f'ares_same {obs} (S_apply_api {rows_lit(rows)} {scall})', tags=tags, nontrivial=nontrivial_groups(keys))


def kernel_cases(ctx):
    from static_frame.core.util import array_to_groups_and_locations
    for _ in range(ctx.n(120, 1200)):
        two_d = ctx.rng.random() < 0.25
        n = ctx.rng.randint(1, 8)
        if not two_d:
            kind = ctx.rng.choice(list(_VALS))
            values = column_values(ctx.rng, kind, n, ctx.rng.choice(['dup', 'dup', 'single']))
            arr = make_array(kind, values)
            obj = _DTYPE[kind] is object
            ks = list(values)
            axis = ctx.rng.choice([None, 0])
        else:
            kind = ctx.rng.choice(['int', 'str', 'obj-mix', 'obj-int'])
            w = ctx.rng.randint(1, 3)
            colsv = [column_values(ctx.rng, kind, n, 'dup') for _ in range(w)]
            arr = np.empty((n, w), dtype=_DTYPE[kind])
            for j, cv in enumerate(colsv):
                for i, v in enumerate(cv):
                    arr[i, j] = v
            obj = _DTYPE[kind] is object
            ks = [tuple(colsv[j][i] for j in range(w)) for i in range(n)]
            axis = 0
        st, out = run(lambda: array_to_groups_and_locations(arr, axis))
        ctx.count(f'kernel:{kind}', f'kernel:{"2d" if two_d else "1d"}')
        desc = {'call': f'util.array_to_groups_and_locations(array, {axis})', 'array': [repr(k) for k in ks], 'kind': kind, 'observed': repr(out)[:200]}
        if st == 'err':
            yield Case('kernel:array_to_groups_and_locations', desc, py_fail=f'raised {out}', tags={'kernel': 'array_to_groups_and_locations'})
            continue
        groups, locs = out
        groups = [key_py(g) for g in (groups if groups.ndim == 1 else list(groups))]
        locs = np.asarray(locs).reshape(-1).tolist()
        obs = f'({lit.vlist(groups)}, {lit.lst([nat(x) for x in locs])})'
        yield Case('kernel:array_to_groups_and_locations', desc,
                   m=f'kernel_eqb {obs} (M_kernel {lit.b(obj)} {lit.b(two_d)} {lit.vlist(ks)})',
                   tags={'kernel': 'array_to_groups_and_locations', 'kind': kind}, nontrivial=nontrivial_groups(ks))


# --------------------------------------------------------------------------- window strata
def wparams_lit(p):
    return (f'(mk_wparams {lit.z(p["size"])} {lit.z(p["step"])} {lit.b(p["window_sized"])} {lit.z(p["label_shift"])} '
            f'{lit.z(p["start_shift"])} {lit.z(p["size_increment"])})')


def witems_lit(items):
    return lit.lst([f'({lit.val(l)}, {rows_lit(rows)})' for l, rows in items])


def _array_window_rows(w, rows, axis, ndim):
    '''an ndarray window of a container with pairwise distinct cells -> the rows it consists of'''
    if ndim == 1:
        by = {cells[0]: (l, cells) for l, cells in rows}
        return [by[v] for v in w.tolist()]
    by = {tuple(cells): (l, cells) for l, cells in rows}
    items = w.tolist() if axis == 0 else w.T.tolist()
    return [by[tuple(x)] for x in items]


def has_empty_anchor(n, p):
    '''does an ENUMERATED anchor select nothing?  (own arithmetic of the anchor enumeration; class of C13-window-array-axis1-empty)'''
    if p['size'] <= 0 or p['step'] < 0:
        return False
    cmax = n if p['start_shift'] >= 0 else n - p['start_shift']
    for i in range(cmax + 1):
        left = p['start_shift'] + i * p['step']
        size = p['size'] + i * p['size_increment']
        if i and not (left <= cmax - 1 and size >= 0):
            continue
        lo, hi = max(0, left), max(0, left + size)
        if max(0, min(hi, n) - min(lo, n)) == 0:
            return True
    return False


def window_case(ctx, c, axis, p, stratum, desc, as_array=False, values_only=False):
    '''as_array: iter_window_array* (the container must have pairwise distinct cells of one dtype);
    values_only: iter_window / iter_window_array iterated directly (no labels): the sequence of windows'''
    rows = axis_rows(c, axis)
    kw = dict(p)
    if c.ndim == 2:
        kw['axis'] = axis
    conv = (lambda w: _array_window_rows(w, rows, axis, c.ndim)) if as_array else (lambda w: axis_rows(w, axis))
    if values_only:
        it = c.iter_window_array if as_array else c.iter_window
        st, out = run(lambda: [conv(w) for w in it(**kw)])
        obs = res_lit(st, out, lambda o: lit.lst([rows_lit(r) for r in o]))
        shown = [[repr(r[0]) for r in rs] for rs in out] if st == 'ok' else out
        mk = lambda model: f'wvres_eqb (wvalues ({model} {rows_lit(rows)} {wparams_lit(p)})) {obs}'
    else:
        it = c.iter_window_array_items if as_array else c.iter_window_items
        st, out = run(lambda: [(key_py(l), conv(w)) for l, w in it(**kw)])
        obs = res_lit(st, out, witems_lit)
        shown = [[repr(l), [repr(r[0]) for r in rs]] for l, rs in out] if st == 'ok' else out
        mk = lambda model: f'wres_eqb ({model} {rows_lit(rows)} {wparams_lit(p)}) {obs}'
    n = len(rows)
    yielded = len(out) if st == 'ok' else 0
    tags = {'api': stratum.split(':', 1)[1], 'ndim': c.ndim, 'axis': axis}
    mmodel = 'M_windows'
    if as_array and c.ndim == 2 and axis == 1:
        mmodel = 'M_windows_frame_array_axis1'
        if has_empty_anchor(n, p):
            tags['finding'] = 'C13-window-array-axis1-empty'
            tags = confirm_outcome(tags, 'witems', st, out)
    desc = dict(desc, params=p, axis=axis, observed=shown)
    ctx.count(f'{stratum}:n={n}', f'{stratum}:yielded={min(yielded, 7)}', f'{stratum}:{"err" if st == "err" else "ok"}')
    clipped = p['start_shift'] < 0 or p['size'] > n or p['label_shift'] != 0 or p['size_increment'] != 0
    return Case(stratum, desc, m=mk(mmodel), s=mk('S_windows'), tags=tags, nontrivial=yielded >= 1 and clipped,
                key=f'{stratum}|{n}|{axis}|{sorted(p.items())}|{desc.get("layout")}|{desc.get("labels")}')


def spec_window_count(n, p):
    '''how many windows the specification yields (own arithmetic; used only to put a case into a finding class)'''
    if p['size'] <= 0 or p['step'] < 0:
        return 0
    cmax = n if p['start_shift'] >= 0 else n - p['start_shift']
    count = 0
    for i in range(cmax + 1):
        left = p['start_shift'] + i * p['step']
        size = p['size'] + i * p['size_increment']
        if i and not (left <= cmax - 1 and size >= 0):
            continue
        lab = left + size - 1 + p['label_shift']
        lo, hi = max(0, left), max(0, left + size)
        length = max(0, min(hi, n) - min(lo, n))
        if 0 <= lab < n and (not p['window_sized'] or length == size):
            count += 1
    return count


_WFORMS = ['valid', 'func', 'valid+func', 'apply', 'apply_items', 'apply_iter', 'apply_pool', 'apply_pool_items']


def window_form_case(ctx, c, axis, p, form, stratum, desc):
    '''window_valid / window_func callbacks and the apply family over the window iterators'''
    rows = axis_rows(c, axis)
    kw = dict(p)
    if c.ndim == 2:
        kw['axis'] = axis
    wlen = (lambda w: w.shape[0] if (w.ndim == 1 or axis == 0) else w.shape[1])
    wrev = (lambda w: w.iloc[::-1] if (w.ndim == 1 or axis == 0) else w.iloc[:, ::-1])
    code = {_hash_label(l): 1 << i for i, (l, _) in enumerate(rows)}
    member_axis = (lambda g: g.index if (g.ndim == 1 or axis == 0) else g.columns)
    fv = lambda g: sum(code[_hash_label(l)] for l in lit.labels(member_axis(g)))
    as_pair = lambda sr: ([key_py(k) for k in lit.labels(sr.index)], sr.values.tolist())
    ctx.count(f'{stratum}:{form}')
    W = lambda model: f'({model} {rows_lit(rows)} {wparams_lit(p)})'
    if form in ('valid', 'func', 'valid+func'):
        if 'valid' in form:
            kw['window_valid'] = lambda w: wlen(w) % 2 == 0
        if 'func' in form:
            kw['window_func'] = wrev
        st, out = run(lambda: [(key_py(l), axis_rows(w, axis)) for l, w in c.iter_window_items(**kw)])
        obs = res_lit(st, out, witems_lit)
        mk = lambda model: f'wres_eqb (wpost {lit.b("valid" in form)} {lit.b("func" in form)} {W(model)}) {obs}'
        call = f'c.iter_window_items(**params, {"window_valid=even number of rows, " if "valid" in form else ""}{"window_func=reverse" if "func" in form else ""})'
    elif form == 'apply_iter':
        st, out = run(lambda: [int(v) for v in c.iter_window(**kw).apply_iter(fv)])
        obs = res_lit(st, out, lit.vlist)
        mk = lambda model: f'avres_eqb {obs} (avalues (wapply {rows_lit(rows)} {W(model)}))'
        call = 'list(c.iter_window(**params).apply_iter(bitmask))'
    else:
        if form == 'apply':
            st, out = run(lambda: as_pair(c.iter_window(**kw).apply(fv)))
        elif form == 'apply_items':
            st, out = run(lambda: as_pair(c.iter_window_items(**kw).apply(lambda k, w: fv(w))))
        elif form == 'apply_pool':
            st, out = run(lambda: as_pair(c.iter_window(**kw).apply_pool(fv, use_threads=True, max_workers=2)))
        else:
            st, out = run(lambda: as_pair(c.iter_window_items(**kw).apply_pool(lambda kv: fv(kv[1]), use_threads=True, max_workers=2)))
        obs = res_lit(st, out, apply_lit)
        mk = lambda model: f'ares_eqb {obs} (wapply {rows_lit(rows)} {W(model)})'
        call = {'apply': 'c.iter_window(**params).apply(bitmask)', 'apply_items': 'c.iter_window_items(**params).apply(lambda k, w: bitmask(w))',
                'apply_pool': 'c.iter_window(**params).apply_pool(bitmask, use_threads=True, max_workers=2)',
                'apply_pool_items': 'c.iter_window_items(**params).apply_pool(lambda kv: bitmask(kv[1]), use_threads=True, max_workers=2)'}[form]
    desc = dict(desc, call=call, params=p, axis=axis, observed=repr(out)[:400])
    tags = {'api': 'iter_window', 'form': form, 'ndim': c.ndim, 'axis': axis}
    m = mk('M_windows')
    if form in ('apply', 'apply_items', 'apply_pool', 'apply_pool_items'):
        # the result index is built with a constructor taken from the container (node_iter.py:437-446); two classes, decided
        # from the input, where the unchanged code gets it wrong (the model does not follow: only S is compared)
        if c.ndim == 2 and ((axis == 1 and c.index.depth > 1) or (axis == 0 and not c.columns.STATIC)):
            # axis 1: index.from_labels (a hierarchy) over flat column labels; axis 0: columns.from_labels of a FrameGO is IndexGO.from_labels
            tags['finding'], m = 'C13-window-apply-index-constructor', None
        elif c.ndim == 1 and c.index.depth > 1 and spec_window_count(len(rows), p) == 0:
            tags['finding'], m = 'C13-window-apply-empty-hier', None
        sw = spec_windows(len(rows), p)
        tags = confirm_outcome(tags, 'pairs', st, out, rows, None,
                               expect=(axis, [rows[lab][0] for lab, _, _ in sw], [_bitmask(range(lo, hi)) for _, lo, hi in sw]))
    return Case(stratum, desc, m=m, s=mk('S_windows'), tags=tags,
                nontrivial=st == 'ok' and len(out if isinstance(out, list) else out[0]) >= 1)


def window_form_cases(ctx):
    import static_frame as sf
    for i in range(ctx.n(84, 700)):
        form = _WFORMS[i % len(_WFORMS)]
        applyish = form.startswith('apply')
        p = dict(size=ctx.rng.randint(1, 4), step=ctx.rng.choice([1, 1, 2, 3] if applyish else [0, 1, 1, 2, 3]), window_sized=ctx.rng.random() < 0.5,
                 label_shift=ctx.rng.choice([0, 0, -1, 1, -2, 2]), start_shift=ctx.rng.choice([0, 0, -1, 1, -2, 2]),
                 size_increment=0 if applyish else ctx.rng.choice([0, 0, 1, -1]))
        if (i // len(_WFORMS)) % 3 == 0:
            n = ctx.rng.randint(0, 7)
            kind = ctx.rng.choice(['int', 'str', 'float', 'uint', 'date'])
            c, labels = series_spec(ctx, kind, column_values(ctx.rng, kind, n, 'dup'), hier=ctx.rng.random() < 0.2 and n > 0)
            axis, desc = 0, {'container': 'series', 'kind': kind, 'index': [repr(l) for l in labels]}
        else:
            spec = make_frame(ctx, ctx.rng.choice(['N', 'M', 'I', 'T']), ctx.rng.randint(1, 6), ctx.rng.randint(1, 3), hier_index=ctx.rng.random() < 0.15)
            layout = ctx.rng.choice(spec['layouts'])
            receiver = ctx.rng.choice(['Frame', 'Frame', 'FrameGO', 'FrameHE'])
            c, axis = build(spec, layout, cls=getattr(sf, receiver)), ctx.rng.choice([0, 1])
            desc = dict(spec_desc(spec, layout), container=receiver)
        yield window_form_case(ctx, c, axis, p, form, 'api:iter_window[forms]', desc)


def window_grid():
    for n in range(0, 7):
        for size in range(1, 5):
            for step in range(0, 4):
                for start_shift in range(-3, 4):
                    for label_shift in range(-3, 4):
                        for inc in (-1, 0, 1):
                            for sized in (True, False):
                                yield n, dict(size=size, step=step, window_sized=sized, label_shift=label_shift,
                                              start_shift=start_shift, size_increment=inc)


def window_grid_wide():
    '''windows that start far left of the container and are labelled far right of their right edge (and the mirror
    image is in the main grid): start_shift down to -(n+2), label_shift up to n+2, n <= 9, size <= 3'''
    for n in range(0, 10):
        for size in range(1, 4):
            for step in (1, 2):
                for start_shift in range(-(n + 2), 1):
                    for label_shift in range(0, n + 3):
                        for sized in (True, False):
                            yield n, dict(size=size, step=step, window_sized=sized, label_shift=label_shift,
                                          start_shift=start_shift, size_increment=0)


def window_cases(ctx):
    import static_frame as sf
    wide = list(window_grid_wide())
    if ctx.tier == 'quick':
        # anchors lying completely left of the container whose label position exists: the window must be EMPTY
        left_out = [g for g in wide if g[1]['start_shift'] + g[1]['size'] - 1 < -1
                    and 0 <= g[1]['start_shift'] + g[1]['size'] - 1 + g[1]['label_shift'] < g[0]]
        wide = ctx.rng.sample(left_out, min(len(left_out), ctx.n(60, 60))) + ctx.rng.sample(wide, ctx.n(90, 90))
    wseries = {n: sf.Series(np.arange(n) * 10, index=sf.Index([chr(97 + i) for i in range(n)]) if n else sf.Index(())) for n in range(0, 10)}
    for n, p in wide:
        yield window_case(ctx, wseries[n], 0, p, 'api:series.iter_window_items[wide]',
                          {'call': 'sf.Series(range(n)*10, index=a,b,c..).iter_window_items(**params)', 'n': n})
    grid = list(window_grid())
    if ctx.tier == 'quick':
        keep = [g for g in grid if g[0] in (0, 6) and g[1]['size'] in (1, 4) and g[1]['step'] in (0, 1) and abs(g[1]['start_shift']) == 3
                and abs(g[1]['label_shift']) in (0, 3)]
        grid = keep + ctx.rng.sample(grid, ctx.n(900, 900))
    series = {n: sf.Series(np.arange(n) * 10, index=sf.Index([chr(97 + i) for i in range(n)]) if n else sf.Index(())) for n in range(0, 7)}
    for n, p in grid:
        yield window_case(ctx, series[n], 0, p, 'api:series.iter_window_items', {'call': 'sf.Series(range(n)*10, index=a,b,c..).iter_window_items(**params)', 'n': n})
    for n, p in ctx.rng.sample(grid, min(len(grid), ctx.n(100, 1500))):
        yield window_case(ctx, series[n], 0, p, 'api:series.iter_window_array_items',
                          {'call': 'sf.Series(range(n)*10, index=a,b,c..).iter_window_array_items(**params)', 'n': n}, as_array=True)
    # the values-only forms iterated directly: the sequence of windows = map snd of the items
    both = grid + wide
    lab = [g for g in both if g[1]['label_shift'] != 0]
    for as_array in (False, True):
        name = 'api:series.iter_window_array[values]' if as_array else 'api:series.iter_window[values]'
        for n, p in ctx.rng.sample(lab, min(len(lab), ctx.n(90, 1500))) + ctx.rng.sample(both, min(len(both), ctx.n(40, 500))):
            yield window_case(ctx, wseries[n], 0, p, name,
                              {'call': f'list(sf.Series(range(n)*10, index=a,b,c..).{"iter_window_array" if as_array else "iter_window"}(**params))', 'n': n},
                              as_array=as_array, values_only=True)
    # frames of distinct int cells: array windows (items and values-only), both axes
    for _ in range(ctx.n(50, 500)):
        nrows, ncols = ctx.rng.randint(1, 6), ctx.rng.randint(1, 4)
        arrays = [np.array([10 * i + j for i in range(nrows)], dtype=np.int64) for j in range(ncols)]
        layout = ctx.rng.choice(list(zoo.layouts_for([a.dtype for a in arrays])))
        f = zoo.frame_from_columns(arrays, layout, index=sf.Index([f'r{i}' for i in range(nrows)]), columns=sf.Index([f'c{j}' for j in range(ncols)]))
        axis = ctx.rng.choice([0, 1])
        p = dict(size=ctx.rng.randint(1, 4), step=ctx.rng.choice([0, 1, 1, 2, 3]), window_sized=ctx.rng.random() < 0.5,
                 label_shift=ctx.rng.choice([-3, -2, -1, 1, 2, 3, 0]), start_shift=ctx.rng.choice([0, 0, -1, 1, -2, 2]),
                 size_increment=ctx.rng.choice([0, 0, 1, -1]))
        vo = ctx.rng.random() < 0.7
        yield window_case(ctx, f, axis, p, 'api:frame.iter_window_array[values]' if vo else 'api:frame.iter_window_array_items',
                          {'call': f'frame of cells 10*i+j, layout {zoo.layout_str(layout)}: {"list(f.iter_window_array(axis=axis, **params))" if vo else "f.iter_window_array_items(axis=axis, **params)"}',
                           'shape': [nrows, ncols], 'layout': zoo.layout_str(layout)}, as_array=True, values_only=vo)
    # frames, both axes, hierarchical labels, all layouts of small frames
    for _ in range(ctx.n(60, 600)):
        family = ctx.rng.choice(['N', 'M', 'I'])
        nrows, ncols = ctx.rng.randint(1, 6), ctx.rng.randint(1, 3)
        hier = ctx.rng.random() < 0.2
        spec = make_frame(ctx, family, nrows, ncols, hier_index=hier, hier_columns=False)
        axis = ctx.rng.choice([0, 1])
        p = dict(size=ctx.rng.randint(1, 4), step=ctx.rng.choice([0, 1, 1, 2, 3]), window_sized=ctx.rng.random() < 0.6,
                 label_shift=ctx.rng.choice([0, -1, 1, -2, 2, 3]), start_shift=ctx.rng.choice([0, 0, -1, 1, -2, 2]),
                 size_increment=ctx.rng.choice([0, 0, 1, -1]))
        for layout in pick_layouts(ctx, spec, 2):
            f = build(spec, layout)
            yield window_case(ctx, f, axis, p, 'api:frame.iter_window_items', dict(spec_desc(spec, layout), call='frame.iter_window_items(axis=axis, **params)'))
            yield window_case(ctx, f, axis, p, 'api:frame.iter_window[values]', dict(spec_desc(spec, layout), call='list(frame.iter_window(axis=axis, **params))'),
                              values_only=True)
    for _ in range(ctx.n(15, 150)):
        n = ctx.rng.randint(1, 7)
        labels = hier_labels(ctx.rng, n)
        s = sf.Series(np.arange(n), index=sf.IndexHierarchy.from_labels(labels))
        p = dict(size=ctx.rng.randint(1, 3), step=ctx.rng.choice([1, 2]), window_sized=ctx.rng.random() < 0.5,
                 label_shift=ctx.rng.choice([0, -1, 1]), start_shift=ctx.rng.choice([0, -1, 1]), size_increment=0)
        yield window_case(ctx, s, 0, p, 'api:series.iter_window_items[hier]', {'call': 'Series with IndexHierarchy .iter_window_items(**params)', 'labels': [repr(l) for l in labels]})


# --------------------------------------------------------------------------- malformed inputs and the regression corpus
def malformed_cases(ctx):
    import static_frame as sf
    f = sf.Frame.from_dict({'c0': [1, 2, 1], 'c1': [3, 3, 4]}, index=('r0', 'r1', 'r2'))
    rows0, rows1 = axis_rows(f, 0), axis_rows(f, 1)
    for axis, key, rows, keylit in ((0, 'zz', rows0, 'None'), (1, 'zz', rows1, 'None'), (2, 'c0', rows0, '(Some (KCell 0%nat))'), (-1, 'c0', rows0, '(Some (KCell 0%nat))')):
        st, out = run(lambda: list(f.iter_group_items(key, axis=axis)))
        obs = res_lit(st, out if st == 'err' else [], groups_lit)
        ctx.count('malformed:group')
        yield Case('malformed:frame.iter_group_items', {'call': f'f.iter_group_items({key!r}, axis={axis})', 'observed': out if st == 'err' else 'no error'},
                   m=f'gres_eqb {obs} (M_frame_group_api {lit.z(axis)} {keylit} false true true false false {rows_lit(rows)})',
                   tags={'api': 'frame.iter_group_items', 'malformed': True}, nontrivial=False)
    s = sf.Series([10, 20, 30], index=('a', 'b', 'c'))
    for size, step in ((0, 1), (-1, 1), (2, -1), (0, -1)):
        p = dict(size=size, step=step, window_sized=True, label_shift=0, start_shift=0, size_increment=0)
        c = window_case(ctx, s, 0, p, 'malformed:iter_window_items', {'call': 's.iter_window_items(size=size, step=step)'})
        c.nontrivial = False
        yield c


def corpus_cases(ctx):
    '''minimal input of the known finding (must reproduce in every run) and regression inputs of the three repaired
    defects (cf0ec12, f8cd3fd, b935330), now held to the correct behaviour by the specification'''
    import static_frame as sf
    from types import SimpleNamespace
    fixed = SimpleNamespace(rng=__import__('random').Random(0), tier=ctx.tier, n=ctx.n, count=ctx.count)
    # 1. str fallback: 1 and '1' in an object key column
    arrays = [make_array('obj-col', [1, '1', 1]), make_array('int', [5, 6, 7])]
    spec = {'kinds': ['obj-col', 'int'], 'cols': [[1, '1', 1], [5, 6, 7]], 'arrays': arrays, 'dtypes': [a.dtype for a in arrays],
            'index_labels': ['r0', 'r1', 'r2'], 'col_labels': ['c0', 'c1'], 'index': sf.Index(['r0', 'r1', 'r2']), 'columns': sf.Index(['c0', 'c1']),
            'layouts': list(zoo.layouts_for([a.dtype for a in arrays])), 'mode': 'dup', 'hier_index': False, 'hier_columns': False}
    yield frame_group_case(fixed, spec, spec['layouts'][0], 0, 'element', [0], 'corpus:str-fallback')
    # 1b. FrameGO receiver, element key on axis 1, sort path
    arrays = [make_array('int', [1, 2]), make_array('int', [1, 3]), make_array('int', [2, 2])]
    specg = dict(spec, kinds=['int'] * 3, cols=[[1, 2], [1, 3], [2, 2]], arrays=arrays, dtypes=[a.dtype for a in arrays], index_labels=['r0', 'r1'],
                 index=sf.Index(['r0', 'r1']), col_labels=['c0', 'c1', 'c2'], columns=sf.Index(['c0', 'c1', 'c2']),
                 layouts=list(zoo.layouts_for([a.dtype for a in arrays])))
    yield frame_group_case(fixed, specg, specg['layouts'][0], 1, 'element', [0], 'corpus:framego-axis1-sort-path', go=True)
    # 1c. array windows over columns with an anchor that selects no column
    fw = sf.Frame.from_dict({'c0': [1, 2], 'c1': [3, 4]}, index=('r0', 'r1'))
    yield window_case(fixed, fw, 1, dict(size=1, step=1, window_sized=True, label_shift=0, start_shift=-1, size_increment=0),
                      'corpus:window-array-axis1-empty', {'call': "sf.Frame.from_dict({'c0':[1,2],'c1':[3,4]}).iter_window_array_items(size=1, start_shift=-1, axis=1)"},
                      as_array=True)
    # 1d. window apply: result index built with the constructor of the wrong axis / of an empty hierarchy
    ihx = sf.IndexHierarchy.from_labels([('a', 1), ('a', 2)])
    fh = sf.Frame(np.arange(4).reshape(2, 2), index=ihx, columns=('c0', 'c1'))
    yield window_form_case(fixed, fh, 1, dict(size=1, step=1, window_sized=True, label_shift=0, start_shift=0, size_increment=0), 'apply',
                           'corpus:window-apply-index-constructor', {'container': 'Frame(np.arange(4).reshape(2,2), index=IndexHierarchy[(a,1),(a,2)], columns=(c0,c1))'})
    yield window_form_case(fixed, sf.Series([1, 2], index=ihx), 0, dict(size=3, step=1, window_sized=True, label_shift=0, start_shift=0, size_increment=0), 'apply',
                           'corpus:window-apply-empty-hier', {'container': 'Series([1,2], index=IndexHierarchy[(a,1),(a,2)])'})
    # 1e. Series.iter_group().apply on a Series with a date-typed index
    sd = sf.Series([1, 2, 1], index=sf.IndexDate(['2020-01-01', '2020-01-02', '2020-01-03']))
    rows_sd = axis_rows(sd, 0)
    yield form_case(fixed, 'corpus:series-group-apply-index-constructor', {'container': "sf.Series([1,2,1], index=sf.IndexDate(['2020-01-01','2020-01-02','2020-01-03']))"},
                    {'api': 'series.iter_group'}, [1, 2, 1], rows_sd, 0, f'(M_unique_api false (KCell 0) {rows_lit(rows_sd)})', f'(S_group_api (KCell 0) {rows_lit(rows_sd)})',
                    lambda: sd.iter_group(), lambda: sd.iter_group_items(), 'apply', 's.iter_group()', series_apply_finding=True)
    # 2. one-row list key on axis 1 (raised ValueError before cf0ec12)
    arrays = [make_array('int', [1, 2]), make_array('int', [1, 3])]
    spec2 = dict(spec, kinds=['int', 'int'], cols=[[1, 2], [1, 3]], arrays=arrays, dtypes=[a.dtype for a in arrays], index_labels=['r0', 'r1'],
                 index=sf.Index(['r0', 'r1']), layouts=list(zoo.layouts_for([a.dtype for a in arrays])))
    yield frame_group_case(fixed, spec2, spec2['layouts'][0], 1, 'list', [0], 'regression:axis1-one-row-list-key')
    # 2b. two key rows on axis 1 with an object row dtype (bool + int columns): labels were exchanged before f8cd3fd
    arrays = [make_array('bool', [True, False, True]), make_array('int', [9, 9, 9])]
    spec3 = dict(spec, kinds=['bool', 'int'], cols=[[True, False, True], [9, 9, 9]], arrays=arrays, dtypes=[a.dtype for a in arrays],
                 layouts=list(zoo.layouts_for([a.dtype for a in arrays])))
    yield frame_group_case(fixed, spec3, spec3['layouts'][0], 1, 'list', [1, 2], 'regression:axis1-multi-key-object')
    # 3. Frame.iter_group_labels([0, 1]).apply (raised TypeError before b935330)
    labels = [('a', 1), ('a', 2), ('b', 1)]
    fr = sf.Frame(np.arange(6).reshape(3, 2), index=sf.IndexHierarchy.from_labels(labels), columns=('x', 'y'))
    rows = axis_rows(fr, 0)
    code = {_hash_label(l): 1 << i for i, (l, _) in enumerate(rows)}
    st, out = run(lambda: fr.iter_group_labels([0, 1]).apply(lambda g: sum(code[_hash_label(l)] for l in lit.labels(g.index))))
    if st == 'ok':
        out = ([key_py(k) for k in lit.labels(out.index)], out.values.tolist())
    obs = res_lit(st, out, apply_lit)
    yield Case('regression:frame-labels-multi-depth-apply',
               {'call': 'sf.Frame(np.arange(6).reshape(3,2), index=IndexHierarchy.from_labels([("a",1),("a",2),("b",1)])).iter_group_labels([0,1]).apply(lambda g: <bitmask of g.index labels>)',
                'observed': repr(out)},
               m=f'ares_eqb {obs} (M_apply_api {rows_lit(rows)} (M_unique_api true (KDepths [0%nat; 1%nat]) {rows_lit(rows)}))',
               s=f'ares_same {obs} (S_apply_api {rows_lit(rows)} (S_group_api (KDepths [0%nat; 1%nat]) {rows_lit(rows)}))',
               tags={'api': 'iter_group_labels', 'container': 'frame0', 'multi_depth': True, 'apply': True},
               nontrivial=False)


def cases(ctx):
    yield from corpus_cases(ctx)
    yield from series_group_cases(ctx)
    yield from frame_group_cases(ctx)
    yield from adversarial_key_cases(ctx)
    yield from forms_cases(ctx)
    yield from edge_cases(ctx)
    yield from go_group_cases(ctx)
    yield from long_group_cases(ctx)
    yield from labels_cases(ctx)
    yield from kernel_cases(ctx)
    yield from window_cases(ctx)
    yield from window_form_cases(ctx)
    yield from malformed_cases(ctx)
