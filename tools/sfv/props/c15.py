'''C15 -- axis reductions equal the independent per-column / per-row computation.'''
import ast
import itertools
import os
import warnings

import numpy as np

from .. import lit
from .. import zoo
from ..core import Case

ID = 'C15'
MANIFEST = {
    'text': ('Coq (15+ theorems, all closed): S = the one-line specification of every reduction of the property (sum prod min max mean median std var all any; '
             'position/label of min/max; cumsum/cumprod) over exact rationals with a missing marker, applied independently to every column (axis 0) or row (axis 1). '
             'M = model of the algorithm TypeBlocks.ufunc_axis_skipna really runs (unified path; axis 0 per block into out[pos:end] with the store into the dtype of out; '
             'axis 1 composable path = every block reduced to one column of an r x nblocks array that is reduced again; non-composable path = consolidate then reduce; '
             'size_one_unity shortcut; out dtype choice), of util._argminmax_2d and of Frame._ufunc_shape_skipna, driven by the per-function constants '
             '(composable / size_one_unity / dtypes) REGENERATED from container.py on every run. '
             'C15_refinement: M = S for every function, both axes, skipna on/off, every ddof, every number of rows and EVERY block layout inside an explicit boolean guard; '
             'C15_axis1_composable_any_layout: block-wise-then-again = fold of the whole row for every associative operation and every partition into blocks (both liftings of a missing value: identity / absorbing); '
             'C15_axis0_is_per_column, C15_noncomposable_is_per_row, C15_values_are_the_columns (consolidation keeps every column); '
             'C15_table_composable_sound / C15_table_unity_sound / C15_table_ddof_bound (ddof bound in both the skipna and the non-skipna function of var and std) against the regenerated table (declaring mean composable breaks the proof with no input); '
             'C15_skipna_ignores_missing / _all_missing / C15_noskip_propagates_or_rejects; C15_argminmax_refinement + C15_argminmax_first_extreme (first position of the extreme value) + C15_loc_is_label_at_iloc; '
             'C15_cum_keeps_shape / C15_cum_refinement; C15_layout_independent; C15_row_kind_is_resolve_dtype (the row-dtype rule of the model = util.resolve_dtype regenerated from /repo, on the 7 generated dtypes). Refuted/C15.v: three vm_compute witnesses where the faithful M leaves S (known findings). '
             'Correspondence: public Frame calls (every function x axis x skipna x ddof, every block layout of every int/float/bool kind tuple up to width 2 plus six tuples of width 3 (quick) / up to width 3 plus ten tuples of width 4 (thorough), '
             '0- and 1-sized axes, random wider frames, labels of the result), TypeBlocks.ufunc_axis_skipna called directly with the flag combinations container.py never passes, '
             'Series and Index reductions against the one-line spec, string / datetime frames against their per-line Series, all evaluated inside Coq by vm_compute (M and S) on the observed inputs.'),
    'note': ('trusted: Coq kernel; the hand-written model M (tied to the code by the differential runs of this run and by the regenerated table); the harness; NumPy itself as the oracle of '
             'the one-line functions (np.sum/np.nanmin/... on ONE 1-D or 2-D array are assumed to compute the mathematical function; S is the independent statement of that function and every '
             'case checks the implementation against it). Float results: an exactly representable result must be reproduced bit for bit, otherwise to 2^-40 relative (NumPy rounding and summation '
             'order are not part of the property); degrees of freedom <= 0 accept NaN or an infinity. '
             'Partial: object-dtype columns (numbers, bools, None, NaN) are generated for all/any and for sum/prod/min/max only (mean/median/std/var over object arrays are not); complex, float32 and mixed datetime units not generated; string, bytes, datetime64[D,s] and timedelta64[D] columns are checked on the Python side against their own per-line Series; IndexHierarchy reductions only for int / float labels of depth 2-3; Batch / Quilt / Bus reductions, the ignored `out` argument and axis < 0 are not covered; int8/uint8/int16 only as homogeneous frames (M has no integer wrap-around: inputs whose exact result leaves the row dtype are a known finding); string and datetime columns are checked on the '
             'Python side (frame vs its own per-line Series) and are not in the Coq model; overflow of int64 excluded by construction (|values| <= 8). '
             'M does not describe NumPy reductions over object arrays (rows mixing bool with numbers) nor uninitialised memory: those input classes are excluded from the M comparison by m_faithful and '
             'are known findings against S. Fifteen input classes violate the property on the current tree (known/C15.jsonl); the multi-block all-bool sum is repaired (c69b2b9) and kept as a regression stratum.'),
    'technique': 'refinement of the block-wise reduction algorithm to the per-line specification (Coq) + differential runs evaluated inside Coq + regenerated decision table',
}
PROPERTY_FILES = ['Properties/C15.v']
REFUTED_FILES = ['Refuted/C15.v']
MODEL_FILES = ['SF/Reduce.v', 'Gen/Gen_c15_table.v']
IMPORTS = ('Require Import SF.Prelude SF.Value SF.Dtype SF.Reduce Gen.Gen_c15_table.\n'
           'From Coq Require Import QArith.\nLocal Open Scope Z_scope.')
RULE = ('api:reduce-all-layouts: every kind tuple over {int64,float64(NaN),bool} up to width 2 + 6 tuples of width 3 (quick) / all up to width 3 + 10 tuples of width 4 (thorough) x EVERY block layout x 10 functions x 2 axes x skipna on/off, fixed data with NaN; plus every layout of 3 (2) int8 / uint8 / int16 columns with values near the limits (column results fit the dtype, row sums do not); '
        'api:reduce-small-axes: 0 and 1 rows x 0..2(3) columns x every layout, and 0 columns x 2,3 rows; api:reduce-numeric / api:argminmax / api:cumulative: random frames (1-5 columns, 1-8 rows, values in {-3..4, .5, NaN}, random layout, ddof in {-1,0,1,2,3}); '
        'kernel: TypeBlocks.ufunc_axis_skipna with composable and size_one_unity both ways; api:series-reduce / api:index-reduce: one column as a Series, the labels of an Index; api:parity-str-datetime: every layout of 1-2(3) string / datetime64 columns; api:malformed-axis: axis 2,3 must raise; api:var-std-ddof-grid: var/std x skipna on/off x ddof 0,1,2 x axis x every layout of an int/float/int frame without missing cells, and on a Series; '
        'extension round (routes the coverage tool showed unreached): api:indexhierarchy-reduce (IndexHierarchy / GO, 10 functions + cumsum/cumprod, both axes), api:series-cumulative (Series / Index cumsum, cumprod), api:series-loc-minmax, api:reduce-object-logical and api:reduce-object-columns (object blocks with None / NaN), api:hierarchical-labels (Frames with IndexHierarchy index / columns, loc_min / loc_max), api:framego-grown (FrameGO grown column by column), FrameGO / FrameHE classes in api:reduce-numeric, bytes / timedelta64 / datetime64[s] frames in api:parity-str-datetime; '
        'api:known-witness: one fixed input per known finding. A case is non-trivial when the frame has several blocks or several rows (kernel: when a flag differs from container.py); distinct = distinct (call, data, layout).')
ASSUMPTIONS = ['a NumPy reduction of ONE array along an axis computes the mathematical function of each line (oracle; every case re-checks it against S)',
               'util.resolve_dtype on the generated dtypes: equal kinds stay, int64+float64 -> float64, bool with int/float -> object (row_kind in SF/Reduce.v)',
               'cells are exact: integers, halves and NaN; float results compared exactly when representable, else to 2^-40 relative',
               'NumPy 2: storing a size-1 ARRAY into an element of a numeric array raises ValueError, into a bool array stores its truth value (modelled in M_multi)']
TRUSTED = ['tools/sfv/props/c15.py:generate -- AST extractor of the keyword constants of ContainerOperand reductions (fails closed on any other shape)']
EXHAUSTIVE = {'quick': False, 'thorough': False}
TRANSLATED = ['resolve_dtype']
MODEL_TRANSLATED = []          # the case terms (SF/Reduce.v) do not depend on the translated kernel; only the theorem does
GENERATED_FILES = ['Gen/Gen_c15_table.v']

FUNCS = ('sum', 'prod', 'min', 'max', 'mean', 'median', 'std', 'var', 'all', 'any')
COQ_F = {f: 'F' + f for f in FUNCS}

# ----------------------------------------------------------------------------- generate(): the reduction table
_TABLE_METHODS = FUNCS + ('cumsum', 'cumprod')
_DSEL = {'EMPTY_TUPLE': 'DsEmpty', 'DTYPES_BOOL': 'DsBool', 'DTYPES_INEXACT': 'DsInexact', '(DTYPE_FLOAT_DEFAULT,)': 'DsFloat'}
_UFUNCS = {   # method -> (ufunc, ufunc_skipna) as written in container.py
    'all': ('ufunc_all', 'ufunc_nanall'), 'any': ('ufunc_any', 'ufunc_nanany'),
    'sum': ('np.sum', 'np.nansum'), 'prod': ('np.prod', 'np.nanprod'),
    'min': ('np.min', 'np.nanmin'), 'max': ('np.max', 'np.nanmax'),
    'mean': ('np.mean', 'np.nanmean'), 'median': ('np.median', 'np.nanmedian'),
    'std': ('partial(np.std, ddof=ddof)', 'partial(np.nanstd, ddof=ddof)'),
    'var': ('partial(np.var, ddof=ddof)', 'partial(np.nanvar, ddof=ddof)'),
    'cumsum': ('np.cumsum', 'np.nancumsum'), 'cumprod': ('np.cumprod', 'np.nancumprod'),
}


def _extract_table(repo):
    '''Read the keyword constants of every reduction of ContainerOperand from the AST of container.py. Fail closed.'''
    path = os.path.join(repo, 'static_frame/core/container.py')
    with open(path) as f:
        tree = ast.parse(f.read())
    cls = [n for n in tree.body if isinstance(n, ast.ClassDef) and n.name == 'ContainerOperand']
    if len(cls) != 1:
        raise ValueError('class ContainerOperand not found in container.py')
    methods = {n.name: n for n in cls[0].body if isinstance(n, ast.FunctionDef)}
    table = {}
    ddof_bound = {}
    for name in _TABLE_METHODS:
        fn = methods.get(name)
        if fn is None:
            raise ValueError(f'ContainerOperand.{name} not found')
        body = [st for st in fn.body if not (isinstance(st, ast.Expr) and isinstance(getattr(st, 'value', None), ast.Constant))]
        if len(body) != 1 or not isinstance(body[0], ast.Return) or not isinstance(body[0].value, ast.Call):
            raise ValueError(f'ContainerOperand.{name}: body is not a single `return self._ufunc_..._skipna(...)`')
        call = body[0].value
        target = ast.unparse(call.func)
        want = 'self._ufunc_shape_skipna' if name.startswith('cum') else 'self._ufunc_axis_skipna'
        if target != want or call.args:
            raise ValueError(f'ContainerOperand.{name}: calls {target}, expected {want} with keywords only')
        kw = {k.arg: k.value for k in call.keywords}
        if set(kw) != {'axis', 'skipna', 'ufunc', 'ufunc_skipna', 'composable', 'dtypes', 'size_one_unity'}:
            raise ValueError(f'ContainerOperand.{name}: unexpected keywords {sorted(kw)}')
        if ast.unparse(kw['axis']) != 'axis' or ast.unparse(kw['skipna']) != 'skipna':
            raise ValueError(f'ContainerOperand.{name}: axis/skipna are not passed through')
        for k in ('composable', 'size_one_unity'):
            if not (isinstance(kw[k], ast.Constant) and isinstance(kw[k].value, bool)):
                raise ValueError(f'ContainerOperand.{name}: {k} is not a literal bool')
        dsel = ast.unparse(kw['dtypes'])
        if dsel not in _DSEL:
            raise ValueError(f'ContainerOperand.{name}: dtypes={dsel} not understood')
        uf = (ast.unparse(kw['ufunc']), ast.unparse(kw['ufunc_skipna']))
        if name in ('std', 'var'):
            # the ddof binding of each of the two functions is a table FACT (a theorem demands both bound), not a shape error
            bound = []
            for got, base in zip(uf, (f'np.{name}', f'np.nan{name}')):
                if got == f'partial({base}, ddof=ddof)':
                    bound.append(True)
                elif got == base:
                    bound.append(False)
                else:
                    raise ValueError(f'ContainerOperand.{name}: ufunc {got}, expected {base} or partial({base}, ddof=ddof)')
            ddof_bound[name] = tuple(bound)          # (non-skipna function, skipna function)
        elif uf != _UFUNCS[name]:
            raise ValueError(f'ContainerOperand.{name}: ufunc pair {uf}, the model assumes {_UFUNCS[name]}')
        table[name] = (kw['composable'].value, kw['size_one_unity'].value, _DSEL[dsel])
    # the dtype tuples the selectors stand for
    with open(os.path.join(repo, 'static_frame/core/util.py')) as f:
        utree = ast.parse(f.read())
    consts = {}
    for n in utree.body:
        if isinstance(n, ast.Assign) and len(n.targets) == 1 and isinstance(n.targets[0], ast.Name):
            consts[n.targets[0].id] = ast.unparse(n.value)
    want = {'DTYPES_BOOL': '(DTYPE_BOOL,)', 'DTYPES_INEXACT': '(DTYPE_FLOAT_DEFAULT, DTYPE_COMPLEX_DEFAULT)', 'EMPTY_TUPLE': '()',
            'DTYPE_BOOL': 'np.dtype(bool)', 'DTYPE_FLOAT_DEFAULT': 'np.dtype(np.float64)',
            'DTYPE_INEXACT_KINDS': '(DTYPE_FLOAT_KIND, DTYPE_COMPLEX_KIND)'}
    for k, v in want.items():
        if consts.get(k) != v:
            raise ValueError(f'util.{k} = {consts.get(k)}, the model assumes {v}')
    return table, ddof_bound


# what the property demands of container.py (used to keep generating cases when the source can no longer be read)
_DEMANDED_TABLE = {
    'sum': (False, True, 'DsEmpty'), 'prod': (False, True, 'DsEmpty'), 'min': (True, True, 'DsEmpty'), 'max': (True, True, 'DsEmpty'),
    'mean': (False, True, 'DsInexact'), 'median': (False, True, 'DsInexact'), 'std': (False, False, 'DsFloat'), 'var': (False, False, 'DsFloat'),
    'all': (True, False, 'DsBool'), 'any': (True, False, 'DsBool'), 'cumsum': (False, True, 'DsEmpty'), 'cumprod': (False, True, 'DsEmpty'),
}


def _table_or_demanded(repo):
    """The extracted table; when the extractor fails (reported by generate() as a broken translation, which drops the M terms)
    the table the property demands, so that the specification side of every stratum still runs."""
    try:
        return _extract_table(repo)[0]
    except Exception:  # noqa
        return dict(_DEMANDED_TABLE)


def generate(repo):
    table, ddof_bound = _extract_table(repo)
    rows = ';\n'.join(f'  ({lit.s(name)}, mk_flags {lit.b(c)} {lit.b(u)} {d})' for name, (c, u, d) in table.items())
    cases_ = '\n'.join(f'  | F{name} => mk_flags {lit.b(table[name][0])} {lit.b(table[name][1])} {table[name][2]}' for name in FUNCS)
    text = ('(* GENERATED on every run by tools/sfv/props/c15.py from static_frame/core/container.py (ContainerOperand reductions):\n'
            '   the keyword constants composable / size_one_unity / dtypes of every _ufunc_axis_skipna / _ufunc_shape_skipna call. *)\n'
            'Require Import SF.Prelude SF.Value SF.Dtype SF.Reduce.\n\n'
            'Definition c15_rows : list (string * flags) := [\n' + rows + '\n]%string.\n\n'
            'Definition c15_table (f : rfunc) : flags :=\n  match f with\n' + cases_ + '\n  end.\n\n'
            '(* is ddof bound (partial(np.var, ddof=ddof)) in the function used for this skipna? *)\n'
            'Definition c15_ddof_bound (f : rfunc) (skipna : bool) : bool :=\n  match f, skipna with\n'
            + ''.join(f'  | F{n}, false => {lit.b(ddof_bound[n][0])}\n  | F{n}, true => {lit.b(ddof_bound[n][1])}\n' for n in ('std', 'var'))
            + '  | _, _ => true\n  end.\n')
    return {'Gen/Gen_c15_table.v': text}


# ----------------------------------------------------------------------------- literals
def _blocks_lit(cols, layout):
    '''list vblk literal from columns + layout.'''
    out, pos = [], 0
    for w, is2d in layout:
        part = cols[pos:pos + w]
        pos += w
        d = lit.dtype(part[0].dtype)
        if is2d:
            out.append(f'({d}, B2 {lit.lst([lit.vlist(lit.array_vals(c)) for c in part])})')
        else:
            out.append(f'({d}, B1 {lit.vlist(lit.array_vals(part[0]))})')
    return lit.lst(out)


def _safe_vlist(items):
    out = []
    for x in items:
        try:
            out.append(lit.val(x))
        except ValueError:
            out.append(lit.val(f'<unprintable {type(x).__name__}>'))     # matches nothing the models produce
    return lit.lst(out)


def _obs_series(fn):
    '''Run fn() -> Series; literal `res (list val * list val)`.'''
    with warnings.catch_warnings():
        warnings.simplefilter('ignore')
        try:
            s = fn()
        except Exception as e:  # noqa
            return f'(Err {lit.s(lit.err_class(e))})', ('ERR', type(e).__name__)
    vals = lit.array_vals(s.values)
    return f'(Ok ({lit.vlist(lit.labels(s.index))}, {_safe_vlist(vals)}))', _j(vals)


def _j(v):
    if isinstance(v, (list, tuple)):
        return [_j(x) for x in v]
    if isinstance(v, np.generic):
        v = v.item()
    if isinstance(v, float) and v != v:
        return 'nan'
    if isinstance(v, float) and v in (float('inf'), float('-inf')):
        return 'inf' if v > 0 else '-inf'
    if isinstance(v, np.ndarray):
        return repr(v)
    return v


# ----------------------------------------------------------------------------- findings (classes defined on the INPUT)
F_ZERO_COLS = 'C15-zero-columns'
F_ONE_ROW = 'C15-one-row-unity'
F_ZERO_ROWS_LOGICAL = 'C15-zero-rows-logical'
F_OBJROW = 'C15-object-rows'
F_ARG_ALLNAN = 'C15-argminmax-all-nan'
F_NARROW = 'C15-narrow-int-out-overflow'
F_OBJ_ALLNONE = 'C15-object-block-all-none'
UNITY = ('sum', 'prod', 'min', 'max', 'mean', 'median')


def _row_kind(cols):
    ks = {c.dtype.kind for c in cols}
    if len(ks) == 1:
        return next(iter(ks))
    if ks == {'i', 'u'}:
        return 'i'

    if ks == {'i', 'f'}:
        return 'f'
    return 'O'


def _narrow_overflow(cols, fn):
    """some column's exact sum / product lies outside the range of the row dtype (np.result_type of the integer columns)"""
    rd = np.result_type(*[c.dtype for c in cols])
    if rd.kind not in 'iu' or rd.itemsize >= 8:
        return False
    info = np.iinfo(rd)
    for c in cols:
        v = 0 if fn == 'sum' else 1
        for x in c.tolist():
            v = v + x if fn == 'sum' else v * x
        if not info.min <= v <= info.max:
            return True
    return False


def _outcome(seen, cols=None, fn=None, narrow=False):
    """KIND of the observed outcome (known-finding entries excuse only their recorded kinds):
    raises:<class> | cells-are-arrays | values-wrapped (narrow ints: the exact column result modulo 2**bits) | values"""
    if isinstance(seen, tuple) and len(seen) == 2 and seen[0] == 'ERR':
        return f'raises:{seen[1]}'
    if isinstance(seen, list) and any(isinstance(x, str) and x.startswith('array(') for x in seen):
        return 'cells-are-arrays'
    if narrow and cols and isinstance(seen, list) and len(seen) == len(cols):
        rd = np.result_type(*[c.dtype for c in cols])
        if rd.kind in 'iu':
            info, wrapped = np.iinfo(rd), []
            span = int(info.max) - int(info.min) + 1
            for c in cols:
                v = 0 if fn == 'sum' else 1
                for x in c.tolist():
                    v = v + x if fn == 'sum' else v * x
                wrapped.append((v - int(info.min)) % span + int(info.min))
            if seen == wrapped:
                return 'values-wrapped'
    return 'values'


def _block_starts(layout):
    pos, out = 0, []
    for w, _ in layout:
        out.append(pos)
        pos += w
    return out


def classify_reduce(cols, layout, r, fn, axis, skipna):
    """The known-finding class of a reduction call, decided from the input alone (None: no known defect applies)."""
    if not cols:
        return F_ZERO_COLS
    multi = len(layout) > 1
    rk = _row_kind(cols)
    if r == 0 and fn in ('all', 'any') and (axis == 1 or not multi or any(is2d for _, is2d in layout)):
        return F_ZERO_ROWS_LOGICAL      # (axis 0 over 1-D blocks only goes through the scalar path and is right)
    if (multi and axis == 0 and not skipna and fn in UNITY and r == 1 and any(w == 1 for w, _ in layout)
            and not (rk == 'b' and fn in ('prod', 'min', 'max'))):      # a bool `out` accepts the size-1 array (sum counts into int)
        return F_ONE_ROW
    if multi and axis == 0 and fn in ('sum', 'prod') and rk in 'iu' and _narrow_overflow(cols, fn):
        return F_NARROW
    if (multi and axis == 0 and skipna and fn in ('any', 'sum', 'prod')
            and any((not is2d) and cols[p].dtype == object and len(cols[p]) and all(x is None for x in cols[p].tolist())
                    for p, (w, is2d) in zip(_block_starts(layout), layout))):
        return F_OBJ_ALLNONE
    if rk == 'O' and (multi or any(c.dtype == object for c in cols)) and (fn in ('min', 'max') or (axis == 1 and fn in ('std', 'median', 'var', 'mean')) or (r == 0 and fn in ('sum', 'prod'))):
        return F_OBJROW
    return None


def classify_arg(cols, r, axis):
    """a line (column for axis 0, row for axis 1) without any non-missing cell: entirely NaN, or of length 0"""
    lines = [list(c) for c in cols] if axis == 0 else [[c[i] for c in cols] for i in range(r)]
    for ln in lines:
        if all(isinstance(x, (float, np.floating)) and x != x for x in ln):
            return F_ARG_ALLNAN
    return None


# ----------------------------------------------------------------------------- generators
def _gen_col(rng, k, r):
    if k == 'i':
        return np.array([rng.randint(-3, 4) for _ in range(r)], dtype=np.int64)
    if k == 'f':
        return np.array([rng.choice([np.nan, np.nan, -2., -1., 0., 1., 2., 3., .5]) for _ in range(r)], dtype=np.float64)
    if k == 'g':
        return np.array([rng.choice([-2., -1., 0., 1., 2., 3., .5]) for _ in range(r)], dtype=np.float64)
    if k == 'b':
        return np.array([rng.random() < .5 for _ in range(r)], dtype=bool)
    raise ValueError(k)


_FRAME_CLS = [None]      # the Frame class the next frames are built with (None: Frame); set by api_numeric


def _frame(cols, layout, index, columns):
    import static_frame as sf
    cls = getattr(sf, _FRAME_CLS[0]) if _FRAME_CLS[0] else sf.Frame
    if index and isinstance(index[0], tuple):
        index = sf.IndexHierarchy.from_labels(index)
    if columns and isinstance(columns[0], tuple):
        columns = sf.IndexHierarchy.from_labels(columns)
    if cols:
        return zoo.frame_from_columns(cols, layout, index=index, columns=columns, cls=cls)
    return cls(index=index)


def _common(cols, layout, index, columns):
    return {'columns_data': [_j(c.tolist()) for c in cols], 'dtypes': [str(c.dtype) for c in cols],
            'layout': zoo.layout_str(layout), 'index': list(index), 'columns': list(columns), 'class': _FRAME_CLS[0] or 'Frame',
            'build': 'sfv.zoo.frame_from_columns(cols, layout, index=index, columns=columns, cls=class)'}


def _reduce_case(ctx, cols, layout, fn, axis, skipna, ddof, index, columns, stratum, build=None):
    f = build() if build else _frame(cols, layout, index, columns)
    r = len(index)
    kw = {'axis': axis, 'skipna': skipna}
    if fn in ('std', 'var'):
        kw['ddof'] = ddof
    obs, seen = _obs_series(lambda: getattr(f, fn)(**kw))
    bl = _blocks_lit(cols, layout)
    args = f'{COQ_F[fn]} {axis} {lit.b(skipna)} {lit.z(ddof)} {r}%nat {bl} {lit.vlist(index)} {lit.vlist(columns)} {obs}'
    desc = dict(_common(cols, layout, index, columns), call=f'frame.{fn}({", ".join(f"{k}={v}" for k, v in kw.items())})', observed=seen)
    tags = {'fn': fn, 'axis': axis, 'skipna': skipna}
    cls = classify_reduce(cols, layout, r, fn, axis, skipna)
    if cls:
        tags['finding'] = cls
    tags['outcome'] = _outcome(seen, cols, fn, narrow=(cls == F_NARROW))
    ctx.count(f'fn:{fn}', f'axis:{axis}', f'skipna:{skipna}', f'rows:{min(r, 5)}', f'cols:{len(cols)}',
              f'nblocks:{min(len(layout), 4)}', f'rowkind:{_row_kind(cols) if cols else "-"}',
              'missing:yes' if any(c.dtype.kind == "f" and np.isnan(c).any() for c in cols) else 'missing:no',
              f'class:{cls or "clean"}', f'outcome:{"error" if isinstance(seen, tuple) else "values"}')
    return Case(stratum, desc, m=f'check_M c15_table c15_ddof_bound {args}', s=f'check_S {args}', tags=tags,
                nontrivial=len(layout) > 1 or r > 1)


def _arg_case(ctx, cols, layout, fn, axis, skipna, index, columns, stratum):
    f = _frame(cols, layout, index, columns)
    r = len(index)
    obs, seen = _obs_series(lambda: getattr(f, fn)(axis=axis, skipna=skipna))
    bl = _blocks_lit(cols, layout)
    ismin, isloc = fn.endswith('min'), fn.startswith('loc')
    args = f'{lit.b(ismin)} {lit.b(isloc)} {axis} {lit.b(skipna)} {r}%nat {bl} {lit.vlist(index)} {lit.vlist(columns)} {obs}'
    desc = dict(_common(cols, layout, index, columns), call=f'frame.{fn}(axis={axis}, skipna={skipna})', observed=seen)
    tags = {'fn': fn, 'axis': axis, 'skipna': skipna}
    cls = classify_arg(cols, r, axis)
    if cls:
        tags['finding'] = cls
    tags['outcome'] = _outcome(seen)
    ctx.count(f'fn:{fn}', f'axis:{axis}', f'skipna:{skipna}', f'rows:{min(r, 5)}', f'class:{cls or "clean"}',
              f'outcome:{"error" if isinstance(seen, tuple) else "values"}')
    return Case(stratum, desc, m=f'check_arg_M {args}', s=f'check_arg_S {args}', tags=tags)


def _cum_case(ctx, cols, layout, fn, axis, skipna, index, columns, stratum):
    f = _frame(cols, layout, index, columns)
    r = len(index)
    with warnings.catch_warnings():
        warnings.simplefilter('ignore')
        try:
            g = getattr(f, fn)(axis=axis, skipna=skipna)
            a = g.values
            lines = [lit.array_vals(a[:, j]) for j in range(a.shape[1])] if axis == 0 else [lit.array_vals(a[i, :]) for i in range(a.shape[0])]
            obs = f'(Ok ({lit.vlist(lit.labels(g.index))}, {lit.vlist(lit.labels(g.columns))}, {lit.lst([lit.vlist(l) for l in lines])}))'
            seen = {'shape': list(a.shape), 'lines': _j(lines)}
        except Exception as e:  # noqa
            obs, seen = f'(Err {lit.s(lit.err_class(e))})', ('ERR', type(e).__name__)
    bl = _blocks_lit(cols, layout)
    args = f'{lit.b(fn == "cumprod")} {axis} {lit.b(skipna)} {r}%nat {bl} {lit.vlist(index)} {lit.vlist(columns)} {obs}'
    desc = dict(_common(cols, layout, index, columns), call=f'frame.{fn}(axis={axis}, skipna={skipna})', observed=seen)
    ctx.count(f'fn:{fn}', f'axis:{axis}', f'skipna:{skipna}', f'rows:{min(r, 5)}')
    return Case(stratum, desc, m=f'check_cum_M {args}', s=f'check_cum_S {args}', tags={'fn': fn, 'axis': axis, 'skipna': skipna})


def _labels(rng, r, m):
    index = list(range(10, 10 + r))
    columns = list(range(20, 20 + m))
    return index, columns


def api_numeric(ctx):
    """random numeric frames (int64 / float64 with NaN / bool), random layout, every function, both axes, skipna on/off"""
    rng = ctx.rng
    for _ in range(ctx.n(36, 300)):
        m = rng.randint(1, 5)
        kinds = [rng.choice('iiffggb') for _ in range(m)]
        r = rng.choice((1, 2, 2, 3, 4, 4, 5, 8))
        cols = [_gen_col(rng, k, r) for k in kinds]
        index, columns = _labels(rng, r, m)
        layouts = list(zoo.layouts_for([c.dtype for c in cols]))
        layout = rng.choice(layouts)
        ddof = rng.choice((0, 0, 1, 1, 2, 3))
        _FRAME_CLS[0] = rng.choice((None, None, 'FrameGO', 'FrameHE'))
        ctx.count(f'class:{_FRAME_CLS[0] or "Frame"}')
        for fn in FUNCS:
            for axis in (0, 1):
                for skipna in (True, False):
                    yield _reduce_case(ctx, cols, layout, fn, axis, skipna, ddof, index, columns, 'api:reduce-numeric')
        for fn in ('iloc_min', 'iloc_max', 'loc_min', 'loc_max'):
            for axis in (0, 1):
                for skipna in (True, False):
                    yield _arg_case(ctx, cols, layout, fn, axis, skipna, index, columns, 'api:argminmax')
        for fn in ('cumsum', 'cumprod'):
            for axis in (0, 1):
                for skipna in (True, False):
                    yield _cum_case(ctx, cols, layout, fn, axis, skipna, index, columns, 'api:cumulative')
        _FRAME_CLS[0] = None


_FIXED = {   # deterministic columns per kind, 4 rows; a NaN in the float columns
    'i': [np.array([3, -1, 2, 2], dtype=np.int64), np.array([0, 4, -2, 1], dtype=np.int64)],
    'f': [np.array([1.5, np.nan, -2.0, 1.5]), np.array([np.nan, 0.5, 3.0, np.nan])],
    'b': [np.array([True, False, True, True]), np.array([False, False, True, False])],
}


_QUICK_W3 = {('i', 'f', 'f'), ('f', 'f', 'f'), ('b', 'b', 'b'), ('i', 'i', 'f'), ('f', 'b', 'i'), ('b', 'f', 'f')}


_THOROUGH_W4 = {('f', 'f', 'f', 'f'), ('i', 'i', 'i', 'i'), ('b', 'b', 'b', 'b'), ('i', 'f', 'f', 'i'), ('f', 'i', 'i', 'f'), ('i', 'i', 'f', 'f'),
                ('f', 'f', 'i', 'b'), ('b', 'b', 'f', 'f'), ('f', 'b', 'b', 'i'), ('i', 'f', 'i', 'f')}


def api_all_layouts(ctx):
    """EVERY block layout of every kind tuple (int/float/bool) up to a width, fixed data, every function/axis/skipna"""
    width = 3 if ctx.tier == 'quick' else 4
    for m in range(1, width + 1):
        for kinds in itertools.product('ifb', repeat=m):
            if ctx.tier == 'quick' and m == 3 and kinds not in _QUICK_W3:
                continue        # quick: a selection of the width-3 tuples; thorough: all up to width 3
            if m == 4 and kinds not in _THOROUGH_W4:
                continue        # width 4: a selection (34 layouts for four equal dtypes)
            seen = {}
            cols = []
            for k in kinds:
                j = seen.get(k, 0)
                seen[k] = j + 1
                cols.append(_FIXED[k][j % 2] if j < 2 else _FIXED[k][0][::-1].copy())
            for r in (((2, 4) if m < 4 else (3,)) if ctx.tier == 'thorough' else (3,)):
                cs = [c[:r].copy() for c in cols]
                index, columns = _labels(None, r, m)
                for layout in zoo.layouts_for([c.dtype for c in cs]):
                    for fn in FUNCS:
                        for axis in (0, 1):
                            for skipna in (True, False):
                                yield _reduce_case(ctx, cs, layout, fn, axis, skipna, 1, index, columns, 'api:reduce-all-layouts')


# narrow integer columns near the limits: every column sum / product fits the dtype (axis 0 is computed into the row
# dtype), every first-row sum does not (a partial row sum stored in the row dtype would wrap)
_NARROW = {
    'int8': [np.array([100, 1, -1], dtype=np.int8), np.array([100, -1, 1], dtype=np.int8), np.array([27, 1, 2], dtype=np.int8)],
    'uint8': [np.array([200, 1, 1], dtype=np.uint8), np.array([200, 1, 0], dtype=np.uint8), np.array([50, 1, 2], dtype=np.uint8)],
    'int16': [np.array([30000, 1, -1], dtype=np.int16), np.array([30000, -1, 1], dtype=np.int16), np.array([7, 1, 2], dtype=np.int16)],
}
_NARROW_FUNCS = ('sum', 'prod', 'min', 'max', 'mean', 'any')


def api_narrow_layouts(ctx):
    """int8 / uint8 / int16 frames with values near the limits, every layout of 3 (and 2) columns"""
    for name, pool in _NARROW.items():
        for m in ((3,) if (ctx.tier == 'quick' and name != 'int8') else (2, 3)):
            cols = [c.copy() for c in pool[:m]]
            index, columns = _labels(None, 3, m)
            for layout in zoo.layouts_for([c.dtype for c in cols]):
                for fn in (_NARROW_FUNCS if ctx.tier == 'quick' else FUNCS):
                    for axis in (0, 1):
                        for skipna in (True, False):
                            yield _reduce_case(ctx, cols, layout, fn, axis, skipna, 1, index, columns, 'api:reduce-all-layouts')


def api_ddof_grid(ctx):
    """var / std: the FULL grid skipna in {True, False} x ddof in {0, 1, 2} x axis, data without missing cells (so that
    skipna=False is defined), every layout of an int / float / int frame; and the same grid on a column as a Series"""
    import static_frame as sf
    cols = [_FIXED['i'][0].copy(), np.array([1.5, 0.5, -2.0, 1.5]), _FIXED['i'][1].copy()]
    index, columns = _labels(None, 4, 3)
    for layout in zoo.layouts_for([c.dtype for c in cols]):
        for fn in ('var', 'std'):
            for axis in (0, 1):
                for skipna in (True, False):
                    for ddof in (0, 1, 2):
                        yield _reduce_case(ctx, cols, layout, fn, axis, skipna, ddof, index, columns, 'api:var-std-ddof-grid')
    for c in cols[:2]:
        s = sf.Series(c, index=index)
        for fn in ('var', 'std'):
            for skipna in (True, False):
                for ddof in (0, 1, 2):
                    got = _try(lambda: getattr(s, fn)(skipna=skipna, ddof=ddof))
                    if isinstance(got, Exception):
                        obs, seen = f'(Err {lit.s(lit.err_class(got))})', ('ERR', type(got).__name__)
                    else:
                        obs, seen = f'(Ok {lit.val(got)})', _j(got)
                    ctx.count(f'ddof-grid:series:{fn}', f'ddof:{ddof}', f'skipna:{skipna}')
                    yield Case('api:var-std-ddof-grid', {'call': f'Series.{fn}(skipna={skipna}, ddof={ddof})', 'values': _j(c.tolist()),
                                                         'dtype': str(c.dtype), 'observed': seen},
                               s=f'check_series {COQ_F[fn]} {lit.b(skipna)} {lit.z(ddof)} {lit.vlist(lit.array_vals(c))} {obs}',
                               tags={'fn': fn, 'skipna': skipna, 'ddof': ddof, 'series': True})


def api_small_axes(ctx):
    """0- and 1-sized axes: 0/1 rows x 0..3 columns, every layout"""
    for r in (0, 1):
        for m in range(0, 4 if ctx.tier == 'thorough' else 3):
            for kinds in itertools.product('ifb', repeat=m):
                if ctx.tier == 'quick' and m == 2 and kinds not in (('i', 'f'), ('f', 'f'), ('b', 'b'), ('f', 'b'), ('i', 'i')):
                    continue
                if m == 3 and kinds not in _QUICK_W3:
                    continue
                cols = [_FIXED[k][i % 2][:r].copy() for i, k in enumerate(kinds)]
                index, columns = _labels(None, r, m)
                layouts = list(zoo.layouts_for([c.dtype for c in cols])) if cols else [()]
                for layout in layouts:
                    for fn in FUNCS:
                        for axis in (0, 1):
                            for skipna in (True, False):
                                yield _reduce_case(ctx, cols, layout, fn, axis, skipna, 0, index, columns, 'api:reduce-small-axes')
                    if cols:
                        for fn in ('iloc_min', 'loc_max'):
                            for axis in (0, 1):
                                yield _arg_case(ctx, cols, layout, fn, axis, True, index, columns, 'api:argminmax')
                        for axis in (0, 1):
                            yield _cum_case(ctx, cols, layout, 'cumsum', axis, True, index, columns, 'api:cumulative')
    # 0 columns, several rows
    for r in (2, 3):
        index, columns = _labels(None, r, 0)
        for fn in FUNCS:
            for axis in (0, 1):
                yield _reduce_case(ctx, [], (), fn, axis, True, 0, index, columns, 'api:reduce-small-axes')


# ----------------------------------------------------------------------------- string / datetime columns: parity with the per-line Series
F_STR_SUM = 'C15-str-sum-truncated'
F_DT_LOGICAL = 'C15-datetime-logical-uninitialised'
F_DT_SKIPNA = 'C15-datetime-skipna'
F_DT_MEAN = 'C15-datetime-mean-as-float'

_STR_COLS = [np.array(['b', 'ab', 'ab', 'a']), np.array(['a', 'bb', 'b', 'c']), np.array(['', 'a', 'b', 'zz'])]
_TD_COLS = [np.array([5, 2, 7, 1], dtype='timedelta64[D]'), np.array([3, 'NaT', 4, 9], dtype='timedelta64[D]'),
            np.array([1, 1, 'NaT', 2], dtype='timedelta64[D]')]
_DTS_COLS = [np.array(['2020-01-05T00:00:01', '2019-03-03', '2020-01-01', '2021-07-01'], dtype='datetime64[s]'),
             np.array(['2020-02-01', 'NaT', '2018-01-01', '2020-01-02'], dtype='datetime64[s]')]
_BYTES_COLS = [np.array([b'b', b'ab', b'ab', b'a']), np.array([b'a', b'bb', b'b', b'c']), np.array([b'', b'a', b'b', b'zz'])]
_DT_COLS = [np.array(['2020-01-05', '2019-03-03', '2020-01-01', '2021-07-01'], dtype='datetime64[D]'),
            np.array(['2020-02-01', 'NaT', '2018-01-01', '2020-01-02'], dtype='datetime64[D]'),
            np.array(['2017-01-05', '2022-03-03', 'NaT', '2020-01-01'], dtype='datetime64[D]')]


def _canon_py(x):
    if isinstance(x, Exception):
        return ('ERR', lit.err_class(x))
    if isinstance(x, (np.datetime64, np.timedelta64)):
        return 'NaT' if np.isnat(x) else str(x)
    if isinstance(x, (float, np.floating)) and x != x:
        return 'nan'
    if isinstance(x, np.generic):
        x = x.item()
    if isinstance(x, bool):
        return int(x)
    return x


def _try(fn):
    with warnings.catch_warnings():
        warnings.simplefilter('ignore')
        try:
            return fn()
        except Exception as e:  # noqa
            return e


def _parity_case(ctx, kind, cols, layout, fn, axis, skipna, index, columns):
    f = _frame(cols, layout, index, columns)
    r, m = len(index), len(cols)
    got = _try(lambda: getattr(f, fn)(axis=axis, skipna=skipna))
    n = m if axis == 0 else r
    want_labels = list(columns) if axis == 0 else list(index)
    per_line = []
    for j in range(n):
        line = f.iloc[:, j] if axis == 0 else f.iloc[j]
        per_line.append(_canon_py(_try(lambda: getattr(line, fn)(skipna=skipna))))
    errs = [e for e in per_line if isinstance(e, tuple)]
    py_fail = None
    if isinstance(got, Exception):
        seen = _canon_py(got)
        if seen not in errs:
            py_fail = f'frame.{fn} raised {seen[1]}; per line: {per_line}'
    else:
        seen = [_canon_py(v) for v in got.values]
        if errs:
            py_fail = f'frame.{fn} returned {seen}; a line as a Series raises {errs[0][1]}'
        elif seen != per_line:
            py_fail = f'frame.{fn} = {seen}, per line as Series = {per_line}'
        elif lit.labels(got.index) != want_labels:
            py_fail = f'labels {lit.labels(got.index)}, expected {want_labels}'
    tags = {'fn': fn, 'axis': axis, 'skipna': skipna, 'kind': kind}
    multi = len(layout) > 1
    # the mathematical reading for datetime min/max with skipna: NaT is ignored
    if kind in 'Mm' and fn in ('min', 'max') and skipna and not isinstance(got, Exception):
        lines = [list(c) for c in cols] if axis == 0 else [[c[i] for c in cols] for i in range(r)]
        if any(any(np.isnat(x) for x in ln) and not all(np.isnat(x) for x in ln) for ln in lines):
            tags['finding'] = F_DT_SKIPNA
            want = [_canon_py((min if fn == 'min' else max)(x for x in ln if not np.isnat(x))) if not all(np.isnat(x) for x in ln) else 'NaT' for ln in lines]
            if py_fail is None and seen != want:
                py_fail = f'frame.{fn}(skipna=True) = {seen}; ignoring the missing cells gives {want}'
    if kind in 'US' and fn == 'sum' and multi and axis == 0:
        tags['finding'] = F_STR_SUM
    if multi and axis == 0 and not skipna and fn in UNITY and r == 1 and any(w == 1 for w, _ in layout):
        tags['finding'] = F_ONE_ROW          # the same size-1 shortcut, whatever the dtype
    if kind in 'Mm' and fn in ('all', 'any') and multi and any(is2d for _, is2d in layout):
        tags['finding'] = F_DT_LOGICAL
    if kind in 'Mm' and fn in ('mean', 'median', 'std', 'var') and multi and axis == 0:
        tags['finding'] = F_DT_MEAN          # blocks are cast to float64 first: NaT becomes a huge negative number
    # KIND of the observed outcome: the recorded wrong pattern of each finding, or plain 'values' / 'raises:<class>'
    if isinstance(got, Exception):
        tags['outcome'] = f'raises:{type(got).__name__}'
    else:
        tags['outcome'] = 'values'
        fnd = tags.get('finding')
        if fnd == F_STR_SUM and not errs:
            w = cols[0].dtype.itemsize // (4 if kind == 'U' else 1)
            if seen == [x[:w] for x in per_line]:
                tags['outcome'] = 'values-truncated'         # the full concatenation cut to the column width
        elif fnd == F_DT_SKIPNA:
            lines_ = [list(c) for c in cols] if axis == 0 else [[c[i] for c in cols] for i in range(r)]
            if seen == ['NaT' if any(np.isnat(x) for x in ln) else w_ for ln, w_ in zip(lines_, want)]:
                tags['outcome'] = 'values-nat'               # NaT exactly for the lines that hold a NaT
        elif fnd == F_DT_MEAN and all(isinstance(x, (int, float)) or x == 'nan' for x in seen):
            tags['outcome'] = 'values-floats'                # plain floats instead of timedelta / a rejection
        elif fnd == F_DT_LOGICAL and all(x in (0, 1) for x in seen):
            tags['outcome'] = 'values-bools'
    desc = dict(_common(cols, layout, index, columns), call=f'frame.{fn}(axis={axis}, skipna={skipna})', observed=_j(seen),
                per_line_as_series=_j(per_line))
    ctx.count(f'ext:{kind}:{fn}', f'axis:{axis}', f'skipna:{skipna}', f'class:{tags.get("finding", "clean")}')
    return Case('api:parity-str-datetime', desc, py_fail=py_fail, tags=tags, nontrivial=multi)


def api_parity_ext(ctx):
    """str and datetime64 frames, every layout: frame.f(axis) against f of every column / row taken as a Series"""
    stat = ('mean', 'median', 'std', 'var')
    for kind, pool, funcs in (('U', _STR_COLS, ('min', 'max', 'all', 'any', 'sum')), ('M', _DT_COLS, ('min', 'max', 'all', 'any')),
                              ('S', _BYTES_COLS, ('min', 'max', 'all', 'any', 'sum')), ('m', _TD_COLS, ('min', 'max', 'sum', 'all', 'any') + stat),
                              ('M', _DTS_COLS, ('min', 'max', 'all', 'any') + stat)):
        width = 3 if (ctx.tier == 'thorough' or kind == 'U') else 2     # str: a 2-D block of two columns next to another block
        for m in range(1, min(width, len(pool)) + 1):
            for r in ((3,) if ctx.tier == 'quick' else (1, 2, 4)):
                cols = [pool[i][:r].copy() for i in range(m)]
                if kind == 'U':
                    w = max(c.dtype.itemsize for c in cols)
                    cols = [c.astype(f'<U{w // 4}') for c in cols]     # one dtype so that every layout exists
                if kind == 'S':
                    cols = [c.astype(f'S{max(c.dtype.itemsize for c in cols)}') for c in cols]
                index, columns = _labels(None, r, m)
                for layout in zoo.layouts_for([c.dtype for c in cols]):
                    for fn in funcs:
                        for axis in (0, 1):
                            for skipna in (True, False):
                                yield _parity_case(ctx, kind, cols, layout, fn, axis, skipna, index, columns)


def api_malformed(ctx):
    """malformed calls: an axis that does not exist must be rejected, never answered"""
    cols = [_FIXED['i'][0], _FIXED['f'][0]]
    index, columns = _labels(None, 4, 2)
    for layout in zoo.layouts_for([c.dtype for c in cols]):
        f = _frame(cols, layout, index, columns)
        for fn in ('sum', 'min', 'mean', 'all', 'std', 'iloc_min', 'cumsum'):
            for axis in (2, 3):
                got = _try(lambda: getattr(f, fn)(axis=axis))
                ok = isinstance(got, Exception)
                ctx.count('malformed:axis', f'raised:{type(got).__name__ if ok else "no"}')
                yield Case('api:malformed-axis',
                           dict(_common(cols, layout, index, columns), call=f'frame.{fn}(axis={axis})',
                                observed=('ERR', type(got).__name__) if ok else 'returned a value'),
                           py_fail=None if ok else f'frame.{fn}(axis={axis}) returned a result for an axis that does not exist',
                           tags={'fn': fn, 'axis': axis, 'malformed': True}, nontrivial=True)


def known_witnesses(ctx):
    """one fixed input per known finding, so that every listed finding is re-observed on every run"""
    idx2, col2 = [10, 11], [20, 21]
    # regression (fixed by c69b2b9): the sum of bool columns is a count (2 and 1) in EVERY layout
    b2 = [np.array([True, True]), np.array([True, False])]
    for layout in zoo.layouts_for([c.dtype for c in b2]):
        for skipna in (True, False):
            yield _reduce_case(ctx, b2, layout, 'sum', 0, skipna, 0, idx2, col2, 'api:regression-bool-blocks-sum')
    yield _reduce_case(ctx, [np.array([1], dtype=np.int64), np.array([2.5])], ((1, False), (1, False)), 'sum', 0, False, 0, [10], col2, 'api:known-witness')
    yield _reduce_case(ctx, [], (), 'sum', 0, True, 0, [10, 11, 12], [], 'api:known-witness')
    yield _reduce_case(ctx, [np.array([], dtype=np.int64), np.array([], dtype=np.int64)], ((2, True),), 'all', 0, True, 0, [], col2, 'api:known-witness')
    yield _reduce_case(ctx, [np.array([np.nan, -1.0]), np.array([True, False])], ((1, False), (1, False)), 'min', 0, False, 0, idx2, col2, 'api:known-witness')
    yield _arg_case(ctx, [np.array([1.0, 2.0]), np.array([np.nan, np.nan])], ((2, True),), 'iloc_min', 0, True, idx2, col2, 'api:known-witness')
    n3 = [np.array([100, -90, 5], dtype=np.int8), np.array([100, 7, -3], dtype=np.int8), np.array([5, 2, 1], dtype=np.int8)]
    yield _reduce_case(ctx, n3, ((2, True), (1, False)), 'prod', 0, True, 0, [10, 11, 12], [20, 21, 22], 'api:known-witness')
    s2 = [np.array(['b', 'ab']), np.array(['a', 'bb'])]
    yield _parity_case(ctx, 'U', s2, ((1, False), (1, False)), 'sum', 0, True, idx2, col2)
    import static_frame as sf
    gcols = [np.array([.5, np.nan]), np.array([-2, 0], dtype=np.int64)]

    def grown():
        g = zoo.frame_from_columns(gcols[:1], ((1, False),), index=idx2, columns=col2[:1], cls=sf.FrameGO)
        g[col2[1]] = gcols[1]
        return g
    c = _reduce_case(ctx, gcols, ((1, False), (1, False)), 'min', 1, False, 0, idx2, col2, 'api:known-witness', build=grown)
    c.tags['finding'] = F_GO_OBJ
    c.desc['build'] = 'FrameGO of the first column, then g[21] = second column'
    yield c
    on = np.empty(2, dtype=object)
    yield _reduce_case(ctx, [on, np.array([True, False])], ((1, False), (1, False)), 'any', 0, True, 0, idx2, col2, 'api:known-witness')
    t2 = [np.array([5, 2], dtype='timedelta64[D]'), np.array([3, 'NaT'], dtype='timedelta64[D]')]
    yield _parity_case(ctx, 'm', t2, ((1, False), (1, False)), 'mean', 0, True, idx2, col2)
    d2 = [np.array(['2020-01-05', 'NaT'], dtype='datetime64[D]'), np.array(['2020-02-01', '2019-01-01'], dtype='datetime64[D]')]
    yield _parity_case(ctx, 'M', d2, ((2, True),), 'min', 0, True, idx2, col2)


# ----------------------------------------------------------------------------- kernel level and Series level
def _ufuncs(fn, ddof):
    from functools import partial
    from static_frame.core import util as u
    return {
        'sum': (np.sum, np.nansum), 'prod': (np.prod, np.nanprod), 'min': (np.min, np.nanmin), 'max': (np.max, np.nanmax),
        'mean': (np.mean, np.nanmean), 'median': (np.median, np.nanmedian),
        'std': (partial(np.std, ddof=ddof), partial(np.nanstd, ddof=ddof)), 'var': (partial(np.var, ddof=ddof), partial(np.nanvar, ddof=ddof)),
        'all': (u.ufunc_all, u.ufunc_nanall), 'any': (u.ufunc_any, u.ufunc_nanany),
    }[fn]


def _dtypes_of(dsel):
    from static_frame.core import util as u
    return {'DsEmpty': u.EMPTY_TUPLE, 'DsBool': u.DTYPES_BOOL, 'DsInexact': u.DTYPES_INEXACT, 'DsFloat': (u.DTYPE_FLOAT_DEFAULT,)}[dsel]


def kernel_cases(ctx):
    """TypeBlocks.ufunc_axis_skipna called directly, with the flag combinations container.py never passes as well
    (composable on/off, size_one_unity on/off): the block algorithm itself against M"""
    from static_frame.core.type_blocks import TypeBlocks
    table = _table_or_demanded(os.environ.get('SF_REPO', '/repo'))
    rng = ctx.rng
    for _ in range(ctx.n(24, 150)):
        m = rng.randint(2, 5)
        kinds = [rng.choice('iiffggb') for _ in range(m)]
        if set(kinds) != {'b'} and 'b' in kinds and rng.random() < .7:
            kinds = [k if k != 'b' else 'i' for k in kinds]          # object rows are outside M: keep them rare
        r = rng.choice((1, 2, 3, 4, 5))
        cols = [_gen_col(rng, k, r) for k in kinds]
        layouts = [l for l in zoo.layouts_for([c.dtype for c in cols]) if len(l) > 1]
        if not layouts:
            continue
        layout = rng.choice(layouts)
        tb = TypeBlocks.from_blocks(zoo.blocks_from_columns(cols, layout))
        bl = _blocks_lit(cols, layout)
        ddof = rng.choice((0, 1))
        for fn in FUNCS:
            dsel = table[fn][2]
            uf, ufs = _ufuncs(fn, ddof)
            for composable in (True, False):
                for unity in (True, False):
                    if (unity and fn in ('std', 'var', 'all', 'any') and r == 1) or (composable and fn == 'std'):
                        continue        # the shortcut would store a non-result (only meaningful where container.py sets it)
                    for axis in (0, 1):
                        if axis == 0 and not composable:
                            continue    # composable is not read on axis 0
                        skipna = rng.random() < .5
                        got = _try(lambda: tb.ufunc_axis_skipna(skipna=skipna, axis=axis, ufunc=uf, ufunc_skipna=ufs,
                                                                composable=composable, dtypes=_dtypes_of(dsel), size_one_unity=unity))
                        if isinstance(got, Exception):
                            obs, seen = f'(Err {lit.s(lit.err_class(got))})', ('ERR', type(got).__name__)
                        else:
                            vals = lit.array_vals(np.asarray(got))
                            obs, seen = f'(Ok {_safe_vlist(vals)})', _j(vals)
                        fl = f'(mk_flags {lit.b(composable)} {lit.b(unity)} {dsel})'
                        ctx.count(f'kernel:fn:{fn}', f'kernel:composable:{composable}', f'kernel:unity:{unity}', f'axis:{axis}')
                        yield Case('kernel:TypeBlocks.ufunc_axis_skipna',
                                   {'call': 'TypeBlocks.ufunc_axis_skipna', 'fn': fn, 'axis': axis, 'skipna': skipna, 'ddof': ddof,
                                    'composable': composable, 'size_one_unity': unity, 'dtypes': dsel,
                                    'columns_data': [_j(c.tolist()) for c in cols], 'dtypes_cols': [str(c.dtype) for c in cols],
                                    'layout': zoo.layout_str(layout), 'observed': seen},
                                   m=f'check_K {fl} {COQ_F[fn]} {axis} {lit.b(skipna)} {lit.z(ddof)} {r}%nat {bl} {obs}',
                                   tags={'kernel': 'ufunc_axis_skipna', 'fn': fn, 'axis': axis},
                                   nontrivial=composable != table[fn][0] or unity != table[fn][1])


def series_cases(ctx):
    """the right-hand side of the property on its own: a column as a Series, every function, against the one-line specification"""
    import static_frame as sf
    rng = ctx.rng
    for _ in range(ctx.n(30, 400)):
        k = rng.choice('ifgb')
        r = rng.choice((0, 1, 2, 3, 4, 6, 8))
        c = _gen_col(rng, k, r)
        s = sf.Series(c, index=list(range(10, 10 + r)))
        ddof = rng.choice((0, 1, 2))
        skipna = rng.random() < .5
        for fn in FUNCS + ('iloc_min', 'iloc_max'):
            kw = {'skipna': skipna}
            if fn in ('std', 'var'):
                kw['ddof'] = ddof
            got = _try(lambda: getattr(s, fn)(**kw))
            if isinstance(got, Exception):
                obs, seen = f'(Err {lit.s(lit.err_class(got))})', ('ERR', type(got).__name__)
            else:
                try:
                    obs, seen = f'(Ok {lit.val(got)})', _j(got)
                except ValueError:
                    obs, seen = f'(Ok {lit.val("<unprintable>")})', repr(got)
            cells = lit.vlist(lit.array_vals(c))
            if fn.startswith('iloc'):
                term = f'check_series_arg {lit.b(fn == "iloc_min")} {lit.b(skipna)} {cells} {obs}'
            else:
                term = f'check_series {COQ_F[fn]} {lit.b(skipna)} {lit.z(ddof)} {cells} {obs}'
            tags = {'fn': fn, 'skipna': skipna, 'series': True}
            ctx.count(f'series:fn:{fn}', f'series:rows:{min(r, 5)}')
            yield Case('api:series-reduce', {'call': f'Series.{fn}({", ".join(f"{a}={b}" for a, b in kw.items())})',
                                             'values': _j(c.tolist()), 'dtype': str(c.dtype), 'observed': seen},
                       s=term, tags=tags, nontrivial=r > 1)


def index_cases(ctx):
    """Index reductions (index.py: the labels of a flat index reduced like one line): against the one-line specification"""
    import static_frame as sf
    rng = ctx.rng
    for _ in range(ctx.n(12, 120)):
        r = rng.choice((1, 2, 3, 4, 6))
        if rng.random() < .5:
            labels = rng.sample(range(-6, 9), r)
            c = np.array(labels, dtype=np.int64)
        else:
            labels = rng.sample([-2., -1., 0., .5, 1., 2., 3., 4.5], r)
            c = np.array(labels, dtype=np.float64)
        idx = (sf.IndexGO if rng.random() < .3 else sf.Index)(c)
        skipna = rng.random() < .5
        ddof = rng.choice((0, 1))
        for fn in FUNCS:
            kw = {'skipna': skipna}
            if fn in ('std', 'var'):
                kw['ddof'] = ddof
            got = _try(lambda: getattr(idx, fn)(**kw))
            if isinstance(got, Exception):
                obs, seen = f'(Err {lit.s(lit.err_class(got))})', ('ERR', type(got).__name__)
            else:
                try:
                    obs, seen = f'(Ok {lit.val(got)})', _j(got)
                except ValueError:
                    obs, seen = f'(Ok {lit.val("<unprintable>")})', repr(got)
            ctx.count(f'index:fn:{fn}')
            yield Case('api:index-reduce', {'call': f'{type(idx).__name__}.{fn}({", ".join(f"{a}={b}" for a, b in kw.items())})',
                                            'labels': _j(c.tolist()), 'dtype': str(c.dtype), 'observed': seen},
                       s=f'check_series {COQ_F[fn]} {lit.b(skipna)} {lit.z(ddof)} {lit.vlist(lit.array_vals(c))} {obs}',
                       tags={'fn': fn, 'skipna': skipna, 'index': True}, nontrivial=r > 1)


# ----------------------------------------------------------------------------- extension round: routes the coverage tool showed unreached
F_IH_DTYPE = 'C15-indexhierarchy-dtype-kwarg'


def _obs_array(got, two_d=False):
    if isinstance(got, Exception):
        return f'(Err {lit.s(lit.err_class(got))})', ('ERR', type(got).__name__)
    a = np.asarray(got)
    if two_d:
        return None, a
    vals = lit.array_vals(a)
    return f'(Ok {_safe_vlist(vals)})', _j(vals)


def hierarchy_cases(ctx):
    """IndexHierarchy / IndexHierarchyGO reductions (index_hierarchy.py:_ufunc_axis_skipna on the 2-D label array): axis 0 per
    depth, axis 1 per label; cumsum / cumprod through IndexBase._ufunc_shape_skipna"""
    import static_frame as sf
    rng = ctx.rng
    for trial in range(ctx.n(6, 40)):
        depth = rng.choice((2, 2, 3))
        r = rng.choice((1, 2, 3, 4))
        seen, rows = set(), []
        while len(rows) < r:
            t = tuple(rng.randint(-3, 4) for _ in range(depth))
            if t not in seen:
                seen.add(t)
                rows.append(t)
        rows.sort()                                     # tree order
        floaty = rng.random() < .4
        if floaty:
            rows = [t[:-1] + (t[-1] + .5,) for t in rows]
        cls = sf.IndexHierarchyGO if rng.random() < .3 else sf.IndexHierarchy
        ih = _try(lambda: cls.from_labels(rows))
        if isinstance(ih, Exception):
            continue
        cols = [np.array([t[d] for t in rows], dtype=(np.float64 if (floaty and d == depth - 1) else np.int64)) for d in range(depth)]
        bl = _blocks_lit(cols, tuple((1, False) for _ in cols))
        ddof = rng.choice((0, 1))
        for fn in FUNCS:
            for axis in (0, 1):
                skipna = rng.random() < .5
                kw = {'axis': axis, 'skipna': skipna}
                if fn in ('std', 'var'):
                    kw['ddof'] = ddof
                obs, seen_ = _obs_array(_try(lambda: getattr(ih, fn)(**kw)))
                tags = {'fn': fn, 'axis': axis, 'skipna': skipna, 'hierarchy': True}
                if fn in ('min', 'max', 'median', 'all', 'any'):
                    tags['finding'] = F_IH_DTYPE
                tags['outcome'] = _outcome(seen_)
                ctx.count(f'ih:fn:{fn}', f'ih:depth:{depth}', f'ih:class:{cls.__name__}')
                yield Case('api:indexhierarchy-reduce',
                           {'call': f'{cls.__name__}.from_labels(labels).{fn}({", ".join(f"{a}={b}" for a, b in kw.items())})',
                            'labels': _j([list(t) for t in rows]), 'observed': seen_},
                           s=f'res_match outs_match (S_frame {COQ_F[fn]} {axis} {lit.b(skipna)} {lit.z(ddof)} {r}%nat (frame_cells {bl})) {obs}',
                           tags=tags, nontrivial=r > 1)
        for fn in ('cumsum', 'cumprod'):
            for axis in (0, 1):
                skipna = rng.random() < .5
                got = _try(lambda: getattr(ih, fn)(axis=axis, skipna=skipna))
                if isinstance(got, Exception):
                    obs, seen_ = f'(Err {lit.s(lit.err_class(got))})', ('ERR', type(got).__name__)
                else:
                    a = np.asarray(got)
                    lines = [lit.array_vals(a[:, j]) for j in range(a.shape[1])] if axis == 0 else [lit.array_vals(a[i, :]) for i in range(a.shape[0])]
                    obs, seen_ = f'(Ok {lit.lst([lit.vlist(l) for l in lines])})', {'shape': list(a.shape), 'lines': _j(lines)}
                ctx.count(f'ih:fn:{fn}')
                yield Case('api:indexhierarchy-reduce',
                           {'call': f'{cls.__name__}.from_labels(labels).{fn}(axis={axis}, skipna={skipna})',
                            'labels': _j([list(t) for t in rows]), 'observed': seen_},
                           s=(f'match {obs} with Ok ls => list_match outs_match (S_cumframe {lit.b(fn == "cumprod")} {axis} {lit.b(skipna)} {r}%nat '
                              f'(frame_cells {bl})) ls | Err _ => false end'),
                           tags={'fn': fn, 'axis': axis, 'skipna': skipna, 'hierarchy': True}, nontrivial=r > 1)


def series_more_cases(ctx):
    """Series.cumsum / cumprod (series.py:_ufunc_shape_skipna), Series.loc_min / loc_max, Index.cumsum / cumprod"""
    import static_frame as sf
    rng = ctx.rng
    for _ in range(ctx.n(24, 200)):
        k = rng.choice('ifgb')
        r = rng.choice((0, 1, 2, 3, 4, 6))
        c = _gen_col(rng, k, r)
        labels = [f'r{i}' for i in range(r)] if rng.random() < .5 else list(range(10, 10 + r))
        s = sf.Series(c, index=labels, name='s')
        cells = lit.vlist(lit.array_vals(c))
        skipna = rng.random() < .5
        for fn in ('cumsum', 'cumprod'):
            got = _try(lambda: getattr(s, fn)(skipna=skipna))
            py_fail = None
            if isinstance(got, Exception):
                obs, seen = f'(Err {lit.s(lit.err_class(got))})', ('ERR', type(got).__name__)
            else:
                vals = lit.array_vals(got.values)
                obs, seen = f'(Ok {_safe_vlist(vals)})', _j(vals)
                if lit.labels(got.index) != labels:
                    py_fail = f'labels {lit.labels(got.index)}, expected {labels}'
            ctx.count(f'series:fn:{fn}')
            yield Case('api:series-cumulative', {'call': f'Series.{fn}(skipna={skipna})', 'values': _j(c.tolist()), 'dtype': str(c.dtype),
                                                 'index': labels, 'observed': seen},
                       s=f'match {obs} with Ok vs => outs_match (S_cumline {lit.b(fn == "cumprod")} {lit.b(skipna)} (map cell_of {cells})) vs | Err _ => false end',
                       py_fail=py_fail, tags={'fn': fn, 'skipna': skipna, 'series': True}, nontrivial=r > 1)
        for fn in ('loc_min', 'loc_max'):
            got = _try(lambda: getattr(s, fn)(skipna=skipna))
            if isinstance(got, Exception):
                obs, seen = f'(Err {lit.s(lit.err_class(got))})', ('ERR', type(got).__name__)
            else:
                obs, seen = f'(Ok {lit.val(got)})', _j(got)
            ctx.count(f'series:fn:{fn}')
            yield Case('api:series-loc-minmax', {'call': f'Series.{fn}(skipna={skipna})', 'values': _j(c.tolist()), 'dtype': str(c.dtype),
                                                 'index': labels, 'observed': seen},
                       s=(f'res_match py_val_eq (match S_argline {lit.b(fn == "loc_min")} {lit.b(skipna)} (map cell_of {cells}) with '
                          f'Ok o => loc_of {lit.vlist(labels)} o | Err e => Err e end) {obs}'),
                       tags={'fn': fn, 'skipna': skipna, 'series': True}, nontrivial=r > 1)
    for _ in range(ctx.n(6, 40)):
        r = rng.choice((1, 2, 3, 5))
        c = np.array(rng.sample(range(-6, 9), r), dtype=np.int64)
        idx = (sf.IndexGO if rng.random() < .3 else sf.Index)(c)
        for fn in ('cumsum', 'cumprod'):
            skipna = rng.random() < .5
            got = _try(lambda: getattr(idx, fn)(skipna=skipna))
            if isinstance(got, Exception):
                obs, seen = f'(Err {lit.s(lit.err_class(got))})', ('ERR', type(got).__name__)
            else:
                vals = lit.array_vals(np.asarray(got))
                obs, seen = f'(Ok {_safe_vlist(vals)})', _j(vals)
            ctx.count(f'index:fn:{fn}')
            yield Case('api:series-cumulative', {'call': f'{type(idx).__name__}.{fn}(skipna={skipna})', 'labels': _j(c.tolist()), 'observed': seen},
                       s=f'match {obs} with Ok vs => outs_match (S_cumline {lit.b(fn == "cumprod")} {lit.b(skipna)} (map cell_of {lit.vlist(lit.array_vals(c))})) vs | Err _ => false end',
                       tags={'fn': fn, 'skipna': skipna, 'index': True}, nontrivial=r > 1)


def _obj_col(rng, r):
    a = np.empty(r, dtype=object)
    a[:] = [rng.choice([None, np.nan, 0, 2, 1.5, 0.0, True, False]) for _ in range(r)]
    return a


def object_logical_cases(ctx):
    """object-dtype columns (Python ints / floats / bools, None and NaN as missing) under all / any: the object branch of
    util._ufunc_logical_skipna (fill under skipna, TypeError without), 1-D and 2-D blocks, next to bool / int / float blocks"""
    rng = ctx.rng
    for _ in range(ctx.n(14, 120)):
        m = rng.randint(1, 4)
        kinds = [rng.choice('ooofbi') for _ in range(m)]
        if 'o' not in kinds:
            kinds[0] = 'o'
        r = rng.choice((1, 2, 3, 4))
        cols = [_obj_col(rng, r) if k == 'o' else _gen_col(rng, k, r) for k in kinds]
        index, columns = _labels(None, r, m)
        layout = rng.choice(list(zoo.layouts_for([c.dtype for c in cols])))
        for fn in ('all', 'any'):
            for axis in (0, 1):
                for skipna in (True, False):
                    yield _reduce_case(ctx, cols, layout, fn, axis, skipna, 0, index, columns, 'api:reduce-object-logical')


F_OBJ_NONE = 'C15-object-none-noskip'
F_LOC_HIER = 'C15-loc-minmax-hierarchical-labels'
F_GO_OBJ = 'C15-framego-append-object-rows'


def object_numeric_cases(ctx):
    """object-dtype columns holding numbers, None and NaN under sum / prod / min / max: the None handling of
    util.ufunc_axis_skipna (1-D: drop, 2-D: replace by NaN); without skipna a None must propagate as missing"""
    rng = ctx.rng
    for _ in range(ctx.n(10, 80)):
        m = rng.randint(1, 3)
        kinds = [rng.choice('oooi') for _ in range(m)]
        if 'o' not in kinds:
            kinds[0] = 'o'
        r = rng.choice((2, 3, 4))
        cols = [_obj_col(rng, r) if k == 'o' else _gen_col(rng, k, r) for k in kinds]
        index, columns = _labels(None, r, m)
        layout = rng.choice(list(zoo.layouts_for([c.dtype for c in cols])))
        has_none = any(x is None for c in cols for x in c.tolist())
        for fn in ('sum', 'prod', 'min', 'max'):
            for axis in (0, 1):
                for skipna in (True, False):
                    c = _reduce_case(ctx, cols, layout, fn, axis, skipna, 0, index, columns, 'api:reduce-object-columns')
                    if not skipna and has_none and 'finding' not in c.tags:
                        c.tags['finding'] = F_OBJ_NONE
                    yield c


def hierarchical_label_cases(ctx):
    """Frames whose index and / or columns are an IndexHierarchy: labels of the result, loc_min / loc_max returning
    hierarchical labels"""
    rng = ctx.rng
    for _ in range(ctx.n(6, 40)):
        m, r = rng.randint(2, 3), rng.randint(2, 4)
        kinds = [rng.choice('ifg') for _ in range(m)]
        cols = [_gen_col(rng, k, r) for k in kinds]
        layout = rng.choice(list(zoo.layouts_for([c.dtype for c in cols])))
        hi, hc = rng.choice(((True, False), (False, True), (True, True)))
        index = sorted((('a', 'b')[i * 2 // r], i) for i in range(r)) if hi else list(range(10, 10 + r))
        columns = sorted((('x', 'y')[j * 2 // m], j) for j in range(m)) if hc else list(range(20, 20 + m))
        for fn in ('sum', 'min', 'all'):
            for axis in (0, 1):
                yield _reduce_case(ctx, cols, layout, fn, axis, True, 0, index, columns, 'api:hierarchical-labels')
        for fn in ('iloc_min', 'loc_min', 'loc_max'):
            for axis in (0, 1):
                c = _arg_case(ctx, cols, layout, fn, axis, True, index, columns, 'api:hierarchical-labels')
                if fn.startswith('loc') and ((axis == 0 and hi) or (axis == 1 and hc)) and 'finding' not in c.tags:
                    c.tags['finding'] = F_LOC_HIER
                yield c


def framego_grown_cases(ctx):
    """a FrameGO grown column by column (blocks appended after construction), then reduced"""
    import static_frame as sf
    rng = ctx.rng
    for _ in range(ctx.n(6, 40)):
        m, r = rng.randint(2, 4), rng.randint(2, 4)
        kinds = [rng.choice('ifgb') for _ in range(m)]
        cols = [_gen_col(rng, k, r) for k in kinds]
        k0 = rng.randint(1, m - 1)
        lay0 = rng.choice(list(zoo.layouts_for([c.dtype for c in cols[:k0]])))
        layout = tuple(lay0) + tuple((1, False) for _ in range(m - k0))
        index, columns = _labels(None, r, m)

        def build():
            g = zoo.frame_from_columns(cols[:k0], lay0, index=index, columns=columns[:k0], cls=sf.FrameGO)
            for j in range(k0, m):
                g[columns[j]] = cols[j]
            return g
        # TypeBlocks.append: a block whose dtype differs from the current row dtype makes the row dtype object
        rd = np.result_type(*[c.dtype for c in cols[:k0]]) if _row_kind(cols[:k0]) != 'O' else np.dtype(object)
        for c in cols[k0:]:
            if c.dtype != rd:
                rd = np.dtype(object)
        became_object = rd == np.dtype(object) and _row_kind(cols) != 'O'
        for fn in ('sum', 'min', 'max', 'mean', 'any'):
            for axis in (0, 1):
                skipna = rng.random() < .5
                c = _reduce_case(ctx, cols, layout, fn, axis, skipna, 0, index, columns, 'api:framego-grown', build=build)
                if became_object and 'finding' not in c.tags and (fn in ('min', 'max') or (axis == 1 and fn == 'mean')):
                    c.tags['finding'] = F_GO_OBJ
                c.desc['build'] = f'FrameGO of the first {k0} column(s) in the first blocks of the layout, then g[label] = column for each remaining column'
                yield c


def cases(ctx):
    yield from known_witnesses(ctx)
    yield from api_all_layouts(ctx)
    yield from api_narrow_layouts(ctx)
    yield from api_ddof_grid(ctx)
    yield from api_small_axes(ctx)
    yield from api_parity_ext(ctx)
    yield from api_malformed(ctx)
    yield from kernel_cases(ctx)
    yield from series_cases(ctx)
    yield from index_cases(ctx)
    yield from hierarchy_cases(ctx)
    yield from series_more_cases(ctx)
    yield from object_logical_cases(ctx)
    yield from object_numeric_cases(ctx)
    yield from hierarchical_label_cases(ctx)
    yield from framego_grown_cases(ctx)
    yield from api_numeric(ctx)
