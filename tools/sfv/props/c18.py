'''C18 -- parallel execution gives the same answer as sequential execution.

Every pool run of the enforced strata is driven through REAL concurrent.futures pools under an ENFORCED completion
schedule: each future blocks on an event that is released by its predecessor in the chosen completion order, so
all k-feasible completion permutations of the futures are enumerated (not hoped for); the achieved order is read
back and checked.  The observed container is compared, inside Coq, with the implementation model M (SF/Pool.v,
SF/PoolStore.v: executor machine + static-frame's key/zip logic, evaluated on the same items, worker count, chunk
size and schedule) and with the sequential specification S.
'''
import ast
import multiprocessing
import os
import shutil
import tempfile
import threading
import time
import zipfile

import numpy as np

from .. import lit
from ..core import Case, MachineryError

ID = 'C18'
MANIFEST = {
    'text': ('Coq theorems (unbounded, closed under the global context). Oracle level: C18_exec_map_eq_seq -- an executable machine for the Executor.map contract '
             '(FIFO start, at most k running, ANY completion order pi, process-pool chunks of size c, results in submission order, first exception re-raised) returns the '
             'sequential list comprehension for every pi, k>=1, c>=1, thread and process pools. static-frame level: C18_pool_eq_sequential, C18_keys_aligned, '
             'C18_failure_surfaces -- apply_pool (keys recorded by side effect while the arguments are generated, zip(keys, map(...)), VALUES and ITEMS shapes) equals apply: '
             'same labels, same order, result i is f(input i) next to label i; any failing task makes the call an error (the first one in input order), never a shorter or '
             'shifted result; C18_lazy_map_would_lose_everything -- the eager-consumption clause of the contract is necessary; C18_batch_pool_eq_sequential, '
             'C18_batch_except_eq_sequential, C18_except_skips_exactly_failing, C18_except_unlisted_surfaces -- Batch with max_workers; C18_store_write_parallel_eq_serial, '
             'C18_store_read_parallel_eq_serial, C18_store_read_parallel_agrees, C18_store_roundtrip_parallel -- zipped stores with read/write workers, over the `multiprocess` '
             'decisions REGENERATED from store_zip.py; C18_config_map_worker_settings_uniform, C18_config_map_rejects_misaligned -- StoreConfigMap, over the regenerated '
             '_ALIGN_WITH_DEFAULT_ATTRS and pool-argument names; C18_pool_eq_sequential_source_shapes -- over the argument shapes of arg_gen() / apply_iter_items regenerated from '
             'node_iter.py. Refuted/C18.v: witnesses of the three known findings. '
             'Correspondence: public API through real Thread/ProcessPoolExecutors under ENFORCED completion schedules (every k-feasible permutation of the futures for small n), '
             'max_workers 1..8, chunksize 1..n+1, every iterator interface (elements, arrays, Series, tuples, groups, group labels, windows, hierarchical labels, Bus; values and '
             'items forms), Batch apply/apply_items/*_except, zipped TSV stores (read_many/write, hooks through a Frame subclass run inside the workers), failing tasks at every '
             'position; free-running stream with duplicated arguments and max_workers=None; malformed stream (max_workers<=0, chunksize<1); StoreConfigMap decision table.'),
    'note': ('partial: the contract of concurrent.futures (eager consumption of the argument iterable, FIFO start, results in submission order, first exception '
             're-raised) is an ORACLE: modelled executably, validated each run against real pools under enforced schedules (a disagreement is a machinery error), not '
             'proved from CPython; pickling between processes, the GIL and interleavings inside concurrent.futures are assumed. Batch attribute/operator forms and Bus/Batch '
             'zipped-store round trips (tsv, csv, pickle) are compared parallel-vs-sequential on the Python side only; the per-frame codecs are abstract in the theorems. '
             'Known findings (explicit errors, not silent wrong answers): *_except forms refuse chunksize != 1; Frame.iter_tuple default namedtuples cannot be pickled to a '
             'process pool; reflected arithmetic operators on a process-pool Batch (local lambda). Python-side only (no Coq model): apply_pool(mapping) error class beyond '
             'KeyError, every Batch attribute/selector/operator/exporter route, Bus over a zipped store with read workers (max_persist None / 1 / batches, selections, label '
             'encoders; S evaluated on names and ids), FrameGO/FrameHE pickle conversion. NOT covered: Quilt iterators; map_any/map_fill (no pool form); parquet/xlsx/sqlite/hdf5 '
             'stores (no pyarrow / no worker path); Bus LRU bookkeeping under max_persist (C17); schedules after a fatal failure; more than one unpicklable task on a process '
             'pool (CPython 3.12.1 can deadlock at shutdown). trusted: Coq kernel, hand models SF/Pool.v SF/PoolStore.v, ast extractor generate(), harness.'),
    'technique': 'refinement proof M=S for all schedules + generated decisions + schedule-enforced differential correspondence',
}
PROPERTY_FILES = ['Properties/C18.v', 'Properties/C18Store.v']
REFUTED_FILES = ['Refuted/C18.v']
MODEL_FILES = ['SF/Pool.v', 'SF/PoolStore.v', 'SF/PoolVal.v']
IMPORTS = 'Require Import SF.Prelude SF.Value SF.Pool SF.PoolStore SF.PoolVal.'
RULE = ('a case = (iterator interface / Batch operation / zipped-store call, container with n tasks of pairwise distinct arguments, pool kind, max_workers k, chunksize c, '
        'completion permutation pi of the futures, table of failing tasks); for small n EVERY k-feasible pi (pi[j] < k+j) is enforced with events for k in 1..8 and c in 1..n+1 '
        '(threads ignore chunksize: c is sampled there); non-trivial = at least 2 futures or a failing task or a malformed argument; distinct = distinct (operation, container, k, c, pi, fails)')
ASSUMPTIONS = [
    'ORACLE concurrent.futures.Executor.map: consumes its argument iterable eagerly at the call; starts futures in submission order with at most max_workers running; '
    'yields results in submission order; re-raises the exception of the first failed future when its position is reached (validated each run: stratum oracle:*)',
    'ProcessPoolExecutor chunking = consecutive slices of `chunksize` items, items of a chunk evaluated left to right (concurrent.futures.process._get_chunks/_process_chunk); '
    'ThreadPoolExecutor.map ignores chunksize',
    'pickling of arguments/results between processes is faithful; the GIL and interleavings inside concurrent.futures do not change delivered results',
    'the worker function is pure apart from the scheduling events (f(arg) depends on arg only)',
    'ITEMS iterators: apply() calls func(key, value), apply_pool() calls func((key, value)) -- one calling convention per form, modelled as the same argument pair',
    'zipped stores: the per-frame codec (to_tsv/from_tsv, pickle) is abstract in the theorems (C16/C17 own it); member order of the archive = write order',
]
TRUSTED = ['schedule enforcement in tools/sfv/props/c18.py (events released in completion order; the achieved order is read back and checked)',
           'generate(): ast extraction of StoreConfigMap._ALIGN_WITH_DEFAULT_ATTRS + its alignment loop, the `multiprocess` decisions and pool arguments of '
           '_StoreZip.read_many/write, the chunksize guard of Batch._apply_pool_except (fails closed on any other shape of the source)']
EXHAUSTIVE = {'quick': False, 'thorough': False}

WAIT_TIMEOUT = 45.0


FINDING_EXCEPT_CHUNK = 'C18-except-chunksize'
FINDING_NAMEDTUPLE = 'C18-namedtuple-pickle'
FINDING_REFLECTED = 'C18-batch-reflected-pickle'
_STATS = {'enforced': 0, 'timeout': 0, 'mismatch': 0}


class ScheduleTimeout(Exception):
    '''An enforced schedule was not achieved in time (wall clock): machinery trouble, never a violation.'''


def retrying(fn, tries=3):
    '''Run fn() (which arms a schedule, drives a real pool and checks the achieved order).  A wall-clock timeout on a
    loaded machine is retried with a fresh pool.  A run whose completion order still is not the enforced one is NOT
    discarded: its result must equal the sequential one under any order, so it is compared like every other run; it is
    counted, and cases() reports a machinery failure at the end when that happens without any violation explaining it
    (an implementation that stopped using the pool the way the schedule assumes shows up as violations instead).'''
    global WAIT_TIMEOUT
    if _STATS['timeout']:
        tries = 1               # it already happened in this run: do not spend minutes on every further schedule
    for i in range(tries):
        try:
            out = fn()
            _STATS['enforced'] += 1
            return out
        except ScheduleTimeout as e:
            if i == tries - 1:
                _STATS['enforced'] += 1
                _STATS['timeout'] += 1
                WAIT_TIMEOUT = 4.0
                return e.args[1]
            time.sleep(0.5)


# ------------------------------------------------------------------------------------------ generated constants
_CORE = 'static_frame/core'


def _parse(repo, rel):
    with open(os.path.join(repo, rel)) as f:
        return ast.parse(f.read())


def _class(mod, name):
    for node in mod.body:
        if isinstance(node, ast.ClassDef) and node.name == name:
            return node
    raise ValueError(f'class {name} not found')


def _method(cls, name):
    for node in cls.body:
        if isinstance(node, ast.FunctionDef) and node.name == name:
            return node
    raise ValueError(f'method {cls.name}.{name} not found')


def _default_attr(node):
    '''config_map.default.<attr> -> attr'''
    if (isinstance(node, ast.Attribute) and isinstance(node.value, ast.Attribute) and node.value.attr == 'default'
            and isinstance(node.value.value, ast.Name) and node.value.value.id == 'config_map'):
        return node.attr
    raise ValueError(f'expected config_map.default.<attr>, got {ast.dump(node)[:120]}')


def _decision(expr, attrs):
    '''Boolean expression over ONE config_map.default.<attr> (an Optional[int]) -> Gallina bool over `w : option Z`.'''
    if isinstance(expr, ast.BoolOp):
        op = 'andb' if isinstance(expr.op, ast.And) else 'orb'
        parts = [_decision(v, attrs) for v in expr.values]
        out = parts[0]
        for p in parts[1:]:
            out = f'({op} {out} {p})'
        return out
    if isinstance(expr, ast.UnaryOp) and isinstance(expr.op, ast.Not):
        return f'(negb {_decision(expr.operand, attrs)})'
    if isinstance(expr, ast.Compare) and len(expr.ops) == 1:
        attrs.append(_default_attr(expr.left))
        op, right = expr.ops[0], expr.comparators[0]
        if isinstance(right, ast.Constant) and right.value is None:
            if isinstance(op, ast.IsNot):
                return '(match w with Some _ => true | None => false end)'
            if isinstance(op, ast.Is):
                return '(match w with Some _ => false | None => true end)'
        if isinstance(right, ast.Constant) and type(right.value) is int:
            sym = {ast.Gt: '>?', ast.GtE: '>=?', ast.Lt: '<?', ast.LtE: '<=?', ast.Eq: '=?'}.get(type(op))
            if sym:
                v = right.value
                num = f'({v})' if v < 0 else str(v)
                # Python evaluates this comparison only when an `is not None` guard let it through
                return f'(match w with Some k => k {sym} {num} | None => false end)'
    raise ValueError(f'unsupported decision expression {ast.dump(expr)[:160]}')


def _assigned(fn, name):
    for node in ast.walk(fn):
        if isinstance(node, ast.AnnAssign) and isinstance(node.target, ast.Name) and node.target.id == name and node.value is not None:
            return node.value
        if isinstance(node, ast.Assign) and len(node.targets) == 1 and isinstance(node.targets[0], ast.Name) and node.targets[0].id == name:
            return node.value
    raise ValueError(f'{fn.name}: no assignment to {name}')


def _pool_attrs(fn, what):
    '''ProcessPoolExecutor(max_workers=config_map.default.X) ... executor.map(_, _, chunksize=<config_map.default.Y or a name bound to it>)'''
    workers = chunk = None
    for node in ast.walk(fn):
        if isinstance(node, ast.Call) and isinstance(node.func, ast.Name) and node.func.id == 'ProcessPoolExecutor':
            kws = {k.arg: k.value for k in node.keywords}
            if set(kws) != {'max_workers'} or node.args:
                raise ValueError(f'{what}: unexpected ProcessPoolExecutor arguments')
            workers = _default_attr(kws['max_workers'])
        if isinstance(node, ast.Call) and isinstance(node.func, ast.Attribute) and node.func.attr == 'map' \
                and isinstance(node.func.value, ast.Name) and node.func.value.id == 'executor':
            kws = {k.arg: k.value for k in node.keywords}
            if set(kws) != {'chunksize'} or len(node.args) != 2:
                raise ValueError(f'{what}: unexpected executor.map arguments')
            v = kws['chunksize']
            if isinstance(v, ast.Name):
                v = _assigned(fn, v.id)
            chunk = _default_attr(v)
    if workers is None or chunk is None:
        raise ValueError(f'{what}: pool construction / map call not found')
    return [workers, chunk]


def _strs(xs):
    return '[' + '; '.join('"%s"' % x for x in xs) + ']'


def _shape_of(args, kname, vname, what):
    names = []
    for a in args:
        if not isinstance(a, ast.Name) or a.id not in (kname, vname):
            raise ValueError(f'{what}: argument is not the key or the value variable')
        names.append('k' if a.id == kname else 'v')
    code = {('v',): 'ShV', ('k',): 'ShK', ('k', 'v'): 'ShKV', ('v', 'k'): 'ShVK'}.get(tuple(names))
    if code is None:
        raise ValueError(f'{what}: unsupported argument shape {names}')
    return code


def _arg_shapes(repo):
    '''What the applied function receives: pooled form = what arg_gen() yields (node_iter.py:112-121), sequential form = the call in
    apply_iter_items (node_iter.py:299-302); for the VALUES and the ITEMS yield type.  Fails closed on any other shape of the source.'''
    ni = _parse(repo, f'{_CORE}/node_iter.py')
    cls = _class(ni, 'IterNodeDelegate')
    par = _method(cls, '_apply_iter_items_parallel')
    branch = None
    for node in par.body:
        if isinstance(node, ast.If) and isinstance(node.test, ast.Name) and node.test.id == 'yt_is_values':
            branch = node
    if branch is None:
        raise ValueError('_apply_iter_items_parallel: `if yt_is_values:` not found')

    def gen_shape(stmts, what):
        fns = [n for n in stmts if isinstance(n, ast.FunctionDef) and n.name == 'arg_gen']
        if len(fns) != 1 or len(fns[0].body) != 1 or not isinstance(fns[0].body[0], ast.For):
            raise ValueError(f'{what}: arg_gen is not a single for loop')
        loop = fns[0].body[0]
        if not (isinstance(loop.target, ast.Tuple) and len(loop.target.elts) == 2 and all(isinstance(e, ast.Name) for e in loop.target.elts)):
            raise ValueError(f'{what}: loop target is not (key, value)')
        kname, vname = loop.target.elts[0].id, loop.target.elts[1].id
        if not (isinstance(loop.iter, ast.Call) and isinstance(loop.iter.func, ast.Attribute) and loop.iter.func.attr == '_func_items'):
            raise ValueError(f'{what}: does not iterate self._func_items()')
        if len(loop.body) != 2 or loop.orelse:
            raise ValueError(f'{what}: loop body is not [record key; yield argument]')
        rec, yld = loop.body
        if not (isinstance(rec, ast.Expr) and isinstance(rec.value, ast.Call) and isinstance(rec.value.func, ast.Attribute) and rec.value.func.attr == 'append'
                and isinstance(rec.value.func.value, ast.Name) and rec.value.func.value.id == 'func_keys'
                and len(rec.value.args) == 1 and isinstance(rec.value.args[0], ast.Name) and rec.value.args[0].id == kname):
            raise ValueError(f'{what}: the key is not appended to func_keys unconditionally')
        if not (isinstance(yld, ast.Expr) and isinstance(yld.value, ast.Yield) and yld.value.value is not None):
            raise ValueError(f'{what}: no unconditional yield')
        val = yld.value.value
        return _shape_of(val.elts if isinstance(val, ast.Tuple) else [val], kname, vname, what)
    pool_v = gen_shape(branch.body, 'arg_gen (VALUES)')
    pool_i = gen_shape(branch.orelse, 'arg_gen (ITEMS)')
    # zip(func_keys, executor.map(func, arg_gen(), chunksize=chunksize))
    ok = False
    for node in ast.walk(par):
        if isinstance(node, ast.Call) and isinstance(node.func, ast.Name) and node.func.id == 'zip' and len(node.args) == 2:
            a0, a1 = node.args
            if (isinstance(a0, ast.Name) and a0.id == 'func_keys' and isinstance(a1, ast.Call) and isinstance(a1.func, ast.Attribute) and a1.func.attr == 'map'
                    and len(a1.args) == 2 and isinstance(a1.args[0], ast.Name) and a1.args[0].id == 'func'
                    and isinstance(a1.args[1], ast.Call) and isinstance(a1.args[1].func, ast.Name) and a1.args[1].func.id == 'arg_gen'):
                ok = True
    if not ok:
        raise ValueError('_apply_iter_items_parallel: `zip(func_keys, executor.map(func, arg_gen(), ...))` not found')
    seq = _method(cls, 'apply_iter_items')
    sbranch = [n for n in seq.body if isinstance(n, ast.If)]
    if len(sbranch) != 1:
        raise ValueError('apply_iter_items: single if/else on the yield type not found')
    t = sbranch[0].test
    if not (isinstance(t, ast.Compare) and isinstance(t.ops[0], ast.Is) and isinstance(t.comparators[0], ast.Attribute) and t.comparators[0].attr == 'VALUES'):
        raise ValueError('apply_iter_items: test is not `self._yield_type is IterNodeType.VALUES`')

    def seq_shape(stmts, what):
        if len(stmts) != 1 or not (isinstance(stmts[0], ast.Expr) and isinstance(stmts[0].value, ast.YieldFrom) and isinstance(stmts[0].value.value, ast.GeneratorExp)):
            raise ValueError(f'{what}: not `yield from (generator expression)`')
        ge = stmts[0].value.value
        comp = ge.generators[0]
        if len(ge.generators) != 1 or comp.ifs or not (isinstance(comp.target, ast.Tuple) and len(comp.target.elts) == 2):
            raise ValueError(f'{what}: generator is not `for k, v in ...` without condition')
        kname, vname = comp.target.elts[0].id, comp.target.elts[1].id
        if not (isinstance(ge.elt, ast.Tuple) and len(ge.elt.elts) == 2 and isinstance(ge.elt.elts[0], ast.Name) and ge.elt.elts[0].id == kname
                and isinstance(ge.elt.elts[1], ast.Call) and isinstance(ge.elt.elts[1].func, ast.Name) and ge.elt.elts[1].func.id == 'func' and not ge.elt.elts[1].keywords):
            raise ValueError(f'{what}: element is not (k, func(...))')
        return _shape_of(ge.elt.elts[1].args, kname, vname, what)
    return pool_v, pool_i, seq_shape(sbranch[0].body, 'apply_iter_items (VALUES)'), seq_shape(sbranch[0].orelse, 'apply_iter_items (ITEMS)')


def generate(repo):
    st = _parse(repo, f'{_CORE}/store.py')
    sz = _parse(repo, f'{_CORE}/store_zip.py')
    ba = _parse(repo, f'{_CORE}/batch.py')
    scm = _class(st, 'StoreConfigMap')
    align = None
    for node in scm.body:
        if isinstance(node, ast.Assign) and len(node.targets) == 1 and isinstance(node.targets[0], ast.Name) \
                and node.targets[0].id == '_ALIGN_WITH_DEFAULT_ATTRS':
            if not isinstance(node.value, ast.Tuple) or not all(isinstance(e, ast.Constant) and isinstance(e.value, str) for e in node.value.elts):
                raise ValueError('_ALIGN_WITH_DEFAULT_ATTRS is not a tuple of string constants')
            align = [e.value for e in node.value.elts]
    if align is None:
        raise ValueError('StoreConfigMap._ALIGN_WITH_DEFAULT_ATTRS not found')
    init = _method(scm, '__init__')
    found = False
    for node in ast.walk(init):
        if isinstance(node, ast.For) and isinstance(node.iter, ast.Attribute) and node.iter.attr == '_ALIGN_WITH_DEFAULT_ATTRS':
            body = node.body
            if (len(body) == 1 and isinstance(body[0], ast.If) and isinstance(body[0].test, ast.Compare)
                    and isinstance(body[0].test.ops[0], ast.NotEq) and isinstance(body[0].body[0], ast.Raise)):
                found = True
    if not found:
        raise ValueError('StoreConfigMap.__init__ no longer has the loop `for attr in _ALIGN_WITH_DEFAULT_ATTRS: if getattr(config, attr) != getattr(default, attr): raise`')
    zs = _class(sz, '_StoreZip')
    rm, wr = _method(zs, 'read_many'), _method(zs, 'write')
    ra, wa = [], []
    rdec = _decision(_assigned(rm, 'multiprocess'), ra)
    wdec = _decision(_assigned(wr, 'multiprocess'), wa)
    if len(set(ra)) != 1 or len(set(wa)) != 1:
        raise ValueError('multiprocess decision reads more than one config attribute')
    rpool, wpool = _pool_attrs(rm, 'read_many'), _pool_attrs(wr, 'write')
    if ra[0] != rpool[0] or wa[0] != wpool[0]:
        raise ValueError('multiprocess decision and pool size read different config attributes')
    shapes = _arg_shapes(repo)
    exc = _method(_class(ba, 'Batch'), '_apply_pool_except')
    accepted = None
    for node in exc.body:
        if isinstance(node, ast.If) and isinstance(node.test, ast.Compare) and isinstance(node.test.ops[0], ast.NotEq) \
                and isinstance(node.test.left, ast.Attribute) and node.test.left.attr == '_chunksize' \
                and isinstance(node.test.comparators[0], ast.Constant) and type(node.test.comparators[0].value) is int \
                and isinstance(node.body[0], ast.Raise):
            accepted = node.test.comparators[0].value
    if accepted is None:
        raise ValueError('Batch._apply_pool_except: chunksize guard not found')
    lines = [
        '(* GENERATED on every run by tools/sfv/props/c18.py:generate from static_frame/core/{store,store_zip,batch,node_iter}.py -- do not edit. *)',
        'Require Import SF.Prelude.',
        'Local Open Scope string_scope.',
        '',
        '(* store.py: StoreConfigMap._ALIGN_WITH_DEFAULT_ATTRS (checked attribute-wise against the default in __init__) *)',
        f'Definition c18_align_with_default_attrs : list string := {_strs(align)}.',
        '',
        f'(* store_zip.py: _StoreZip.read_many: multiprocess = <expr over config_map.default.{ra[0]}> *)',
        f'Definition c18_read_multiprocess (w : option Z) : bool := {rdec}.',
        f'(* store_zip.py: _StoreZip.write: multiprocess = <expr over config_map.default.{wa[0]}> *)',
        f'Definition c18_write_multiprocess (w : option Z) : bool := {wdec}.',
        '',
        '(* attributes of config_map.default handed to ProcessPoolExecutor(max_workers=...) and executor.map(chunksize=...) *)',
        f'Definition c18_read_pool_attrs : list string := {_strs(rpool)}.',
        f'Definition c18_write_pool_attrs : list string := {_strs(wpool)}.',
        '',
        '(* batch.py: Batch._apply_pool_except raises NotImplementedError unless chunksize equals this *)',
        f'Definition c18_except_chunksize : Z := {accepted}.',
        '',
        '(* node_iter.py: what the applied function receives per (key, value) item: k = key, v = value, in positional order.',
        '   pooled = what arg_gen() yields in _apply_iter_items_parallel (the key is appended to func_keys unconditionally and the result is',
        '   zip(func_keys, executor.map(func, arg_gen(), ...))); sequential = the call in apply_iter_items *)',
        'Inductive c18_shape := ShV | ShK | ShKV | ShVK.',
        f'Definition c18_pool_shape (items_form : bool) : c18_shape := if items_form then {shapes[1]} else {shapes[0]}.',
        f'Definition c18_seq_shape (items_form : bool) : c18_shape := if items_form then {shapes[3]} else {shapes[2]}.',
    ]
    return {'Gen/Gen_c18.v': '\n'.join(lines) + '\n'}


# ------------------------------------------------------------------------------------------ canon / digest
DMOD = 65521


def canon(a):
    '''Argument of a task -> nested tuples of int/bool/str/float/None (what lit.val prints).'''
    import static_frame as sf
    if isinstance(a, sf.Series):
        return ('S', tuple(canon(x) for x in lit.labels(a.index)), tuple(canon(x) for x in a.values.tolist()))
    if isinstance(a, sf.Frame):
        return ('F', tuple(canon(x) for x in lit.labels(a.index)), tuple(canon(x) for x in lit.labels(a.columns)),
                tuple(tuple(canon(x) for x in row) for row in a.values.tolist()))
    if isinstance(a, np.ndarray):
        return tuple(canon(x) for x in a.tolist())
    if isinstance(a, (tuple, list)):
        return tuple(canon(x) for x in a)
    if isinstance(a, np.generic):
        return canon(a.item())
    if a is None or isinstance(a, (bool, int, str)):
        return a
    if isinstance(a, float):
        if a in (float('inf'), float('-inf')):
            raise ValueError('infinite float outside the digest model')
        return a            # NaN is a legal cell: digest 5 (the catch-all of SF/PoolVal.v:digest)
    raise ValueError(f'no canonical form for {type(a).__name__}')


def digest(c):
    '''Python twin of SF/PoolVal.v:digest on canonical values.'''
    if c is None:
        return 3
    if isinstance(c, bool):
        return 1 if c else 0
    if isinstance(c, int):
        return c % DMOD
    if isinstance(c, str):
        acc = 11
        for ch in c:
            acc = (acc * 31 + ord(ch)) % DMOD
        return acc
    if isinstance(c, float):
        if c != c:
            return 5
        n, d = c.as_integer_ratio()
        return (n * 7 + d) % DMOD
    acc = 17
    for x in c:
        acc = (acc * 131 + digest(x) + 7) % DMOD
    return acc


EXC = {'ValueError': ValueError, 'KeyError': KeyError, 'ZeroDivisionError': ZeroDivisionError, 'TypeError': TypeError}


def err_name(e):
    return type(e).__name__


def seq_task(fails, *a):
    '''The task function without scheduling (sequential reference form).'''
    arg = a[0] if len(a) == 1 else tuple(a)
    d = digest(canon(arg))
    if d in fails:
        raise EXC[fails[d]]('task failed')
    return 3 * d + 1


# ------------------------------------------------------------------------------------------ schedule enforcement
class _Sched:
    '''State shared between the harness and the workers of ONE pool run.'''
    __slots__ = ('events', 'succ', 'pos', 'c', 'n', 'fails', 'nonfatal', 'log', 'cnt', 'flag', 'lock', 'delay')


_S = None                 # the active schedule (threads: shared object; processes: inherited by fork)
_PROC = None              # lazily created process-shared primitives


def _proc_prims():
    global _PROC
    if _PROC is None:
        if multiprocessing.get_start_method() != 'fork':
            raise MachineryError('C18 process strata need the fork start method (events are inherited by the workers)')
        ctx = multiprocessing.get_context('fork')
        _PROC = {'events': [ctx.Event() for _ in range(12)], 'log': ctx.Array('i', 64), 'cnt': ctx.Value('i', 0), 'flag': ctx.Value('i', 0)}
    return _PROC


def _log_completion(S, ch):
    if isinstance(S.log, list):
        with S.lock:
            S.log.append(ch)
    else:
        with S.cnt.get_lock():
            if S.cnt.value < 64:
                S.log[S.cnt.value] = ch
                S.cnt.value += 1


def gate(d):
    '''Called inside a task whose argument has digest d: wait for the turn of its future, release the successor,
    raise if the task is in the fail table.'''
    S = _S
    if S is None:
        return
    p = S.pos.get(d)
    cls = S.fails.get(d)
    if S.delay:
        time.sleep(((d * S.delay) % 7) / 2500.0)
    if p is not None:
        ch = p // S.c
        first = p % S.c == 0
        last = (p % S.c == S.c - 1) or p == S.n - 1
        if first:
            if not S.events[ch].wait(WAIT_TIMEOUT):
                if isinstance(S.flag, list):
                    S.flag.append(ch)
                else:
                    S.flag.value = 1
        if last or cls is not None:
            _log_completion(S, ch)
            if cls is not None and cls not in S.nonfatal:
                for e in S.events:      # the call is going to abort: pending futures may be cancelled, release everybody
                    e.set()
            else:
                nxt = S.succ.get(ch)
                if nxt is not None:
                    S.events[nxt].set()
    if cls is not None:
        raise EXC[cls]('task failed')


def pool_task(*a):
    '''The function handed to the pools.'''
    arg = a[0] if len(a) == 1 else tuple(a)
    d = digest(canon(arg))
    gate(d)
    return 3 * d + 1


def install(digests, kind, c, pi, fails, nonfatal=(), delay=0):
    '''Arm the schedule: digests = digest of every task argument in submission order (pairwise distinct; empty = free running),
    c = items per future, pi = completion order of the futures.'''
    global _S
    S = _Sched()
    n = len(digests)
    m = (n + c - 1) // c if n else 0
    assert sorted(pi) == list(range(m)), (pi, m)
    S.pos = {d: i for i, d in enumerate(digests)}
    assert len(S.pos) == n
    S.c, S.n, S.fails, S.nonfatal, S.delay = c, n, dict(fails), frozenset(nonfatal), delay
    S.succ = {pi[j]: pi[j + 1] for j in range(m - 1)}
    if kind == 'threads':
        S.events = [threading.Event() for _ in range(m)]
        S.log, S.lock, S.flag, S.cnt = [], threading.Lock(), [], None
    else:
        P = _proc_prims()
        if m > len(P['events']):
            raise MachineryError('too many futures for the process event pool')
        for e in P['events']:
            e.clear()
        P['cnt'].value = 0
        P['flag'].value = 0
        S.events, S.log, S.cnt, S.flag, S.lock = P['events'][:max(m, 1)], P['log'], P['cnt'], P['flag'], None
    if m:
        S.events[pi[0]].set()
    _S = S
    return S


def install_free(fails, delay=0):
    return install([], 'threads', 1, (), fails, delay=delay)


def check_schedule(S, pi, digests, what):
    '''The enforced order must have been achieved up to (and including) the first aborting future.'''
    if isinstance(S.log, list):
        got, timed_out = list(S.log), bool(S.flag)
    else:
        got, timed_out = [S.log[i] for i in range(S.cnt.value)], bool(S.flag.value)
    if timed_out:
        return 'timeout'
    fatal_chunks = {S.pos[d] // S.c for d in digests if d in S.fails and S.fails[d] not in S.nonfatal}
    want = []
    for ch in pi:
        want.append(ch)
        if ch in fatal_chunks:
            break
    if got[:len(want)] != want:
        # no wait timed out, yet the futures completed in another order / other futures ran: the code no longer drives the
        # pool the way the schedule assumes (not retried; the result is still compared with the sequential one)
        _STATS['mismatch'] += 1
    return 'ok'


def feasible(m, k):
    '''All completion orders of m futures on k workers with FIFO start: the j-th completion is among the first k+j.'''
    def rec(done, order):
        j = len(order)
        if j == m:
            yield tuple(order)
            return
        for t in range(min(m, k + j)):
            if t not in done:
                done.add(t)
                order.append(t)
                yield from rec(done, order)
                order.pop()
                done.discard(t)
    yield from rec(set(), [])


def random_feasible(rng, m, k):
    done, order = set(), []
    for j in range(m):
        t = rng.choice([t for t in range(min(m, k + j)) if t not in done])
        done.add(t)
        order.append(t)
    return tuple(order)


def choices_of(pi, m, k):
    '''The schedule as the machine of SF/Pool.v consumes it: index of the completing future in the running list.'''
    queue, running, out = list(range(m)), [], []
    for t in pi:
        while len(running) < k and queue:
            running.append(queue.pop(0))
        i = running.index(t)
        out.append(i)
        running.pop(i)
    return out


def nat_list(xs):
    return '([' + '; '.join(str(int(x)) for x in xs) + ']%nat)'


def fails_lit(fails):
    return lit.lst([f'({lit.z(d)}, {lit.s(cls)})' for d, cls in sorted(fails.items())])


def kind_lit(kind):
    return 'Threads' if kind == 'threads' else 'Procs'


def pairs_lit(pairs):
    return lit.lst([f'({lit.val(k)}, {lit.val(v)})' for k, v in pairs])


def ditems_lit(cpairs):
    '''(key, value) pairs as the Coq cases take them: structured key, DIGEST of the value.'''
    return lit.lst([f'({lit.val(k)}, {lit.z(digest(v))})' for k, v in cpairs])


def vals_lit(xs):
    return lit.lst([lit.val(x) for x in xs])


def n_futures(n, c, kind):
    return n if kind == 'threads' else ((n + c - 1) // c if n else 0)


def res_lit(ok, payload, printer):
    return f'(Ok {printer(payload)})' if ok else f'(Err {lit.s(payload)})'


# ------------------------------------------------------------------------------------------ containers / interfaces
LABELS = ('a', 'b', 'c', 'd', 'e', 'f', 'g', 'h', 'i', 'j', 'k', 'l', 'm', 'n')
COLS = tuple('xyzwvutsrqpo')


def _series(n, base=10):
    import static_frame as sf
    return sf.Series(np.array([base + 7 * i for i in range(n)], dtype=np.int64), index=LABELS[:n], name='s')


def _frame(rows, cols, base=1):
    import static_frame as sf
    a = np.array([[base + r * 10 + c for c in range(cols)] for r in range(rows)], dtype=np.int64).reshape(rows, cols)
    return sf.Frame(a, index=LABELS[:rows], columns=COLS[:cols], name='f')


def iface_specs(n):
    '''(name, build() -> container, iterator attribute, kwargs, constructor kind) giving exactly n tasks.'''
    import static_frame as sf
    out = []
    out.append(('Series.iter_element', lambda: _series(n), 'iter_element', {}, 'series'))
    out.append(('Series.iter_group', lambda: sf.Series(np.array([5 + (i % n if n else 0) for i in range(n + min(n, 2))], dtype=np.int64), index=LABELS[:n + min(n, 2)]),
                'iter_group', {}, 'series'))
    out.append(('Series.iter_window', lambda: _series(n + 1 if n else 0), 'iter_window', {'size': 2}, 'series'))
    out.append(('Series.iter_window_array', lambda: _series(n + 1 if n else 0), 'iter_window_array', {'size': 2}, 'series'))
    out.append(('Frame.iter_array[0]', lambda: _frame(2, n), 'iter_array', {'axis': 0}, 'series'))
    out.append(('Frame.iter_array[1]', lambda: _frame(n, 2), 'iter_array', {'axis': 1}, 'series'))
    out.append(('Frame.iter_series[0]', lambda: _frame(2, n), 'iter_series', {'axis': 0}, 'series'))
    out.append(('Frame.iter_series[1]', lambda: _frame(n, 3), 'iter_series', {'axis': 1}, 'series'))
    # constructor=tuple: the default namedtuple class cannot be pickled (finding C18-namedtuple-pickle, stratum api:apply_pool-namedtuple)
    out.append(('Frame.iter_tuple[1]', lambda: _frame(n, 2), 'iter_tuple', {'axis': 1, 'constructor': tuple}, 'series'))
    out.append(('Frame.iter_tuple[0]', lambda: _frame(3, n), 'iter_tuple', {'axis': 0, 'constructor': tuple}, 'series'))
    out.append(('Frame.iter_window', lambda: _frame(n + 1 if n else 0, 2), 'iter_window', {'size': 2}, 'series'))
    out.append(('Frame.iter_window_array', lambda: _frame(n + 1 if n else 0, 2), 'iter_window_array', {'size': 2}, 'series'))
    if n >= 1:
        def grouped():
            rows = n + min(n, 2)
            a = np.array([(100 + (r % n), r * 3 + 1) for r in range(rows)], dtype=np.int64)
            return sf.Frame(a, index=LABELS[:rows], columns=('g', 'v'))
        out.append(('Frame.iter_group', grouped, 'iter_group', {'key': 'g'}, 'series'))
        if n in (1, 2, 3, 4, 6):
            shape = {1: (1, 1), 2: (1, 2), 3: (3, 1), 4: (2, 2), 6: (2, 3)}[n]
            out.append(('Frame.iter_element[0]', lambda: _frame(*shape), 'iter_element', {'axis': 0}, 'elements'))
            out.append(('Frame.iter_element[1]', lambda: _frame(*shape), 'iter_element', {'axis': 1}, 'elements'))
    out.append(('Index.iter_label', lambda: sf.Index(np.array([20 + 3 * i for i in range(n)], dtype=np.int64)), 'iter_label', {}, 'labels'))
    if n >= 1:
        # hierarchical labels (tuple keys), grouping by an outer level, and a Bus of frames
        def ih_series():
            ih = sf.IndexHierarchy.from_labels([('o%d' % (i // 2), i) for i in range(n)])
            return sf.Series(np.array([5 + 3 * i for i in range(n)], dtype=np.int64), index=ih, name='h')

        def ih_labels():
            return sorted(('g%d' % (i % n), i) for i in range(n + min(n, 2)))

        def gl_series():
            labels = ih_labels()
            return sf.Series(np.array([2 + 5 * i for i in range(len(labels))], dtype=np.int64), index=sf.IndexHierarchy.from_labels(labels))

        def gl_frame():
            labels = ih_labels()
            a = np.array([[7 * i, 7 * i + 1] for i in range(len(labels))], dtype=np.int64)
            return sf.Frame(a, index=sf.IndexHierarchy.from_labels(labels), columns=('x', 'y'))

        def bus():
            return sf.Bus.from_frames([sf.Frame(np.array([[90 + 17 * i, 1], [2, 3]], dtype=np.int64), index=('p', 'q'), columns=('x', 'y'), name=f'B{i}')
                                       for i in range(n)])
        out.append(('SeriesIH.iter_element', ih_series, 'iter_element', {}, 'series'))
        out.append(('Series.iter_group_labels', gl_series, 'iter_group_labels', {'depth_level': 0}, 'series'))
        out.append(('Frame.iter_group_labels', gl_frame, 'iter_group_labels', {'depth_level': 0}, 'series'))
        out.append(('Bus.iter_element', bus, 'iter_element', {}, 'series'))
    return out


def get_items(container, attr, kw):
    '''The (key, value) pairs the iterator delivers, observed through the sequential *_items form.'''
    if attr == 'iter_label':
        return list(enumerate(container.values.tolist()))
    return list(getattr(container, attr + '_items')(**kw))


class Observed(list):
    '''The (label, value) pairs of a returned container + what else the two forms must agree on (compared on the Python side).'''
    extras = None

    def __eq__(self, other):
        return list.__eq__(self, other) and getattr(other, 'extras', None) == self.extras

    def __ne__(self, other):
        return not self.__eq__(other)

    def __repr__(self):
        return list.__repr__(self) + (f' {self.extras}' if self.extras else '')


def observe_container(result, ctor, axis=None):
    '''Returned container -> what the model predicts: (label, value) pairs in the container's own order.'''
    import static_frame as sf
    if ctor == 'labels':
        out = Observed(canon(x) for x in result.tolist())
        out.extras = (type(result).__name__, str(result.dtype))
        return out
    if ctor == 'elements':
        out = Observed((canon(k), canon(v)) for k, v in result.iter_element_items(axis=axis))
        out.extras = (type(result).__name__, repr(result.name), [str(d) for d in result.dtypes.values],
                      type(result.index).__name__, type(result.columns).__name__, lit.labels(result.index), lit.labels(result.columns))
        return out
    if not isinstance(result, sf.Series):
        raise MachineryError(f'C18: unexpected result class {type(result).__name__}')
    out = Observed(zip([canon(x) for x in lit.labels(result.index)], [canon(x) for x in result.values.tolist()]))
    out.extras = (type(result).__name__, repr(result.name), str(result.dtype), type(result.index).__name__, repr(result.index.name))
    return out


# ------------------------------------------------------------------------------------------ oracle stratum
def oracle_cases(ctx, kind, sizes, ks):
    '''The Executor.map contract itself, on real pools under enforced schedules, against exec_map.'''
    from concurrent.futures import ProcessPoolExecutor, ThreadPoolExecutor
    pool = ThreadPoolExecutor if kind == 'threads' else ProcessPoolExecutor
    for n in sizes:
        xs = [40 + 9 * i for i in range(n)]
        digests = [digest(x) for x in xs]
        for c in range(1, n + 2):
            m = n_futures(n, c, kind)
            if kind == 'threads' and c > 1:
                continue
            for k in ks:
                for pi in feasible(m, k):
                    for fails in ([{}] + ([{digests[n // 2]: 'KeyError'}] if n else [])):
                        def attempt(check=True, pi=pi, fails=fails, k=k, c=c):
                            S = install(digests, kind, c if kind == 'procs' else 1, pi, fails)
                            consumed = []

                            def gen():
                                for x in xs:
                                    consumed.append(x)
                                    yield x
                            eager = None
                            try:
                                with pool(max_workers=k) as ex:
                                    it = ex.map(pool_task, gen(), chunksize=c)
                                    eager = (len(consumed) == n)
                                    got = list(it)
                                ok, payload = True, got
                            except Exception as e:  # noqa
                                ok, payload = False, err_name(e)
                            if check:
                                if check_schedule(S, list(pi), digests, f'oracle {kind} k={k} c={c}') == 'timeout':
                                    raise ScheduleTimeout('timed out', (ok, payload, eager))
                            return ok, payload, eager
                        ok, payload, eager = retrying(attempt)
                        if eager is False:
                            raise MachineryError('ORACLE broken: Executor.map did not consume its argument iterable eagerly '
                                                 '(static-frame zips a side-effect-populated key list with it)')
                        try:
                            want = (True, [seq_task(fails, x) for x in xs])
                        except Exception as e:  # noqa
                            want = (False, err_name(e))
                        if (ok, payload) != want:
                            raise MachineryError(f'ORACLE broken: Executor.map under completion order {pi} returned {payload}, contract says {want[1]}')
                        obs = res_lit(ok, payload, vals_lit)
                        ctx.count(f'oracle:{kind}', f'n:{n}', f'k:{k}', f'c:{c}')
                        yield Case(f'oracle:executor.map-{kind}',
                                   {'call': f'{pool.__name__}(max_workers={k}).map(f, xs, chunksize={c})', 'xs': xs, 'completion_order': list(pi),
                                    'failing_digests': {str(d): v for d, v in fails.items()}, 'observed': [ok, repr(payload)]},
                                   m=(f'c18_exec_M {fails_lit(fails)} {kind_lit(kind)} {lit.z(k)} {lit.z(c)} {nat_list(choices_of(pi, m, k))} '
                                      f'{lit.lst([lit.z(d) for d in digests])} {obs}'),
                                   tags={'op': 'oracle', 'kind': kind}, nontrivial=(m >= 2))


# ------------------------------------------------------------------------------------------ apply_pool strata
def fail_patterns(digests, mode, rot):
    '''Fail tables to combine with one schedule. mode 'full': none, every single task, two pairs;
    'light': none + one rotating single (+ a pair every 4th time).'''
    n = len(digests)
    classes = ['ValueError', 'KeyError', 'ZeroDivisionError']
    pats = [{}]
    if not n:
        return pats
    if mode == 'full':
        for i in range(n):
            pats.append({digests[i]: classes[i % 3]})
        if n >= 2:
            pats.append({digests[0]: 'KeyError', digests[n - 1]: 'ValueError'})
            pats.append({digests[n - 1]: 'ZeroDivisionError', digests[(n - 1) // 2]: 'KeyError'})
    else:
        i = rot[0] % n
        rot[0] += 1
        pats.append({digests[i]: classes[i % 3]})
        if n >= 2 and rot[0] % 4 == 0:
            j = (i + 1 + rot[0] // 4) % n
            if j != i:
                pats.append({digests[i]: 'KeyError', digests[j]: 'ValueError'})
    return pats


def run_apply_pool(container, attr, kw, ctor, items_form, kind, k, c, pi, fails, digests):
    '''One real pool run of <container>.<attr>(**kw).apply_pool(...) under schedule pi (None = free running).'''
    name = attr + '_items' if items_form else attr

    def attempt(check=True):
        S = install(digests, kind, c if kind == 'procs' else 1, pi, fails) if pi is not None else None
        try:
            delegate = getattr(container, name)(**kw)
            out = delegate.apply_pool(pool_task, max_workers=k, chunksize=c, use_threads=(kind == 'threads'))
            ok, payload = True, observe_container(out, ctor, kw.get('axis', 0))
        except MachineryError:
            raise
        except Exception as e:  # noqa
            ok, payload = False, err_name(e)
        if S is not None and check:
            if check_schedule(S, list(pi), digests, f'{name} k={k} c={c}') == 'timeout':
                raise ScheduleTimeout('timed out', (ok, payload))
        return ok, payload
    return retrying(attempt)


def run_apply_seq(container, attr, kw, ctor, items_form, fails):
    name = attr + '_items' if items_form else attr
    try:
        delegate = getattr(container, name)(**kw)
        if items_form:
            out = delegate.apply(lambda k_, v_: seq_task(fails, (k_, v_)))
        else:
            out = delegate.apply(lambda v_: seq_task(fails, v_))
        return True, observe_container(out, ctor, kw.get('axis', 0))
    except Exception as e:  # noqa
        return False, err_name(e)


def ekey_lit(k):
    return f'({lit.val(k[0])}, {lit.val(k[1])})'


def apply_case(ctx, stratum, iname, kw, ctor, items_form, kind, k, c, pi, m, fails, cpairs, ok, payload, sok, spayload, tags=None, with_s=True, mfn=None,
               container=None):
    py_fail = None
    if with_s and (ok != sok or (ok and payload != spayload)):
        py_fail = f'apply_pool gave {"Ok" if ok else "Err"} {payload}, apply gave {"Ok" if sok else "Err"} {spayload}'
    kk = k if k is not None else 4
    choices = choices_of(pi, m, kk) if pi is not None else []
    common = f'{lit.b(items_form)} {fails_lit(fails)}'
    pool = f'{kind_lit(kind)} {lit.z(kk)} {lit.z(c)} {nat_list(choices)}'
    if ctor == 'elements':
        # keys are (row, column) pairs; the model rebuilds the Frame from the delivered stream by run segmentation on the outer key
        axis = kw.get('axis', 0)
        outer = lit.labels(container.index if axis == 0 else container.columns)
        inner = lit.labels(container.columns if axis == 0 else container.index)
        items = lit.lst([f'({ekey_lit(key)}, {lit.z(digest(v))})' for key, v in cpairs])
        obs = res_lit(ok, payload, lambda p: lit.lst([f'({ekey_lit(key)}, {lit.val(v)})' for key, v in p]))
        mterm = f'c18_elements_M {lit.b(axis == 1)} {common} {pool} {vals_lit([canon(x) for x in outer])} {vals_lit([canon(x) for x in inner])} {items} {obs}'
        sterm = f'c18_elements_S {common} {items} {obs}' if with_s else None
    else:
        printer = vals_lit if ctor == 'labels' else pairs_lit
        obs = res_lit(ok, payload, printer)
        fn = 'c18_labels' if ctor == 'labels' else 'c18_apply'
        mterm = f'{mfn or fn + "_M"} {common} {pool} {ditems_lit(cpairs)} {obs}'
        sterm = f'{fn}_S {common} {ditems_lit(cpairs)} {obs}' if with_s else None
    full = f'{iname}{"_items" if items_form else ""}'
    t = {'op': 'apply_pool', 'iface': iname, 'kind': kind, 'items_form': items_form}
    t.update(tags or {})
    return Case(f'{stratum}:{full}',
                {'call': f'{full}(**{kw}).apply_pool(f, max_workers={k}, chunksize={c}, use_threads={kind == "threads"})',
                 'items': repr(cpairs), 'completion_order': list(pi) if pi is not None else 'free',
                 'failing_digests': {str(d): v for d, v in fails.items()},
                 'observed': [ok, repr(payload)], 'sequential': [sok, repr(spayload)]},
                m=mterm, s=sterm, py_fail=py_fail, tags=t, nontrivial=(m >= 2 or bool(fails) or not with_s))


def apply_pool_cases(ctx, kind, n, specs, ks, cs, fail_mode, stratum, rot, forms=(False, True)):
    for (iname, build, attr, kw, ctor) in specs:
        container = build()
        pairs = get_items(container, attr, kw)
        if len(pairs) != n:
            raise MachineryError(f'C18 generator: {iname} gives {len(pairs)} tasks, wanted {n}')
        cpairs = [(canon(k_), canon(v_)) for k_, v_ in pairs]
        for items_form in forms:
            if attr == 'iter_label' and items_form:
                continue
            digests = [digest((k_, v_) if items_form else v_) for k_, v_ in cpairs]
            if len(set(digests)) != n:
                raise MachineryError(f'C18 generator: task digests not distinct for {iname}')
            seq_cache = {}
            for c, kset in cs(n, ks):
                m = n_futures(n, c, kind)
                for k in kset:
                    for pi in feasible(m, k):
                        for fails in fail_patterns(digests, fail_mode, rot):
                            ok, payload = run_apply_pool(container, attr, kw, ctor, items_form, kind, k, c, pi, fails, digests)
                            fkey = tuple(sorted(fails.items()))
                            if fkey not in seq_cache:
                                seq_cache[fkey] = run_apply_seq(container, attr, kw, ctor, items_form, fails)
                            sok, spayload = seq_cache[fkey]
                            ctx.count(f'iface:{iname}', f'kind:{kind}', f'n:{n}', f'k:{k}', f'c:{c}', f'futures:{m}',
                                      f'fails:{len(fails)}', 'form:items' if items_form else 'form:values')
                            yield apply_case(ctx, stratum, iname, kw, ctor, items_form, kind, k, c, pi, m, fails, cpairs, ok, payload, sok, spayload, container=container)


def cs_threads(n, ks):
    '''Thread pools ignore chunksize: c = 1 with every k; other c only with k = 2.'''
    out = [(1, ks)]
    for c in sorted({2, n + 1} - {1}):
        out.append((c, [2]))
    return out


def cs_all(n, ks):
    return [(c, ks) for c in range(1, n + 2)]


def free_cases(ctx):
    '''Free-running pools (random per-task delays): bigger containers, DUPLICATED arguments, max_workers None.'''
    import static_frame as sf
    rng = ctx.rng
    for i in range(ctx.n(60, 500)):
        n = rng.randint(0, 11)
        which = rng.choice(['selem', 'sgroup', 'swin', 'farr', 'ftuple', 'fser', 'felem', 'index'])
        vals = [rng.randint(0, 5) for _ in range(n)]           # duplicates on purpose
        if which == 'selem':
            spec = ('Series.iter_element', sf.Series(np.array(vals, dtype=np.int64), index=LABELS[:n]), 'iter_element', {}, 'series')
        elif which == 'sgroup':
            spec = ('Series.iter_group', sf.Series(np.array(vals, dtype=np.int64), index=LABELS[:n]), 'iter_group', {}, 'series')
        elif which == 'swin':
            spec = ('Series.iter_window', sf.Series(np.array(vals, dtype=np.int64), index=LABELS[:n]), 'iter_window', {'size': rng.randint(1, 3), 'step': rng.randint(1, 2)}, 'series')
        elif which in ('farr', 'ftuple', 'fser', 'felem'):
            rows = rng.randint(0, 4)
            cols = rng.randint(1, 4)
            a = np.array([[rng.randint(0, 3) for _ in range(cols)] for _ in range(rows)], dtype=np.int64).reshape(rows, cols)
            fr = sf.Frame(a, index=LABELS[:rows], columns=COLS[:cols])
            axis = rng.randint(0, 1)
            attr = {'farr': 'iter_array', 'ftuple': 'iter_tuple', 'fser': 'iter_series', 'felem': 'iter_element'}[which]
            if which == 'ftuple' and ((axis == 0 and rows == 0) or (axis == 1 and cols == 0)):
                continue
            kw_ = {'axis': axis, 'constructor': tuple} if which == 'ftuple' else {'axis': axis}
            spec = (f'Frame.{attr}[{axis}]', fr, attr, kw_, 'elements' if which == 'felem' else 'series')
            if which == 'felem' and rows == 0:
                continue
        else:
            spec = ('Index.iter_label', sf.Index(tuple(sorted(set(vals)))), 'iter_label', {}, 'labels')
        iname, container, attr, kw, ctor = spec
        items_form = rng.random() < 0.5 and attr != 'iter_label'
        try:
            pairs = get_items(container, attr, kw)
        except Exception:  # noqa -- an iterator that cannot be built sequentially is outside this property
            continue
        cpairs = [(canon(k_), canon(v_)) for k_, v_ in pairs]
        nt = len(cpairs)
        digests = sorted({digest((k_, v_) if items_form else v_) for k_, v_ in cpairs})
        fails = {}
        if digests and rng.random() < 0.4:
            for d in rng.sample(digests, min(len(digests), rng.randint(1, 2))):
                fails[d] = rng.choice(['ValueError', 'KeyError', 'ZeroDivisionError'])
        kind = 'threads' if rng.random() < 0.7 else 'procs'
        k = rng.choice([None, 1, 2, 3, 4, 5, 6, 7, 8])
        c = rng.randint(1, nt + 1)
        install_free(fails, delay=rng.randint(1, 50))
        ok, payload = run_apply_pool(container, attr, kw, ctor, items_form, kind, k, c, None, fails, [])
        install_free(fails)
        sok, spayload = run_apply_seq(container, attr, kw, ctor, items_form, fails)
        ctx.count(f'free:iface:{iname}', f'free:kind:{kind}', f'free:n:{nt}', f'free:fails:{len(fails)}')
        yield apply_case(ctx, 'api:apply_pool-free', iname, kw, ctor, items_form, kind, k, c, None, n_futures(nt, c, kind), fails, cpairs,
                         ok, payload, sok, spayload, tags={'free': True}, container=container)


def malformed_cases(ctx):
    '''max_workers <= 0 and chunksize < 1: the pool refuses (ValueError) or, for thread pools, ignores chunksize.'''
    for n in (0, 2):
        for (iname, build, attr, kw, ctor) in iface_specs(n)[:3]:
            container = build()
            cpairs = [(canon(k_), canon(v_)) for k_, v_ in get_items(container, attr, kw)]
            for kind in ('threads', 'procs'):
                for k, c in ((0, 1), (-1, 1), (2, 0), (1, -3), (0, 0)):
                    install_free({})
                    ok, payload = run_apply_pool(container, attr, kw, ctor, False, kind, k, c, None, {}, [])
                    sok, spayload = run_apply_seq(container, attr, kw, ctor, False, {})
                    in_quantifier = k >= 1 and kind == 'threads'     # chunksize is not a thread-pool parameter
                    ctx.count('malformed:' + ('k<=0' if k <= 0 else 'c<1'))
                    yield apply_case(ctx, 'api:apply_pool-malformed', iname, kw, ctor, False, kind, k, c, None, n_futures(n, max(c, 1), kind), {}, cpairs,
                                     ok, payload, sok, spayload, tags={'malformed': True}, with_s=in_quantifier)


def namedtuple_cases(ctx):
    '''Frame.iter_tuple with its DEFAULT constructor (a namedtuple class made on the fly): fine on threads; on a process
    pool every argument fails to pickle (finding C18-namedtuple-pickle).'''
    for n in (1, 2, 3):
        for axis in (0, 1):
            container = _frame(n, 2) if axis == 1 else _frame(2, n)
            kw = {'axis': axis}
            iname = f'Frame.iter_tuple[{axis}](namedtuple)'
            for items_form in (False, True):
                cpairs = [(canon(k_), canon(v_)) for k_, v_ in get_items(container, 'iter_tuple', kw)]
                digests = [digest((k_, v_) if items_form else v_) for k_, v_ in cpairs]
                sok, spayload = run_apply_seq(container, 'iter_tuple', kw, 'series', items_form, {})
                for pi in feasible(n, 2):
                    ok, payload = run_apply_pool(container, 'iter_tuple', kw, 'series', items_form, 'threads', 2, 1, pi, {}, digests)
                    ctx.count('namedtuple:threads')
                    yield apply_case(ctx, 'api:apply_pool-namedtuple', iname, kw, 'series', items_form, 'threads', 2, 1, pi, n, {}, cpairs,
                                     ok, payload, sok, spayload, mfn='c18_apply_nt_M')
                if n != 1:
                    # ONE task only on process pools: with two unpicklable call items CPython 3.12.1 itself can deadlock at pool shutdown
                    # (_SafeQueue._on_queue_feeder_error takes shutdown_lock while join_executor_internals holds it and joins the feeder)
                    continue
                for k, c in ((1, 1), (2, 1), (2, 2)):
                    install_free({})
                    ok, payload = run_apply_pool(container, 'iter_tuple', kw, 'series', items_form, 'procs', k, c, None, {}, [])
                    ctx.count('namedtuple:procs')
                    # in the finding's class by construction: default namedtuple constructor + process pool + at least one task
                    yield apply_case(ctx, 'api:apply_pool-namedtuple', iname, kw, 'series', items_form, 'procs', k, c, None, n_futures(n, c, 'procs'), {}, cpairs,
                                     ok, payload, sok, spayload, mfn='c18_apply_nt_M', tags={'finding': FINDING_NAMEDTUPLE})


def _obj_array(cells):
    a = np.empty(len(cells), dtype=object)
    for i, x in enumerate(cells):
        a[i] = x
    return a


SENTINEL_CELLS = [('None', None), ('nan', float('nan')), ('0', 0), ("''", ''), ('False', False), ('()', ())]


def sentinel_cases(ctx):
    '''Object-dtype Series / Frames whose cells are values a careless implementation could take for an in-band "nothing" marker:
    None (first, middle, last, only, all), NaN, 0, '', False, (): the pooled form must return the same labels, order and LENGTH as apply.
    Enforced schedules where the task arguments are pairwise distinct, free-running pools (with delays) otherwise.'''
    import static_frame as sf
    quick = ctx.tier == 'quick'
    rng = ctx.rng
    fill = [7, 'w', 2.5, 11, 'z']
    series = []
    for cname, cell in SENTINEL_CELLS:
        for pos in ('first', 'middle', 'last', 'only', 'all'):
            n = {'only': 1, 'all': 3}.get(pos, 3)
            cells = [cell] * n if pos in ('only', 'all') else list(fill[:n])
            if pos not in ('only', 'all'):
                cells[{'first': 0, 'middle': 1, 'last': 2}[pos]] = cell
            series.append((f'{cname}@{pos}', cells))
    series.append(('mixed', [None, 0, '', False, float('nan'), ()]))
    specs = []
    for sname, cells in series:
        sr = sf.Series(_obj_array(cells), index=LABELS[:len(cells)], name='o')
        specs.append((f'Series[{sname}].iter_element', sr, 'iter_element', {}, 'series'))
    for cname, cell in SENTINEL_CELLS:
        for where in ('first', 'last', 'all'):
            rows = [[cell, 5], [8, 'u']] if where == 'first' else ([[4, 'v'], [9, cell]] if where == 'last' else [[cell, cell], [cell, cell]])
            a = np.empty((2, 2), dtype=object)
            for r in range(2):
                for c_ in range(2):
                    a[r, c_] = rows[r][c_]
            fr = sf.Frame(a, index=('p', 'q'), columns=('x', 'y'), name='of')
            tag = f'Frame[{cname}@{where}]'
            for axis in (0, 1):
                specs.append((f'{tag}.iter_element[{axis}]', fr, 'iter_element', {'axis': axis}, 'elements'))
                specs.append((f'{tag}.iter_array[{axis}]', fr, 'iter_array', {'axis': axis}, 'series'))
                specs.append((f'{tag}.iter_series[{axis}]', fr, 'iter_series', {'axis': axis}, 'series'))
                specs.append((f'{tag}.iter_tuple[{axis}]', fr, 'iter_tuple', {'axis': axis, 'constructor': tuple}, 'series'))
    configs = [('threads', 1, 1), ('threads', 2, 1), ('threads', 4, 2), ('procs', 2, 2), ('procs', 1, 1), ('procs', 4, 1)]
    for idx, (iname, container, attr, kw, ctor) in enumerate(specs):
        pairs = get_items(container, attr, kw)
        cpairs = [(canon(k_), canon(v_)) for k_, v_ in pairs]
        nt = len(cpairs)
        is_series = iname.startswith('Series')
        for items_form in (False, True):
            digests = [digest((k_, v_) if items_form else v_) for k_, v_ in cpairs]
            distinct = len(set(digests)) == nt
            sok, spayload = run_apply_seq(container, attr, kw, ctor, items_form, {})
            # Series.iter_element (the reported class) gets every pool configuration in quick too; the Frame iterators rotate
            if is_series and not items_form:
                todo = configs + [('threads', 2, nt + 1), ('procs', 2, nt + 1)]
            elif quick:
                todo = [configs[(idx + j) % len(configs)] for j in (0, 3)] if not items_form else [configs[idx % 3]]
            else:
                todo = configs + [('threads', 2, nt + 1), ('procs', 4, nt + 1)]
            for kind, k, c in todo:
                m = n_futures(nt, c, kind)
                if distinct:
                    pi = random_feasible(rng, m, k)
                    ok, payload = run_apply_pool(container, attr, kw, ctor, items_form, kind, k, c, pi, {}, digests)
                else:
                    pi = None
                    install_free({}, delay=rng.randint(1, 50))
                    ok, payload = run_apply_pool(container, attr, kw, ctor, items_form, kind, k, c, None, {}, [])
                    install_free({})
                ctx.count('sentinel:' + ('series' if is_series else attr), f'sentinel:kind:{kind}', 'sentinel:' + ('enforced' if distinct else 'free'))
                yield apply_case(ctx, 'api:apply_pool-sentinel', iname, kw, ctor, items_form, kind, k, c, pi, m, {}, cpairs,
                                 ok, payload, sok, spayload, tags={'sentinel': True}, container=container)


# ------------------------------------------------------------------------------------------ Batch strata
def batch_frames(n, naming='equal'):
    '''Explicit (label, Frame) pairs.  naming: how Frame.name relates to the Batch label -- 'equal' (name == label), 'none' (unnamed),
    'swapped' (frame i carries the label of frame i+1), 'same' (every frame is named 'Z').  A function that is handed the container's
    name instead of the Batch label gives another answer for every naming but 'equal'.'''
    import static_frame as sf
    out = []
    for i in range(n):
        a = np.array([[50 + 11 * i, 51 + 11 * i], [52 + 11 * i, 53 + 11 * i]], dtype=np.int64)
        name = {'equal': f'L{i}', 'none': None, 'swapped': (f'L{(i + 1) % n}' if n > 1 else 'X0'), 'same': 'Z'}[naming]
        out.append((f'L{i}', sf.Frame(a, index=('p', 'q'), columns=('x', 'y'), name=name)))
    return out


def rename_step(fr):
    '''A name-changing step of a chained Batch (runs through the pool too; not scheduled).'''
    return fr.rename('R')


def pre_step(batch, pre):
    '''The earlier step of a chained Batch: None, 'rename' (containers renamed), 'sum' (containers reduced to unnamed Series).'''
    if pre == 'rename':
        return batch.apply(rename_step)
    if pre == 'sum':
        return batch.sum()
    return batch


BATCH_VARIANTS = [('equal', None), ('none', None), ('swapped', None), ('same', None), ('equal', 'rename'), ('equal', 'sum'), ('swapped', 'sum')]


def observe_batch(batch):
    out = []
    for label, container in batch.items():
        v = container.values
        out.append((canon(label), canon(v.ravel()[0])))
    return out


def run_batch(items, op, kind, k, c, pi, fails, digests, nonfatal, pre=None):
    import static_frame as sf

    def attempt(check=True):
        S = install(digests, kind, 1 if (kind == 'threads' or op.endswith('except')) else c, pi, fails, nonfatal=nonfatal) if pi is not None else None
        ran = True
        try:
            b = pre_step(sf.Batch(iter(items), max_workers=k, chunksize=c, use_threads=(kind == 'threads')), pre)
            if op.endswith('except'):
                try:
                    b2 = getattr(b, op)(pool_task, ValueError)
                except NotImplementedError:
                    ran = False
                    raise
            else:
                b2 = getattr(b, op)(pool_task)
            ok, payload = True, observe_batch(b2)
        except MachineryError:
            raise
        except Exception as e:  # noqa
            ok, payload = False, err_name(e)
        if S is not None and ran and check:
            if check_schedule(S, list(pi), digests, f'Batch.{op} k={k} c={c}') == 'timeout':
                raise ScheduleTimeout('timed out', (ok, payload))
        return ok, payload
    return retrying(attempt)


def run_batch_seq(items, op, fails, pre=None):
    import static_frame as sf
    try:
        b = pre_step(sf.Batch(iter(items)), pre)
        if op in ('apply', 'apply_except'):
            fn = lambda fr: seq_task(fails, fr)  # noqa
        else:
            fn = lambda l, fr: seq_task(fails, (l, fr))  # noqa
        b2 = getattr(b, op)(fn, ValueError) if op.endswith('except') else getattr(b, op)(fn)
        return True, observe_batch(b2)
    except Exception as e:  # noqa
        return False, err_name(e)


def batch_cases(ctx, kind, sizes, ks, fail_mode, rot, cs_fn, variants=(('equal', None),), reduced=False):
    import static_frame as sf
    for n in sizes:
      for naming, pre in variants:
        items = batch_frames(n, naming)
        # what the operation under test is applied to: the (label, container) pairs after the earlier step of the chain
        effective = list(pre_step(sf.Batch(iter(items)), pre).items()) if pre else items
        cpairs = [(canon(l), canon(fr)) for l, fr in effective]
        vname = naming + ('+' + pre if pre else '')
        for op in ('apply', 'apply_items', 'apply_except', 'apply_items_except'):
            items_form = 'items' in op
            is_except = op.endswith('except')
            digests = [digest((l, fr) if items_form else fr) for l, fr in cpairs]
            seq_cache = {}
            for c, kset in cs_fn(n, ks):
                if reduced and c != 1 and (kind == 'threads' or is_except):
                    continue
                refused = is_except and c != 1
                m = n if (kind == 'threads' or is_except) else n_futures(n, c, kind)
                for k in kset:
                    pis = [None] if refused else list(feasible(m, k))
                    for pi in pis:
                        for fails in fail_patterns(digests, fail_mode, rot):
                            nonfatal = ('ValueError',) if is_except else ()
                            ok, payload = run_batch(items, op, kind, k, c, pi, fails, digests, nonfatal, pre)
                            fkey = tuple(sorted(fails.items()))
                            if fkey not in seq_cache:
                                seq_cache[fkey] = run_batch_seq(items, op, fails, pre)
                            sok, spayload = seq_cache[fkey]
                            py_fail = None
                            if ok != sok or (ok and payload != spayload):
                                py_fail = f'Batch(max_workers={k}).{op} gave {"Ok" if ok else "Err"} {payload}, Batch().{op} gave {"Ok" if sok else "Err"} {spayload}'
                            obs = res_lit(ok, payload, pairs_lit)
                            choices = choices_of(pi, m, k) if pi is not None else []
                            if is_except:
                                mterm = (f'c18_batch_except_M {lit.b(items_form)} {fails_lit(fails)} "ValueError" {lit.z(k)} {lit.z(c)} {nat_list(choices)} '
                                         f'{ditems_lit(cpairs)} {obs}')
                                sterm = f'c18_batch_except_S {lit.b(items_form)} {fails_lit(fails)} "ValueError" {ditems_lit(cpairs)} {obs}'
                            else:
                                mterm = (f'c18_batch_M {lit.b(items_form)} {fails_lit(fails)} {kind_lit(kind)} {lit.z(k)} {lit.z(c)} {nat_list(choices)} '
                                         f'{ditems_lit(cpairs)} {obs}')
                                sterm = f'c18_batch_S {lit.b(items_form)} {fails_lit(fails)} {ditems_lit(cpairs)} {obs}'
                            tags = {'op': 'Batch.' + op, 'kind': kind, 'naming': vname}
                            if refused:
                                # in the finding's class by construction: an *_except form with chunksize != 1
                                tags['finding'] = FINDING_EXCEPT_CHUNK
                            ctx.count(f'batch:naming:{vname}', f'batch:{op}', f'batch:kind:{kind}', f'batch:n:{n}', f'batch:k:{k}', f'batch:c:{c}', f'batch:fails:{len(fails)}')
                            yield Case(f'api:batch-{kind}:{op}',
                                       {'call': (f'Batch(pairs, max_workers={k}, chunksize={c}, use_threads={kind == "threads"})' + {None: '', 'rename': ".apply(lambda f: f.rename('R'))", 'sum': '.sum()'}[pre]
                                                 + f'.{op}(f{", ValueError" if is_except else ""}).items()'),
                                        'pairs': f'explicit (label, Frame) pairs, Frame.name {naming} to the label', 'items': repr(cpairs), 'completion_order': list(pi) if pi is not None else 'not run',
                                        'failing_digests': {str(d): v for d, v in fails.items()},
                                        'observed': [ok, repr(payload)], 'sequential': [sok, repr(spayload)]},
                                       m=mterm, s=sterm, py_fail=py_fail, tags=tags, nontrivial=(m >= 2 or bool(fails)))


def batch_attr_cases(ctx):
    '''Attribute / operator forms and to_frame(): parallel vs sequential on the Python side (free running).'''
    import static_frame as sf
    ops = [('sum()', lambda b: b.sum()), ('* 2', lambda b: b * 2), ('iloc[:1]', lambda b: b.iloc[:1]), ("['x']", lambda b: b['x']),
           ('-b', lambda b: -b), ("sort_values('x', ascending=False)", lambda b: b.sort_values('x', ascending=False)),
           ('apply(f).to_frame', lambda b: b.apply(pool_task)), ('T', lambda b: b.T), ('max(axis=1)', lambda b: b.max(axis=1))]
    for n in (1, 3, 5):
        items = batch_frames(n)
        for name, fn in ops:
            for kind in ('threads', 'procs'):
                for k, c in ((1, 1), (2, 1), (3, 2), (8, n + 1)):
                    install_free({})

                    def run(batch):
                        try:
                            return True, fn(batch).to_frame()
                        except Exception as e:  # noqa
                            return False, err_name(e)
                    ok, par = run(sf.Batch(iter(items), max_workers=k, chunksize=c, use_threads=(kind == 'threads')))
                    sok, ser = run(sf.Batch(iter(items)))
                    py_fail = None
                    if ok != sok or (ok and not par.equals(ser, compare_name=True, compare_dtype=True, compare_class=True)):
                        py_fail = f'Batch(max_workers={k}).{name}.to_frame() differs from the sequential Batch: {par!r} vs {ser!r}'
                    ctx.count('batch-attr:' + kind)
                    yield Case(f'api:batch-attr-{kind}',
                               {'call': f'Batch(frames L0..L{n - 1}, max_workers={k}, chunksize={c}, use_threads={kind == "threads"}) {name} .to_frame()',
                                'observed_ok': ok, 'sequential_ok': sok},
                               py_fail=py_fail, tags={'op': 'Batch.attr', 'kind': kind}, nontrivial=n > 1)


# ------------------------------------------------------------------------------------------ zipped stores
def _sched_frame_class():
    import static_frame as sf

    class SchedFrame(sf.Frame):
        '''A Frame whose delimited reader/writer pass through the schedule gate (they run inside the pool workers).'''
        __slots__ = ()

        @classmethod
        def from_delimited(cls, fp, **kw):
            gate(digest(canon(kw.get('name'))))
            return super().from_delimited(fp, **kw)

        def to_delimited(self, fp, **kw):
            gate(digest(canon(self.name)))
            return super().to_delimited(fp, **kw)
    SchedFrame.__module__ = __name__
    SchedFrame.__qualname__ = 'SchedFrame'
    return SchedFrame


SchedFrame = None


def sched_frame_class():
    global SchedFrame
    if SchedFrame is None:
        SchedFrame = _sched_frame_class()
    return SchedFrame


def store_frames(n):
    cls = sched_frame_class()
    out = []
    for i in range(n):
        a = np.array([[700 + 13 * i, 1], [2, 3]], dtype=np.int64)
        out.append((f'M{i}', cls(a, index=('p', 'q'), columns=('x', 'y'), name=f'M{i}')))
    return out


def _cfg(**kw):
    import static_frame as sf
    return sf.StoreConfig(index_depth=1, columns_depth=1, include_index=True, include_columns=True, **kw)


def observe_archive(fp):
    '''[(member label, id of the frame stored in it)] in archive order.'''
    out = []
    with zipfile.ZipFile(fp) as zf:
        for name in zf.namelist():
            text = zf.read(name).decode()
            rows = [ln.split('\t') for ln in text.splitlines()]
            out.append((name[:-4] if name.endswith('.txt') else name, int(rows[1][1])))
    return out


def store_cases(ctx, sizes, ks, fail_mode, rot, tmp):
    from static_frame.core.store_zip import StoreZipTSV
    cls = sched_frame_class()
    serial = 0
    for n in sizes:
        items = store_frames(n)
        ids = {l: int(fr.values[0, 0]) for l, fr in items}
        cpairs = [(l, ids[l]) for l, _ in items]
        digests = [digest(l) for l, _ in items]
        d2id = {digest(l): ids[l] for l, _ in items}
        # ---------------- write
        for c in range(1, n + 2):
            for k in ks:
                multiprocess = k is not None and k > 1
                m = n_futures(n, c, 'procs') if multiprocess else 0
                for pi in (feasible(m, k) if multiprocess else [None]):
                    for fails in fail_patterns(digests, fail_mode, rot):
                        serial += 1
                        fp = os.path.join(tmp, f'w{serial}.zip')
                        def attempt(check=True, fp=fp, pi=pi, fails=fails, k=k, c=c):
                            S = install(digests, 'procs', c, pi, fails) if pi is not None else install_free(fails)
                            if os.path.exists(fp):
                                os.remove(fp)
                            try:
                                StoreZipTSV(fp).write(iter(items), config=_cfg(write_max_workers=k, write_chunksize=c))
                                ok, payload = True, observe_archive(fp)
                            except Exception as e:  # noqa
                                ok, payload = False, err_name(e)
                            if pi is not None and check:
                                if check_schedule(S, list(pi), digests, f'StoreZipTSV.write k={k} c={c}') == 'timeout':
                                    raise ScheduleTimeout('timed out', (ok, payload))
                            return ok, payload
                        ok, payload = retrying(attempt)
                        install_free(fails)
                        fps = os.path.join(tmp, f'ws{serial}.zip')
                        try:
                            StoreZipTSV(fps).write(iter(items), config=_cfg())
                            sok, spayload = True, observe_archive(fps)
                        except Exception as e:  # noqa
                            sok, spayload = False, err_name(e)
                        for p in (fp, fps):
                            if os.path.exists(p):
                                os.remove(p)
                        py_fail = None
                        if ok != sok or (ok and payload != spayload):
                            py_fail = f'write with workers gave {payload}, serial write gave {spayload}'
                        obs = res_lit(ok, payload, pairs_lit)
                        fl = fails_lit({d2id[d]: v for d, v in fails.items()})
                        choices = choices_of(pi, m, k) if pi is not None else []
                        ctx.count('store:write', f'store:k:{k}', f'store:c:{c}', f'store:n:{n}', f'store:fails:{len(fails)}')
                        yield Case('api:store-write',
                                   {'call': f'StoreZipTSV(fp).write(items, config=StoreConfig(write_max_workers={k}, write_chunksize={c}))', 'items': cpairs,
                                    'completion_order': list(pi) if pi is not None else 'serial path', 'failing_ids': sorted(d2id[d] for d in fails),
                                    'observed': [ok, repr(payload)], 'serial': [sok, repr(spayload)]},
                                   m=f'c18_write_M {fl} {lit.oz(k)} {lit.z(c)} {nat_list(choices)} {pairs_lit(cpairs)} {obs}',
                                   s=f'c18_write_S {fl} {pairs_lit(cpairs)} {obs}', py_fail=py_fail,
                                   tags={'op': 'store.write', 'workers': k}, nontrivial=(m >= 2 or bool(fails)))
        # ---------------- read_many
        fp = os.path.join(tmp, f'r{n}.zip')
        install_free({})
        StoreZipTSV(fp).write(iter(items), config=_cfg())
        archive = observe_archive(fp)
        selections = [[l for l, _ in items], [l for l, _ in reversed(items)]]
        if n >= 2:
            selections.append([items[-1][0], items[0][0], items[-1][0]])
            selections.append([items[0][0], 'absent', items[1][0]])
        store = StoreZipTSV(fp)
        for labels in selections:
            nl = len(labels)
            present = [l for l in labels if l in ids]
            distinct = len(set(labels)) == nl and len(present) == nl
            ldig = [digest(l) for l in labels]
            for c in range(1, nl + 2):
                for k in ks:
                    multiprocess = k is not None
                    m = n_futures(nl, c, 'procs') if multiprocess else 0
                    enforce = multiprocess and distinct and k >= 1      # read_max_workers=0: the pool constructor refuses (malformed stream)
                    for pi in (feasible(m, k) if enforce else [None]):
                        for fails in fail_patterns([digest(l) for l in dict.fromkeys(present)], fail_mode if distinct else 'light', rot):
                            def observe(frames):
                                return [(canon(fr.name), int(fr.values[0, 0])) for fr in frames]

                            def attempt(check=True, labels=labels, pi=pi, fails=fails, k=k, c=c, ldig=ldig):
                                S = install(ldig, 'procs', c, pi, fails) if pi is not None else install_free(fails)
                                try:
                                    ok, payload = True, observe(store.read_many(labels, config=_cfg(read_max_workers=k, read_chunksize=c), container_type=cls))
                                except Exception as e:  # noqa
                                    ok, payload = False, err_name(e)
                                if pi is not None and check:
                                    if check_schedule(S, list(pi), ldig, f'StoreZipTSV.read_many k={k} c={c}') == 'timeout':
                                        raise ScheduleTimeout('timed out', (ok, payload))
                                return ok, payload
                            ok, payload = retrying(attempt)
                            install_free(fails)
                            try:
                                sok, spayload = True, observe(store.read_many(labels, config=_cfg(), container_type=cls))
                            except Exception as e:  # noqa
                                sok, spayload = False, err_name(e)
                            py_fail = None
                            if ok != sok or (ok and payload != spayload):
                                py_fail = f'read_many with workers gave {payload}, serial read_many gave {spayload}'
                            obs = res_lit(ok, payload, vals_lit)
                            fl = fails_lit({d2id[d]: v for d, v in fails.items()})
                            choices = choices_of(pi, m, k) if pi is not None else []
                            ctx.count('store:read_many', f'store:k:{k}', f'store:c:{c}', f'store:labels:{nl}', f'store:fails:{len(fails)}',
                                      'store:read-missing' if len(present) != nl else 'store:read-present')
                            yield Case('api:store-read_many',
                                       {'call': f'StoreZipTSV(fp).read_many({labels}, config=StoreConfig(read_max_workers={k}, read_chunksize={c}))', 'archive': archive,
                                        'completion_order': list(pi) if pi is not None else 'free/serial', 'failing_ids': sorted(d2id[d] for d in fails),
                                        'observed': [ok, repr(payload)], 'serial': [sok, repr(spayload)]},
                                       m=f'c18_read_M {fl} {lit.oz(k)} {lit.z(c)} {nat_list(choices)} {pairs_lit(archive)} {vals_lit(labels)} {obs}',
                                       s=(f'c18_read_S {fl} {pairs_lit(archive)} {vals_lit(labels)} {obs}' if k != 0 else None),
                                       py_fail=(py_fail if k != 0 else None),
                                       tags={'op': 'store.read_many', 'workers': k}, nontrivial=(m >= 2 or bool(fails) or not distinct))


def bus_store_cases(ctx, tmp):
    '''Public API: Bus.to_zip_* with write workers, Bus/Batch.from_zip_* with read workers, vs no workers.'''
    import static_frame as sf
    frames = [sf.Frame(np.array([[i, i + 1, i + 2], [i * 2, i * 3, i * 5]], dtype=np.int64), index=('p', 'q'), columns=('x', 'y', 'z'), name=f'B{i}')
              for i in range(5)]
    serial = 0
    for fmt in ('tsv', 'csv', 'pickle'):
        for k, c in ((1, 1), (2, 1), (3, 2), (2, 6), (8, 3)):
            serial += 1
            install_free({})
            fp1 = os.path.join(tmp, f'bus_par{serial}.zip')
            fp2 = os.path.join(tmp, f'bus_ser{serial}.zip')
            wk = dict(write_max_workers=k, write_chunksize=c, read_max_workers=k, read_chunksize=c)
            if serial % 2:
                cfg_p = sf.StoreConfig(index_depth=1, **wk)
                cfg_s = sf.StoreConfig(index_depth=1)
            else:
                # per-label configs (aligned with the default's worker settings): B1 and B3 are stored without their index
                cfg_p = sf.StoreConfigMap({lb: sf.StoreConfig(index_depth=0, include_index=False, **wk) for lb in ('B1', 'B3')},
                                          default=sf.StoreConfig(index_depth=1, **wk))
                cfg_s = sf.StoreConfigMap({lb: sf.StoreConfig(index_depth=0, include_index=False) for lb in ('B1', 'B3')},
                                          default=sf.StoreConfig(index_depth=1))
            py_fail = None
            try:
                bus = sf.Bus.from_frames(frames)
                getattr(bus, f'to_zip_{fmt}')(fp1, config=cfg_p)
                getattr(bus, f'to_zip_{fmt}')(fp2, config=cfg_s)
                with zipfile.ZipFile(fp1) as z1, zipfile.ZipFile(fp2) as z2:
                    if z1.namelist() != z2.namelist():
                        py_fail = f'archive member order differs: {z1.namelist()} vs {z2.namelist()}'
                    elif fmt != 'pickle' and [z1.read(nm) for nm in z1.namelist()] != [z2.read(nm) for nm in z2.namelist()]:
                        py_fail = 'archive member bytes differ between worker and serial write'
                if py_fail is None:
                    b_par = getattr(sf.Bus, f'from_zip_{fmt}')(fp1, config=cfg_p)
                    b_ser = getattr(sf.Bus, f'from_zip_{fmt}')(fp2, config=cfg_s)
                    got = [(l, f) for l, f in b_par.items()]
                    want = [(l, f) for l, f in b_ser.items()]
                    if [l for l, _ in got] != [l for l, _ in want]:
                        py_fail = f'Bus labels differ: {[l for l, _ in got]} vs {[l for l, _ in want]}'
                    else:
                        for (l, f1), (_, f2), f0 in zip(got, want, frames):
                            if not f1.equals(f2, compare_name=True, compare_dtype=True, compare_class=True) or f1.name != l \
                                    or f1.values.tolist() != f0.values.tolist():
                                py_fail = f'frame {l} read with workers differs from the serial read / the frame written'
                                break
                if py_fail is None:
                    bt_par = getattr(sf.Batch, f'from_zip_{fmt}')(fp1, config=cfg_p, max_workers=k, chunksize=c, use_threads=True).sum().to_frame()
                    bt_ser = getattr(sf.Batch, f'from_zip_{fmt}')(fp2, config=cfg_s).sum().to_frame()
                    if not bt_par.equals(bt_ser, compare_name=True, compare_dtype=True):
                        py_fail = 'Batch.from_zip with workers .sum().to_frame() differs from the sequential one'
            except Exception as e:  # noqa
                py_fail = f'{err_name(e)}: {e}'
            for p in (fp1, fp2):
                if os.path.exists(p):
                    os.remove(p)
            ctx.count(f'bus-store:{fmt}')
            yield Case(f'api:bus-store-{fmt}',
                       {'call': f'Bus.from_frames(B0..B4).to_zip_{fmt}(fp, config=StoreConfig(index_depth=1, write_max_workers={k}, write_chunksize={c}, read_max_workers={k}, '
                                f'read_chunksize={c})); Bus.from_zip_{fmt}(fp, config=same) vs the same without workers',
                        'config': 'one StoreConfig' if serial % 2 else 'StoreConfigMap: B1, B3 -> StoreConfig(index_depth=0, include_index=False, same workers), default as in call'},
                       py_fail=py_fail, tags={'op': 'bus-store', 'fmt': fmt}, nontrivial=True)


# ------------------------------------------------------------------------------------------ coverage-guided routes
class GateMap(dict):
    '''A mapping handed to apply_pool (node_iter.py:104-105 takes its __getitem__): every lookup passes through the schedule gate.'''

    def __getitem__(self, key):
        gate(digest(canon(key)))
        return dict.__getitem__(self, key)


def mapping_cases(ctx):
    '''apply_pool(mapping) -- the non-callable route -- against the sequential map_all(mapping): same labels/order, a missing key is an error.'''
    quick = ctx.tier == 'quick'
    for n in ((3, 1) if quick else (3, 0, 1, 2, 4)):
        for (iname, build, attr, kw, ctor) in iface_specs(n):
            if attr not in ('iter_element', 'iter_tuple', 'iter_label') or 'IH' in iname or 'Bus' in iname:
                continue
            container = build()
            cpairs = [(canon(k_), canon(v_)) for k_, v_ in get_items(container, attr, kw)]
            for items_form in (False, True):
                if attr == 'iter_label' and items_form:
                    continue
                name = attr + '_items' if items_form else attr
                args = [((k_, v_) if items_form else v_) for k_, v_ in cpairs]
                digests = [digest(a) for a in args]
                for missing in ([None] + ([n // 2] if n else [])):
                    table = GateMap((a, 3 * digest(a) + 1) for i, a in enumerate(args) if i != missing)
                    fails = {} if missing is None else {digests[missing]: 'KeyError'}
                    install_free({})
                    try:
                        sok, spayload = True, observe_container(getattr(container, name)(**kw).map_all(table), ctor, kw.get('axis', 0))
                    except Exception as e:  # noqa
                        sok, spayload = False, err_name(e)
                    for kind, k, c in ((('threads', 2, 1), ('procs', 2, 2)) if quick else (('threads', 1, 1), ('threads', 2, 1), ('threads', 3, 2), ('procs', 2, 1), ('procs', 2, 2), ('procs', 3, n + 1))):
                        m = n_futures(n, c, kind)
                        for pi in (list(feasible(m, k)) if (kind == 'threads' or not quick) else [random_feasible(ctx.rng, m, k)]):
                            def attempt(check=True, pi=pi, kind=kind, k=k, c=c):
                                # the schedule table knows a failing lookup only through `fails` being empty here: a missing key aborts the call
                                S = install([d for d in digests], kind, c if kind == 'procs' else 1, pi, {})
                                S.fails = {}
                                try:
                                    out = getattr(container, name)(**kw).apply_pool(table, max_workers=k, chunksize=c, use_threads=(kind == 'threads'))
                                    ok, payload = True, observe_container(out, ctor, kw.get('axis', 0))
                                except Exception as e:  # noqa
                                    ok, payload = False, err_name(e)
                                if check and missing is None and check_schedule(S, list(pi), digests, f'{name} mapping') == 'timeout':
                                    raise ScheduleTimeout('timed out', (ok, payload))
                                return ok, payload
                            if missing is None:
                                ok, payload = retrying(attempt)
                            else:
                                install_free({})
                                try:
                                    out = getattr(container, name)(**kw).apply_pool(table, max_workers=k, chunksize=c, use_threads=(kind == 'threads'))
                                    ok, payload = True, observe_container(out, ctor, kw.get('axis', 0))
                                except Exception as e:  # noqa
                                    ok, payload = False, err_name(e)
                            ctx.count('mapping:' + attr, f'mapping:kind:{kind}')
                            yield apply_case(ctx, 'api:apply_pool-mapping', iname, kw, ctor, items_form, kind, k, c, pi if missing is None else None, m, fails, cpairs,
                                             ok, payload, sok, spayload, tags={'mapping': True}, container=container)


BATCH_ATTR_OPS = [
    ("loc['p']", lambda b: b.loc['p']), ("loc[:, 'y']", lambda b: b.loc[:, 'y']), ('bloc[b > 52]', None), ("drop['x']", lambda b: b.drop['x']),
    ('drop.iloc[0]', lambda b: b.drop.iloc[0]), ("drop.loc['q']", lambda b: b.drop.loc['q']), ('sort_index(ascending=False)', lambda b: b.sort_index(ascending=False)),
    ('sort_columns(ascending=False)', lambda b: b.sort_columns(ascending=False)), ('isin((51, 63))', lambda b: b.isin((51, 63))),
    ('clip(lower=52, upper=70)', lambda b: b.clip(lower=52, upper=70)), ('transpose()', lambda b: b.transpose()), ('duplicated()', lambda b: b.duplicated()),
    ('drop_duplicated()', lambda b: b.drop_duplicated()), ('round(b / 7, 1)', lambda b: round(b / 7, 1)), ('roll(1, 1)', lambda b: b.roll(1, 1)),
    ('shift(1, fill_value=0)', lambda b: b.shift(1, fill_value=0)), ('count()', lambda b: b.count()), ('sample(1, seed=3)', lambda b: b.sample(1, seed=3)),
    ('head(1)', lambda b: b.head(1)), ('tail(1)', lambda b: b.tail(1)), ('loc_min()', lambda b: b.loc_min()), ('iloc_min()', lambda b: b.iloc_min()),
    ('loc_max(axis=1)', lambda b: b.loc_max(axis=1)), ('iloc_max()', lambda b: b.iloc_max()), ('cov()', lambda b: b.cov()), ('unique()', lambda b: b.unique()),
    ('(b > 60).all()', lambda b: (b > 60).all()), ('(b > 60).any(axis=1)', lambda b: (b > 60).any(axis=1)), ("rename('n').sum()", lambda b: b.rename('n').sum()),
    ('cumsum()', lambda b: b.cumsum()), ('cumprod(axis=1)', lambda b: b.cumprod(axis=1)), ('apply(values)', None), ('apply(values[0])', None), ('abs(-b)', lambda b: abs(-b)), ('b - 3', lambda b: b - 3), ('b == 61', lambda b: b == 61), ('61 == b', lambda b: 61 == b),
]


def values_step(fr):
    return fr.values


def values_row_step(fr):
    return fr.values[0]


def batch_routes_cases(ctx):
    '''Every other public Batch route that goes through _apply_attr / _apply_pool, plus the exporters and the dictionary-like interface
    of a pooled Batch, against the sequential Batch (Python side).'''
    import static_frame as sf
    quick = ctx.tier == 'quick'
    items = batch_frames(3, 'swapped')
    frames = [fr for _, fr in batch_frames(3, 'equal')]

    def cmp_frames(a, b):
        return a.equals(b, compare_name=True, compare_dtype=True, compare_class=True)
    finals = [('to_frame()', lambda b: b.to_frame(), cmp_frames)]
    for j, (name, fn) in enumerate(BATCH_ATTR_OPS):
        if name == 'bloc[b > 52]':
            fn = lambda b: b.bloc[items[0][1] > 52]  # noqa
        elif name == 'apply(values)':
            fn = lambda b: b.apply(values_step)  # noqa
        elif name == 'apply(values[0])':
            fn = lambda b: b.apply(values_row_step)  # noqa
        configs = [('threads', 2, 1), ('procs', 2, 2)] if (not quick or j % 4 == 0) else [('threads', 2 + j % 2, 1)]
        for kind, k, c in configs:
            install_free({})

            def run(batch, fn=fn):
                try:
                    return True, fn(batch).to_frame()
                except Exception as e:  # noqa
                    return False, err_name(e)
            ok, par = run(sf.Batch(iter(items), max_workers=k, chunksize=c, use_threads=(kind == 'threads')))
            sok, ser = run(sf.Batch(iter(items)))
            py_fail = None
            if ok != sok or (ok and not cmp_frames(par, ser)) or (not ok and par != ser):
                py_fail = f'Batch(max_workers={k}) {name} .to_frame() differs from the sequential Batch: {par!r} vs {ser!r}'
            ctx.count('batch-route:' + kind)
            yield Case(f'api:batch-route-{kind}', {'call': f'Batch(pairs L0..L2 (names swapped), max_workers={k}, chunksize={c}, use_threads={kind == "threads"}) {name} .to_frame()',
                                                  'observed_ok': ok, 'sequential_ok': sok},
                       py_fail=py_fail, tags={'op': 'Batch.route', 'route': name, 'kind': kind}, nontrivial=True)
    # reflected arithmetic operators: ContainerOperand.__r*__ hand _ufunc_binary_operator a LOCAL lambda, which cannot be pickled to a process pool
    # (finding C18-batch-reflected-pickle).  One frame only on process pools: two unpicklable call items can deadlock CPython 3.12.1 at pool shutdown.
    reflected = [('3 - b', lambda b: 3 - b), ('3 + b', lambda b: 3 + b), ('3 * b', lambda b: 3 * b), ('300 / b', lambda b: 300 / b), ('300 // b', lambda b: 300 // b)]
    for name, fn in reflected:
        for kind, k, c, its in (('threads', 2, 1, items), ('procs', 2, 1, items[:1])):
            install_free({})

            def run(batch, fn=fn):
                try:
                    return True, fn(batch).to_frame()
                except Exception as e:  # noqa
                    return False, err_name(e)
            ok, par = run(sf.Batch(iter(its), max_workers=k, chunksize=c, use_threads=(kind == 'threads')))
            sok, ser = run(sf.Batch(iter(its)))
            same = ok == sok and (cmp_frames(par, ser) if ok else par == ser)
            tags = {'op': 'Batch.route', 'route': name, 'kind': kind}
            if kind == 'procs':
                tags['finding'] = FINDING_REFLECTED      # by construction: reflected arithmetic operator + process pool
            ctx.count('batch-reflected:' + kind)
            yield Case(f'api:batch-reflected-{kind}', {'call': f'{name}  with b = Batch({len(its)} pairs, max_workers={k}, use_threads={kind == "threads"}); .to_frame()',
                                                      'observed': [ok, repr(par)[:200]], 'sequential_ok': sok},
                       py_fail=None if same else f'{name}: pooled Batch gave {par!r}, sequential Batch gave {ser!r}', tags=tags, nontrivial=True)
    # exporters / dictionary-like interface / constructors of a pooled Batch
    exporters = [
        ('from_frames(...).sum().to_frame()', lambda mk: mk(True).sum().to_frame(), cmp_frames),
        ('keys()', lambda mk: list(mk(False).sum().keys()), None), ('__iter__', lambda mk: list(iter(mk(False).sum())), None),
        ('values', lambda mk: [v.values.tolist() for v in mk(False).sum().values], None),
        ('shapes', lambda mk: (mk(False) * 2).shapes.to_pairs(), None),
        ('to_frame(axis=1)', lambda mk: mk(False).sum().to_frame(axis=1), cmp_frames),
        ("to_frame(index=('u','v','w'))", lambda mk: mk(False).sum().to_frame(index=('u', 'v', 'w')), cmp_frames),
        ('2-D to_frame(index=IndexAutoFactory)', lambda mk: (mk(False) * 2).to_frame(index=sf.IndexAutoFactory), cmp_frames),
        ('2-D to_frame(axis=1)', lambda mk: (mk(False) * 2).to_frame(axis=1), cmp_frames),
        ('to_bus()', lambda mk: [(l, f.values.tolist(), f.name) for l, f in (mk(False) * 2).to_bus().items()], None),
        ('display()', lambda mk: str((mk(False) * 2).display()).count('Frame'), None),
    ]
    for name, fn, cmp_ in exporters:
        for kind, k, c in (('threads', 2, 1), ('procs', 3, 2)):
            install_free({})

            def mk_par(from_frames, kind=kind, k=k, c=c):
                if from_frames:
                    return sf.Batch.from_frames(frames, max_workers=k, chunksize=c, use_threads=(kind == 'threads'))
                return sf.Batch(iter(items), max_workers=k, chunksize=c, use_threads=(kind == 'threads'))

            def mk_seq(from_frames):
                return sf.Batch.from_frames(frames) if from_frames else sf.Batch(iter(items))

            def run(mk, fn=fn):
                try:
                    return True, fn(mk)
                except Exception as e:  # noqa
                    return False, err_name(e)
            ok, par = run(mk_par)
            sok, ser = run(mk_seq)
            same = ok == sok and ((cmp_(par, ser) if cmp_ else par == ser) if ok else par == ser)
            ctx.count('batch-export:' + kind)
            yield Case(f'api:batch-export-{kind}', {'call': f'Batch(..., max_workers={k}, chunksize={c}, use_threads={kind == "threads"}) -> {name}', 'observed_ok': ok, 'sequential_ok': sok},
                       py_fail=None if same else f'{name}: pooled Batch gave {par!r}, sequential Batch gave {ser!r}',
                       tags={'op': 'Batch.export', 'route': name, 'kind': kind}, nontrivial=True)


def bus_own_config_cases(ctx, tmp):
    '''to_zip_* with config=None falls back to the Bus's own config (store_client_mixin.py:48-49): worker settings given at construction; and labels
    that are not strings with no label_encoder: RuntimeError with and without workers (the archive is not half-labelled).'''
    import static_frame as sf
    frames = [sf.Frame(np.array([[i, i + 1], [i * 2, i * 3]], dtype=np.int64), index=('p', 'q'), columns=('x', 'y'), name=f'B{i}') for i in range(4)]
    iframes = [f.rename(i * 10) for i, f in enumerate(frames)]
    serial = 0
    for fmt in ('tsv', 'pickle'):
        for k, c in ((2, 1), (3, 2)):
            for variant, fs in (('own-config', frames), ('int-labels-no-encoder', iframes)):
                serial += 1
                install_free({})

                def run(workers):
                    fp = os.path.join(tmp, f'own{serial}_{int(workers)}.zip')
                    cfg = sf.StoreConfig(index_depth=1, write_max_workers=(k if workers else None), write_chunksize=(c if workers else 1),
                                         read_max_workers=(k if workers else None), read_chunksize=(c if workers else 1))
                    try:
                        bus = sf.Bus.from_frames(fs, config=cfg)
                        getattr(bus, f'to_zip_{fmt}')(fp)
                        back = getattr(sf.Bus, f'from_zip_{fmt}')(fp, config=cfg)
                        return True, [(canon(l), canon(f.name), f.values.tolist()) for l, f in back.items()]
                    except Exception as e:  # noqa
                        return False, err_name(e)
                    finally:
                        if os.path.exists(fp):
                            os.remove(fp)
                ok, par = run(True)
                sok, ser = run(False)
                ctx.count('bus-own-config:' + variant)
                yield Case(f'api:bus-own-config-{fmt}',
                           {'call': f'Bus.from_frames(frames, config=StoreConfig(index_depth=1, write_max_workers={k}, write_chunksize={c}, read_max_workers={k}, read_chunksize={c}))'
                                    f'.to_zip_{fmt}(fp); Bus.from_zip_{fmt}(fp, config=same).items()', 'variant': variant, 'observed': [ok, repr(par)], 'without_workers': [sok, repr(ser)]},
                           py_fail=None if (ok, par) == (sok, ser) else f'with workers {par}, without {ser}', tags={'op': 'bus-store', 'fmt': fmt, 'variant': variant}, nontrivial=True)


def bus_persist_cases(ctx, tmp):
    '''Bus over a zipped store read with workers: every way Bus._store_reader drives read_many / read (max_persist None, > 1 in batches, == 1 one
    pool per label), selections in any order, non-string labels through label_encoder/decoder, FrameGO conversion of pickles.'''
    import static_frame as sf
    from static_frame.core.store_zip import StoreZipPickle
    quick = ctx.tier == 'quick'
    n = 5
    serial = 0
    for fmt, labels, enc in (('tsv', [f'M{i}' for i in range(n)], None), ('pickle', [10 * i + 3 for i in range(n)], (str, int)), ('csv', [f'M{i}' for i in range(n)], None)):
        frames = [sf.Frame(np.array([[700 + 13 * i, 1], [2, 3]], dtype=np.int64), index=('p', 'q'), columns=('x', 'y'), name=labels[i]) for i in range(n)]
        ids = {labels[i]: 700 + 13 * i for i in range(n)}
        extra = dict(label_encoder=enc[0], label_decoder=enc[1]) if enc else {}
        fp = os.path.join(tmp, f'persist_{fmt}.zip')
        getattr(sf.Bus.from_frames(frames), f'to_zip_{fmt}')(fp, config=sf.StoreConfig(index_depth=1, **extra))
        archive = [(lb, ids[lb]) for lb in labels]
        L = labels
        selections = [('items()', None), ('iloc[[3, 0, 2]]', [3, 0, 2]), ('iloc[::-1]', [4, 3, 2, 1, 0]), ('iloc[1:4]', [1, 2, 3]), ('loc[label 2]', 2),
                      ('[label 1]', (lambda bus: [(L[1], bus[L[1]])], [1])), ('[[label 3, label 0]]', (lambda bus: list(bus[[L[3], L[0]]].items()), [3, 0])),
                      ('values', (lambda bus: list(zip(L, bus.values)), [0, 1, 2, 3, 4])), ('drop.iloc[1].items()', (lambda bus: list(bus.drop.iloc[1].items()), [0, 2, 3, 4])),
                      ('reversed', (lambda bus: [(lb, bus.loc[lb]) for lb in reversed(bus)], [4, 3, 2, 1, 0])),
                      ('items() twice', (lambda bus: (list(bus.items()), list(bus.items()))[1], [0, 1, 2, 3, 4]))]
        for mp in (None, 1, 2, 3, 7):
            for k, c in (((2, 1), (3, 2)) if quick else ((1, 1), (2, 1), (2, 2), (3, 2), (4, 6))):
                for sname, sel in selections:
                    serial += 1
                    if quick and serial % (3 if fmt == 'tsv' else 5):
                        continue
                    install_free({})

                    def run(workers, mp=mp, sel=sel):
                        cfg = sf.StoreConfig(index_depth=1, read_max_workers=(k if workers else None), read_chunksize=(c if workers else 1), **extra)
                        try:
                            bus = getattr(sf.Bus, f'from_zip_{fmt}')(fp, config=cfg, max_persist=mp)
                            if sel is None:
                                got = list(bus.items())
                            elif isinstance(sel, tuple):
                                got = sel[0](bus)
                            elif isinstance(sel, int):
                                got = [(labels[sel], bus.loc[labels[sel]])]
                            else:
                                got = list(bus.iloc[sel].items())
                            return True, [(canon(l), canon(f.name), int(f.values[0, 0])) for l, f in got]
                        except Exception as e:  # noqa
                            return False, err_name(e)
                    ok, par = run(True)
                    sok, ser = run(False)
                    want = labels if sel is None else ([labels[sel]] if isinstance(sel, int) else [labels[i] for i in (sel[1] if isinstance(sel, tuple) else sel)])
                    py_fail = None
                    if (ok, par) != (sok, ser):
                        py_fail = f'Bus with read workers gave {par}, without workers {ser}'
                    elif ok and max(1, len(want)) <= (mp or 99) and [t[0] for t in par] != [canon(x) for x in want]:
                        py_fail = f'Bus labels {[t[0] for t in par]} are not the requested {want}'
                    elif ok and any(t[0] != t[1] for t in par):
                        py_fail = f'a Bus label is paired with the frame of another label: {par}'     # every frame was stored under its own name
                    obs = res_lit(ok, [(t[1], t[2]) for t in par] if ok else par, vals_lit)
                    sterm = f'c18_read_S [] {pairs_lit(archive)} {vals_lit(want)} {obs}'
                    ctx.count(f'bus-persist:{fmt}', f'bus-persist:max_persist:{mp}')
                    yield Case(f'api:bus-persist-{fmt}',
                               {'call': f'Bus.from_zip_{fmt}(fp, config=StoreConfig(index_depth=1, read_max_workers={k}, read_chunksize={c}'
                                        f'{", label_encoder=str, label_decoder=int" if enc else ""}), max_persist={mp}).{sname}', 'archive': archive,
                                'observed': [ok, repr(par)], 'without_workers': [sok, repr(ser)]},
                               s=sterm, py_fail=py_fail, tags={'op': 'bus-persist', 'fmt': fmt, 'max_persist': mp}, nontrivial=True)
    # pickled frames delivered as another container class
    fp = os.path.join(tmp, 'persist_go.zip')
    frames = [sf.Frame(np.array([[700 + 13 * i, 1]], dtype=np.int64), columns=('x', 'y'), name=f'G{i}') for i in range(4)]
    StoreZipPickle(fp).write(((f.name, f) for f in frames), config=sf.StoreConfig())
    for ctype in (sf.FrameGO, sf.Frame, sf.FrameHE):
        for k, c in ((1, 1), (2, 1), (3, 2)):
            for labels in (['G2', 'G0', 'G3'], ['G1']):
                def run(workers):
                    try:
                        out = list(StoreZipPickle(fp).read_many(labels, config=sf.StoreConfig(read_max_workers=(k if workers else None), read_chunksize=c), container_type=ctype))
                        return True, [(type(o).__name__, o.name, int(o.values[0, 0])) for o in out]
                    except Exception as e:  # noqa
                        return False, err_name(e)
                ok, par = run(True)
                sok, ser = run(False)
                ctx.count('store-pickle-container_type')
                yield Case('api:store-pickle-container_type',
                           {'call': f'StoreZipPickle(fp).read_many({labels}, config=StoreConfig(read_max_workers={k}, read_chunksize={c}), container_type={ctype.__name__})',
                            'observed': [ok, repr(par)], 'serial': [sok, repr(ser)]},
                           py_fail=None if (ok, par) == (sok, ser) and (not ok or [t[0] for t in par] == [ctype.__name__] * len(labels)) else
                           f'read_many with workers gave {par}, serial {ser}', tags={'op': 'store.read_many', 'container_type': ctype.__name__}, nontrivial=True)


# ------------------------------------------------------------------------------------------ StoreConfigMap decision table
def config_cases(ctx):
    import static_frame as sf
    import itertools
    encs = {0: None, 1: str, 2: repr}
    attrs = ['label_encoder', 'label_decoder', 'read_max_workers', 'read_chunksize', 'write_max_workers', 'write_chunksize']
    defaults = [dict(label_encoder=0, label_decoder=0, read_max_workers=None, read_chunksize=1, write_max_workers=None, write_chunksize=1),
                dict(label_encoder=1, label_decoder=0, read_max_workers=2, read_chunksize=2, write_max_workers=3, write_chunksize=2)]
    other = dict(label_encoder=2, label_decoder=1, read_max_workers=4, read_chunksize=3, write_max_workers=1, write_chunksize=5)

    def mk(d):
        return sf.StoreConfig(index_depth=1, label_encoder=encs[d['label_encoder']], label_decoder=encs[d['label_decoder']],
                              read_max_workers=d['read_max_workers'], read_chunksize=d['read_chunksize'],
                              write_max_workers=d['write_max_workers'], write_chunksize=d['write_chunksize'])

    def wl(d):
        return (f'(mk_wcfg {lit.z(d["label_encoder"])} {lit.z(d["label_decoder"])} {lit.oz(d["read_max_workers"])} {lit.z(d["read_chunksize"])} '
                f'{lit.oz(d["write_max_workers"])} {lit.z(d["write_chunksize"])})')

    def setl(c):
        return f'({lit.oz(c.read_max_workers)}, {lit.z(c.read_chunksize)}, {lit.oz(c.write_max_workers)}, {lit.z(c.write_chunksize)})'
    for default in defaults:
        for r in (0, 1, 2):
            for flipped in itertools.combinations(attrs, r):
                per = dict(default)
                for a in flipped:
                    per[a] = other[a]
                for second in (None, dict(default)):
                    m = [(0, per)] + ([(1, second)] if second is not None else [])
                    try:
                        cm = sf.StoreConfigMap({f'k{i}': mk(d) for i, d in m}, default=mk(default))
                        obs = '(Ok ' + lit.lst([setl(cm[f'k{q}']) for q in (0, 1, 7)]) + ')'
                        okflag = True
                    except Exception as e:  # noqa
                        obs = f'(Err {lit.s(err_name(e))})'
                        okflag = False
                    ctx.count('config-map:' + ('accepted' if okflag else 'rejected'))
                    mlit = lit.lst([f'({i}, {wl(d)})' for i, d in m])
                    yield Case('kernel:StoreConfigMap',
                               {'call': 'StoreConfigMap({k0: cfg, ...}, default=default); cm[k0], cm[k1], cm[k7]', 'default': default, 'flipped_in_k0': list(flipped),
                                'entries': len(m), 'observed': obs},
                               m=f'c18_config_M {wl(default)} {mlit} [0; 1; 7] {obs}',
                               s=f'c18_config_S {wl(default)} {mlit} {obs}',
                               tags={'op': 'StoreConfigMap'}, nontrivial=bool(flipped))


def _store_config_he():
    from static_frame.core.store import StoreConfigHE
    return StoreConfigHE()


def config_route_cases(ctx):
    '''The other ways a StoreConfigMap comes to be: a plain dict initializer (the default is then StoreConfigMap._DEFAULT: no workers), from_frames
    (the map is owned unchecked; every derived config has no workers), a default or an entry of the wrong class.'''
    import static_frame as sf
    frames = [sf.Frame(np.array([[1, 2]], dtype=np.int64), name=f'k{i}') for i in range(2)]
    d0 = '(mk_wcfg 0 0 None 1 None 1)'

    def setl(c):
        return f'({lit.oz(c.read_max_workers)}, {lit.z(c.read_chunksize)}, {lit.oz(c.write_max_workers)}, {lit.z(c.write_chunksize)})'
    routes = [
        ('from_initializer({k0: StoreConfig(index_depth=1)})', lambda: sf.StoreConfigMap.from_initializer({'k0': sf.StoreConfig(index_depth=1)}), f'[(0, {d0})]'),
        ('from_initializer({k0: StoreConfig(read_max_workers=2)})', lambda: sf.StoreConfigMap.from_initializer({'k0': sf.StoreConfig(read_max_workers=2)}),
         '[(0, (mk_wcfg 0 0 (Some 2) 1 None 1))]'),
        ('from_initializer({k0: StoreConfig(write_chunksize=3)})', lambda: sf.StoreConfigMap.from_initializer({'k0': sf.StoreConfig(write_chunksize=3)}),
         '[(0, (mk_wcfg 0 0 None 1 None 3))]'),
        ('from_frames(frames)', lambda: sf.StoreConfigMap.from_frames(frames), f'[(0, {d0}); (1, {d0})]'),
        ('from_initializer(None)', lambda: sf.StoreConfigMap.from_initializer(None), '[]'),
        ('from_initializer(StoreConfig(read_max_workers=3, read_chunksize=2))', lambda: sf.StoreConfigMap.from_initializer(sf.StoreConfig(read_max_workers=3, read_chunksize=2)), None),
        ('StoreConfigMap(default=StoreConfigHE())', lambda: sf.StoreConfigMap(default=_store_config_he()), 'class'),
        ('StoreConfigMap({k0: StoreConfigHE()})', lambda: sf.StoreConfigMap({'k0': _store_config_he()}), 'class'),
    ]
    for name, build, mlit in routes:
        try:
            cm = build()
            ok, obs = True, '(Ok ' + lit.lst([setl(cm[f'k{q}']) for q in (0, 1, 7)]) + ')'
        except Exception as e:  # noqa
            ok, obs = False, f'(Err {lit.s(err_name(e))})'
        py_fail = None
        if mlit == 'class' and (ok or 'ErrorInitStoreConfig' not in obs):
            py_fail = f'{name} was accepted / failed differently: {obs}'
        default = '(mk_wcfg 0 0 (Some 3) 2 None 1)' if mlit is None else d0
        ctx.count('config-route')
        yield Case('kernel:StoreConfigMap-routes', {'call': name + '; cm[k0], cm[k1], cm[k7]', 'observed': obs},
                   m=(f'c18_config_M {default} {mlit or "[]"} [0; 1; 7] {obs}' if mlit != 'class' else None),
                   s=(f'c18_config_S {default} {mlit or "[]"} {obs}' if mlit != 'class' else None),
                   py_fail=py_fail, tags={'op': 'StoreConfigMap'}, nontrivial=True)


# ------------------------------------------------------------------------------------------ driver
HANG_LIMIT = 900.0


def _watchdog(beat, stop):
    '''A pool that never returns (a deadlock inside concurrent.futures, a lost worker) must not hang the check for ever:
    no case for HANG_LIMIT seconds is reported as a failure of the machinery (exit 2), never as a violation.'''
    import sys
    while not stop.wait(5.0):
        if time.time() - beat[0] > HANG_LIMIT:
            sys.stderr.write(f'MACHINERY-ERROR property=C18: no progress for {HANG_LIMIT:.0f}s while driving a real pool (last case: {beat[1]}) -- '
                             'wall-clock failure of the machinery, not a violation\n')
            sys.stderr.flush()
            os._exit(2)


def cases(ctx):
    for key in _STATS:
        _STATS[key] = 0
    unexplained = 0
    beat, stop = [time.time(), 'none yet'], threading.Event()
    dog = threading.Thread(target=_watchdog, args=(beat, stop), daemon=True)
    dog.start()
    try:
        for case in _cases(ctx):
            if case.py_fail and 'finding' not in case.tags:
                unexplained += 1
            beat[0], beat[1] = time.time(), case.kind
            yield case
            beat[0] = time.time()
    finally:
        stop.set()
        dog.join(10)
    ctx.count(f'schedules:enforced:{_STATS["enforced"]}')
    bad = _STATS['timeout'] + _STATS['mismatch']
    if bad:
        ctx.count(f'schedules:not-achieved:{bad}')
        if not unexplained:
            # nothing the implementation returned was wrong, yet schedules were not achieved: the evidence of this run is
            # weaker than claimed -- a failure of the machinery (load, timeouts), never a violation
            raise MachineryError(f'C18: {_STATS["timeout"]} enforced schedules timed out and {_STATS["mismatch"]} completed in another order '
                                 f'(of {_STATS["enforced"]}) although every result equalled the sequential one')


def _cases(ctx):
    quick = ctx.tier == 'quick'
    ks = list(range(1, 9))
    rot = [ctx.rng.randint(0, 1000)]
    def rotate(specs, count):
        out = []
        for _ in range(min(count, len(specs))):
            out.append(specs[rot[0] % len(specs)])
            rot[0] += 1
        return out
    # the oracle first: if the contract does not hold the rest is meaningless (MachineryError)
    yield from oracle_cases(ctx, 'threads', (3, 0, 1, 2) if quick else (3, 0, 1, 2, 4, 5), ks)
    yield from oracle_cases(ctx, 'procs', (3, 0, 1, 2) if quick else (3, 0, 1, 2, 4), [2, 1, 3, 8] if quick else [2, 1, 3, 4, 5, 6, 7, 8])

    # apply_pool, thread pools, every feasible schedule
    for n in (2, 0, 1):
        specs = iface_specs(n)
        if quick and n == 2:
            specs = rotate(specs, len(specs) // 2)       # the other half comes with another seed
        yield from apply_pool_cases(ctx, 'threads', n, specs, [2, 1, 3, 4, 5, 6, 7, 8], cs_threads, 'light' if (quick and n == 2) else 'full',
                                    'api:apply_pool-threads', rot)
    yield from config_cases(ctx)
    yield from config_route_cases(ctx)
    yield from malformed_cases(ctx)
    if quick:
        specs3 = iface_specs(3)
        half = rotate(specs3, 4)
        yield from apply_pool_cases(ctx, 'threads', 3, half, ks, cs_threads, 'light', 'api:apply_pool-threads', rot)
        yield from apply_pool_cases(ctx, 'threads', 4, rotate(iface_specs(4), 1), ks, cs_threads, 'light', 'api:apply_pool-threads', rot)
    else:
        yield from apply_pool_cases(ctx, 'threads', 3, iface_specs(3), ks, cs_threads, 'full', 'api:apply_pool-threads', rot)
        yield from apply_pool_cases(ctx, 'threads', 4, iface_specs(4), ks, cs_threads, 'light', 'api:apply_pool-threads', rot)
        yield from apply_pool_cases(ctx, 'threads', 5, rotate(iface_specs(5), 4), ks, cs_threads, 'light', 'api:apply_pool-threads', rot)
    # apply_pool, process pools (chunking matters here), every feasible schedule of the chunks
    pk = [1, 2, 3, 8] if quick else ks
    for n in ((0, 1, 2, 3) if quick else (0, 1, 2, 3, 4)):
        yield from apply_pool_cases(ctx, 'procs', n, rotate(iface_specs(n), 1 if quick else 3), pk, cs_all,
                                    'full' if n <= 2 else 'light', 'api:apply_pool-procs', rot, forms=(False, True) if n <= 3 else (bool(rot[0] % 2),))
    if quick:
        yield from apply_pool_cases(ctx, 'procs', 4, rotate(iface_specs(4), 1), [2, 3], cs_all, 'light', 'api:apply_pool-procs', rot, forms=(bool(rot[0] % 2),))
    else:
        yield from apply_pool_cases(ctx, 'procs', 5, rotate(iface_specs(5), 1), [2, 3, 4], cs_all, 'light', 'api:apply_pool-procs', rot, forms=(bool(rot[0] % 2),))
    yield from namedtuple_cases(ctx)
    yield from sentinel_cases(ctx)
    yield from mapping_cases(ctx)
    yield from free_cases(ctx)
    # Batch
    yield from batch_cases(ctx, 'threads', (2, 0, 1, 3) if quick else (2, 0, 1, 3, 4), ks, 'full' if not quick else 'light', rot, cs_threads)
    # Frame.name unrelated to the Batch label (explicit pairs: unnamed / swapped / all equal) and chained Batches after a name-changing step
    yield from batch_cases(ctx, 'threads', (2, 3) if quick else (1, 2, 3, 4), [2, 3] if quick else [1, 2, 3, 4], 'light', rot, cs_threads,
                           variants=BATCH_VARIANTS[1:], reduced=True)
    yield from batch_cases(ctx, 'procs', (2, 3) if quick else (1, 2, 3, 4), [1, 2, 3] if quick else [1, 2, 3, 4, 8], 'light', rot, cs_all)
    yield from batch_cases(ctx, 'procs', (2,) if quick else (2, 3), [2] if quick else [2, 3], 'light', rot, cs_all,
                           variants=(BATCH_VARIANTS[2], BATCH_VARIANTS[5]) if quick else BATCH_VARIANTS[1:], reduced=True)
    yield from batch_attr_cases(ctx)
    yield from batch_routes_cases(ctx)
    # zipped stores
    tmp = tempfile.mkdtemp(prefix='c18_')
    try:
        yield from store_cases(ctx, (0, 1, 2, 3) if quick else (0, 1, 2, 3, 4), [None, 0, 1, 2, 3] if quick else [None, 0, 1, 2, 3, 4, 8], 'light', rot, tmp)
        yield from bus_store_cases(ctx, tmp)
        yield from bus_persist_cases(ctx, tmp)
        yield from bus_own_config_cases(ctx, tmp)
    finally:
        shutil.rmtree(tmp, ignore_errors=True)
        global _S
        _S = None
