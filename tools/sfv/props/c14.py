'''C14 -- missing-value operations act per cell exactly as specified.'''
import itertools

import numpy as np

from .. import lit
from .. import zoo
from ..core import Case

ID = 'C14'
MANIFEST = {
    'text': ('Coq theorems, all unbounded (every list length, every number of rows, every partition of a row into 1-D/2-D blocks of any widths, '
             'every limit >= 0 with 0 = unlimited): C14_ffill_axis1_any_layout / C14_ffill_row_any_partition -- the block-wise axis-1 forward fill '
             'of TypeBlocks._fillna_directional_axis_1 (bridging_values / bridging_count / bridging_isna carried across blocks, whole-block fast '
             'path, limit trimming) equals the two-line per-row specification S_ffill for EVERY block layout, by induction over the block list with '
             'the invariant "bridging state = S_ffill carry at the block boundary"; C14_bfill_axis1_any_layout -- the same for the '
             'backward walk, UNGUARDED, stated over the decision "which yielded slice gives the bridging count" that tools/sfv/props/c14.py:generate extracts from the '
             'source on every run (Gen/Gen_c14.v): reverting /repo 690a4f3 flips the decision and breaks the proof obligation (C14_bfill_axis1_any_decision_guarded keeps the '
             'guarded statement for either decision); C14_dropna_keep_refines -- the keep mask of dropna_to_keep_locations = the lines S keeps, unguarded, over the regenerated '
             'decision dropna_1d_reshaped (/repo 35bd018; _any_decision_guarded for either); '
             'C14_dir1d_forward / _backward -- binary_transition + slices_from_targets + slice assignment (Series, axis 0) equal S_ffill / S_bfill; '
             'C14_sided_axis1_any_layout, C14_sided1d -- leading/trailing fills (isna_exit_previous across blocks, reversed walk) equal S_leading / S_trailing; '
             'C14_ffill_exact, C14_bfill_exact, C14_decomposition, C14_leading_exact -- S copies exactly the nearest preceding (following) present value into exactly '
             'min(run, limit) cells; C14_fill_never_changes_present; C14_fillna_exact; C14_isna_exact (over the kind constants REGENERATED from util.py); '
             'C14_count_spec; C14_dropna_exact; C14_fillna_series_refines -- for any label type with unique labels the label-restricted Series.fillna(Series) of the code '
             '(intersect, isin, reindex with util.dtype_to_fill_value, assign) equals the specification and the internal filler never reaches a cell. Correspondence on every run: kernel level (util.binary_transition 1-D and per line of 2-D, util.slices_from_targets '
             'on every Boolean vector up to the tier bound) and API level (Series / Frame isna, notna, count, dropna both axes all/any, fillna by element and by '
             'labelled Series/Frame, leading/trailing/forward/backward fills on both axes) exhaustively over every missing pattern x every block layout x limit x '
             'direction of the small shapes listed in RULE, plus a seeded random stream of larger mixed-dtype frames and a malformed-input stream.'),
    'note': ('trusted: Coq kernel; the hand-written models SF/Missing.v, SF/MissingCheck.v (tied to /repo only by the correspondence cases of the run -- 0 impl!=M required); '
             'the harness; NumPy (isnan / isnat / astype / slice assignment are not modelled: cells are compared as Python values, a missing marker may change kind, '
             'an int copied into a float block is compared by value). Vectorised NumPy row operations are modelled per row; the whole-block fast path of the axis-1 fills '
             '(no missing cell in ANY row) is modelled by a per-block flag computed from all rows. Partial: Frame.fillna(Frame), Frame.dropna above the keep mask, count, notna have '
             'specification-level checks (impl vs S on every case) and theorems about S, but no separate implementation model; dtype of the result is not compared '
             '(C03 records that axis-1 fills give layout-dependent dtypes). Reached since the extension round: float16/float32/timedelta64[D] columns next to uint8 and bytes '
             'columns, FrameGO / FrameHE / SeriesHE, depth-2 hierarchical index and columns, 0-row / 0-column frames and the empty Series, containers of every dtype kind of '
             'util.dtype_to_fill_value. NOT covered: complex dtypes (no literal for complex values), datetime64/timedelta64 units other than D (mixed units change the unit of '
             'present cells: C07), tuple cells, negative limits, IndexHierarchy deeper than 2, Frame.from_overlay (TypeBlocks.fillna_by_values: C11), NaN labels. '
             'Known findings (4): datetime64[ns] cells turned into ints by fills that coerce to object; Series.fillna(Series) with a hierarchical index raises; every missing-value operation on a Frame without columns raises; fillna_leading/trailing(axis=0) on a 0-row Frame raises. Repaired and kept as regression inputs: backward axis-1 fill with limit across a 2-D block (690a4f3), Frame.dropna(axis=1) on a single 1-D block (35bd018).'),
    'technique': 'refinement proof M = S by induction over the block list (invariant: bridging state = carry of S); kernel proofs over run/group decomposition; differential correspondence',
}
PROPERTY_FILES = ['Properties/C14.v']
REFUTED_FILES = []
GENERATED_FILES = ['Gen/Gen_c14.v']
MODEL_FILES = ['SF/Missing.v', 'SF/MissingSpecCheck.v', 'SF/MissingFill.v', 'Gen/Gen_c14.v', 'SF/MissingCheck.v']
TRANSLATED = ['DTYPE_INEXACT_KINDS', 'DTYPE_NAT_KINDS']
IMPORTS = 'Require Import SF.Prelude SF.Value SF.Dtype SF.Missing SF.MissingSpecCheck SF.MissingCheck.'
# the specification side only: nothing here depends on Gen/Gen_c14.v, so S stays evaluable when generate() fails closed
IMPORTS_SPEC_ONLY = 'Require Import SF.Prelude SF.Value SF.Dtype SF.Missing SF.MissingSpecCheck.'
RULE = ('kernel strata: util.binary_transition on EVERY Boolean vector of length <= 8 (quick) / 11 (thorough) and per line of every 2-D Boolean array of the listed shapes; '
        'util.slices_from_targets on every Boolean vector of length <= 6 / 9 x direction x limit 0..3, all called directly. '
        'api strata, exhaustive: Series (float / object-None / object-NaN / datetime64[D]) every missing pattern of length <= 5 / 7 x every operation x limit 0..n; '
        'Frames 1 x n float columns (n <= 4 quick, <= 5 thorough, 1 x 6 with limit 2) every pattern x EVERY block layout (zoo.layouts_for) x limit 0..min(n,2) (thorough 0..n) x forward/backward on axis 1; '
        '2 x 3 (thorough also 2 x 4, 3 x 3) every pattern x every layout x limits x directions x both axes + leading/trailing; mixed frames (float/object/datetime between int/bool/str '
        'columns) every pattern x every layout x all operations; 2 x 2 x label sub/supersets for fillna(Frame); 3 cells x label subsets for fillna(Series). '
        'Then a seeded sample of 1 x 5 (quick) and a seeded random stream of frames up to 4 x 8 with random kinds/layout/limit, and 8 malformed calls. '
        'Extension strata: dtype kinds f/h/T/U/Y (Series every pattern <= 3, mixed frames every pattern x layout), FrameGO/FrameHE/SeriesHE, depth-2 hierarchical labels '
        '(every pattern of 3 cells / 3x2 / 2x3), four empty frames x 21 calls + the empty Series, container dtype kinds bool/str/object/datetime/timedelta/uint. '
        'A case is non-trivial when the input has at least one missing cell; distinct = distinct (operation, input, layout, arguments).')
ASSUMPTIONS = ['limit = 0 means "no limit" (library convention, documented in the fillna docstrings); limit >= 0',
               'NumPy elementwise semantics: isnan / isnat / != / astype(object) keep every present value (datetime64[D] only; ns is outside the model)',
               'index and column labels are unique (C02)']
TRUSTED = ['per-row modelling of vectorised NumPy operations in TypeBlocks._fillna_directional_axis_1 / _fillna_sided_axis_1']
EXHAUSTIVE = {'quick': True, 'thorough': True}

FINDING_BFILL = 'C14-bfill-axis1-bridge-count'
FINDING_DROPNA = 'C14-dropna-axis1-single-1d-block'
FINDING_DTNS = 'C14-dt64ns-object-cast'


# ---------------------------------------------------------------------------------------------- decisions read from the source
def source_decisions(repo):
    """Fail-closed extraction (ast) of two decisions of static_frame/core/type_blocks.py that the implementation models are parameterised by:
      bwd_count_from_first -- in TypeBlocks._fillna_directional_axis_1, which yielded slice sets `bridging_count[i]` after the in-block fill:
                              the loop variable `target_slice` (the LAST yielded slice: pinned code, finding C14-bfill-axis1-bridge-count) or
                              `edge_slice`, assigned under `if directional_forward or edge_slice is None` (the first slice when walking backward);
      dropna_1d_reshaped   -- in TypeBlocks.dropna_to_keep_locations, whether a 1-D consolidated isna array is used as is (`to_drop = unified`:
                              pinned code, finding C14-dropna-axis1-single-1d-block) or reshaped to one column first.
    Any other shape raises: the models no longer describe the code."""
    import ast
    import os
    with open(os.path.join(repo, 'static_frame/core/type_blocks.py')) as fh:
        tree = ast.parse(fh.read())
    cls = next(n for n in tree.body if isinstance(n, ast.ClassDef) and n.name == 'TypeBlocks')
    fns = {n.name: n for n in cls.body if isinstance(n, ast.FunctionDef)}

    def src(n):
        return ast.unparse(n)

    f = fns['_fillna_directional_axis_1']
    names = []
    for n in ast.walk(f):
        if isinstance(n, ast.Assign) and len(n.targets) == 1 and src(n.targets[0]) == 'bridging_count[i]':
            v = src(n.value)
            if not (v.startswith('len(range(*') and v.endswith('.indices(length)))')):
                raise ValueError(f'unexpected bridging_count[i] assignment: {v}')
            names.append(v[len('len(range(*'):-len('.indices(length)))')])
    if names == ['target_slice']:
        cf = False
    elif names == ['edge_slice']:
        guards = [src(n.test) for n in ast.walk(f) if isinstance(n, ast.If) and any(src(b) == 'edge_slice = target_slice' for b in n.body)]
        if guards != ['directional_forward or edge_slice is None']:
            raise ValueError(f'edge_slice is set under an unexpected condition: {guards}')
        cf = True
    else:
        raise ValueError(f'bridging_count[i] is set from {names}')
    loops = [n for n in ast.walk(f) if isinstance(n, ast.For) and src(n.target) == '(target_slice, value)' and 'slices_from_targets' in src(n.iter)]
    if len(loops) != 1:
        raise ValueError('expected exactly one loop over slices_from_targets in _fillna_directional_axis_1')

    g = fns['dropna_to_keep_locations']
    text = src(g)
    if 'to_drop = unified' in text and 'unified.ndim == 2' in text and 'reshape' not in text:
        reshaped = False
    elif 'to_drop = unified' not in text and 'if unified.ndim == 1:' in text and 'unified = unified.reshape(unified.shape[0], 1)' in text:
        reshaped = True
    else:
        raise ValueError('dropna_to_keep_locations has an unexpected shape')
    if 'condition_axis = 0 if axis else 1' not in text or 'to_drop = condition(unified, axis=condition_axis)' not in text:
        raise ValueError('dropna_to_keep_locations: condition axis computation changed')
    return {'bwd_count_from_first': cf, 'dropna_1d_reshaped': reshaped}


def generate(repo):
    d = source_decisions(repo)
    text = ('(* GENERATED by tools/sfv/props/c14.py (generate) from /repo/static_frame/core/type_blocks.py -- do not edit; regenerated on every run. *)\n'
            'Require Import SF.Prelude.\n\n'
            '(* TypeBlocks._fillna_directional_axis_1: backward, the bridging count leaving a 2-D block comes from the FIRST yielded slice *)\n'
            f'Definition bwd_count_from_first : bool := {lit.b(d["bwd_count_from_first"])}.\n\n'
            '(* TypeBlocks.dropna_to_keep_locations: a 1-D consolidated isna array is reshaped to one column before the condition is applied *)\n'
            f'Definition dropna_1d_reshaped : bool := {lit.b(d["dropna_1d_reshaped"])}.\n')
    return {'Gen/Gen_c14.v': text}


_DECISIONS = None


def decisions():
    global _DECISIONS
    if _DECISIONS is None:
        from ..core import REPO
        _DECISIONS = source_decisions(REPO)
    return _DECISIONS

# ---------------------------------------------------------------------------------------------- values
EPOCH = np.datetime64('2020-01-01', 'D')


def present_value(kind, i, j):
    if kind == 'F':
        return float(10 * (j + 1) + i) + 0.5
    if kind in 'ON':
        return f'r{i}c{j}'
    if kind == 'D':
        return EPOCH + np.timedelta64(10 * j + i, 'D')
    if kind == 'I':
        return 100 * (j + 1) + i
    if kind == 'B':
        return (i + j) % 2 == 0
    if kind == 'S':
        return f's{i}{j}'
    if kind in 'fh':
        return float(10 * (j + 1) + i) + 0.5      # exact in float32 / float16
    if kind == 'T':
        return np.timedelta64(10 * j + i + 1, 'D')
    if kind == 'U':
        return 20 * (j + 1) + i                   # uint8
    if kind == 'Y':
        return f'b{i}{j}'.encode('ascii')
    raise ValueError(kind)


MISSING = {'F': np.nan, 'O': None, 'N': np.nan, 'D': np.datetime64('NaT', 'D'), 'f': np.nan, 'h': np.nan, 'T': np.timedelta64('NaT', 'D')}
DTYPES = {'F': np.dtype('float64'), 'O': np.dtype(object), 'N': np.dtype(object), 'D': np.dtype('datetime64[D]'),
          'I': np.dtype('int64'), 'B': np.dtype(bool), 'S': np.dtype('<U4'),
          'f': np.dtype('float32'), 'h': np.dtype('float16'), 'T': np.dtype('timedelta64[D]'), 'U': np.dtype('uint8'), 'Y': np.dtype('S3')}
CAN_MISS = 'FONDfhT'


def column(kind, j, miss_col):
    '''1-D array of one column; miss_col[i] True -> missing cell.'''
    n = len(miss_col)
    a = np.empty(n, dtype=DTYPES[kind])
    for i in range(n):
        a[i] = MISSING[kind] if miss_col[i] else present_value(kind, i, j)
    a.flags.writeable = False
    return a


def _norm(v):
    import datetime as _dt
    if isinstance(v, _dt.timedelta) and v.seconds == 0 and v.microseconds == 0:
        return np.timedelta64(v.days, 'D')     # timedelta64[D].astype(object) yields datetime.timedelta: the same value
    return v


def col_lit(a):
    return lit.vlist([_norm(v) for v in lit.array_vals(a)])


def cols_lit(cols):
    return lit.lst([col_lit(c) for c in cols])


def nat(n):
    return f'{int(n)}%nat'


def layout_lit(layout):
    return lit.lst([f'({nat(w)}, {lit.b(d)})' for w, d in layout])


def frame_cols(fr):
    return [np.array(a) for a in fr._blocks.axis_values(axis=0)] if fr.shape[1] else []


def blist(a):
    return lit.lst([lit.b(bool(x)) for x in a])


def zlist(a):
    return lit.lst([lit.z(int(x)) for x in a])


def masks(nrows, kinds):
    '''every missing pattern: a dict col -> tuple of bools, over the cells of the columns that can be missing.'''
    slots = [(i, j) for j, k in enumerate(kinds) if k in CAN_MISS for i in range(nrows)]
    for bits in itertools.product((False, True), repeat=len(slots)):
        m = [[False] * nrows for _ in kinds]
        for (i, j), bit in zip(slots, bits):
            m[j][i] = bit
        yield m


def random_mask(rng, nrows, kinds, p):
    return [[(k in CAN_MISS and rng.random() < p) for _ in range(nrows)] for k in kinds]


def build(kinds, mask):
    return [column(k, j, mask[j]) for j, k in enumerate(kinds)]


def any_missing(mask):
    return any(any(c) for c in mask)


# ---------------------------------------------------------------------------------------------- input class of a repaired finding (kept as regression)
def in_bfill_class(mask, layout, limit):
    '''Input class of finding C14-bfill-axis1-bridge-count, decided on the INPUT only: backward axis-1 fill with limit > 0 where, in some row,
    a 2-D block starts with a missing cell, has two or more fillable missing runs whose (limit-trimmed) lengths differ between the
    first and the last, and the cell just left of the block is missing (so the count carried out of the block is consulted).'''
    if limit <= 0:
        return False
    nrows = len(mask[0]) if mask else 0
    pos = 0
    for w, is2d in layout:
        if is2d and w >= 5 and pos > 0:
            for i in range(nrows):
                row = [mask[j][i] for j in range(pos, pos + w)]
                if not row[0] or not mask[pos - 1][i]:
                    continue
                runs = []   # lengths of missing runs that are followed by a present cell
                k = 0
                for c in row:
                    if c:
                        k += 1
                    else:
                        if k:
                            runs.append(min(k, limit))
                        k = 0
                if len(runs) >= 2 and runs[0] != runs[-1]:
                    return True
        pos += w
    return False


# ---------------------------------------------------------------------------------------------- kernels
def kernel_cases(ctx):
    from static_frame.core.util import binary_transition, slices_from_targets
    nmax = 8 if ctx.tier == 'quick' else 11
    for n in range(0, nmax + 1):
        for bits in itertools.product((False, True), repeat=n):
            a = np.array(bits, dtype=bool)
            out = [int(x) for x in binary_transition(a)]
            ctx.count(f'bt:len{n}')
            # specification on the implementation's answer: False cells with a True neighbour
            want = [i for i in range(n) if not bits[i] and ((i + 1 < n and bits[i + 1]) or (i > 0 and bits[i - 1]))]
            yield Case('kernel:binary_transition', {'call': 'util.binary_transition', 'array': [int(b) for b in bits], 'observed': out},
                       m=f'chk_bt {blist(bits)} {zlist(out)}',
                       py_fail=None if out == want else f'binary_transition({list(bits)}) = {out}, expected {want}',
                       tags={'kernel': 'binary_transition'}, nontrivial=any(bits) and not all(bits))
    # 2-D: per row (axis=1, used by the axis-1 fill) and per column (axis=0, used by the axis-0 fill)
    shapes = [(2, 3), (3, 2)] if ctx.tier == 'quick' else [(2, 3), (3, 2), (2, 4), (3, 3), (4, 2)]
    for r, c in shapes:
        for bits in itertools.product((False, True), repeat=r * c):
            a = np.array(bits, dtype=bool).reshape(r, c)
            for axis in (0, 1):
                post = binary_transition(a, axis=axis)
                lines = [a[:, j] for j in range(c)] if axis == 0 else [a[i] for i in range(r)]
                outs = [[] if p is None else [int(x) for x in p] for p in post]
                ctx.count(f'bt2d:{r}x{c}')
                term = ' && '.join(f'chk_bt {blist(ln)} {zlist(o)}' for ln, o in zip(lines, outs)) or 'true'
                yield Case('kernel:binary_transition_2d',
                           {'call': f'util.binary_transition(array, axis={axis})', 'array': a.astype(int).tolist(), 'observed': outs},
                           m=f'({term}) && Nat.eqb {nat(len(outs))} {nat(len(lines))}',
                           tags={'kernel': 'binary_transition_2d'}, nontrivial=bool(a.any() and not a.all()))
    nmax = 6 if ctx.tier == 'quick' else 9
    for n in range(0, nmax + 1):
        for bits in itertools.product((False, True), repeat=n):
            a = np.array(bits, dtype=bool)
            t = [int(x) for x in binary_transition(a)]
            vals = [7 + 3 * x for x in t]
            for fwd in (True, False):
                for limit in range(0, min(n, 3) + 1):
                    got = [(s.start, s.stop, int(v)) for s, v in slices_from_targets(
                        target_index=t, target_values=vals, length=n, directional_forward=fwd, limit=limit,
                        slice_condition=lambda s: bool(a[s.start]))]
                    ctx.count(f'sft:len{n}')
                    out = lit.lst([f'({lit.z(x)}, {lit.z(y)}, {lit.z(v)})' for x, y, v in got])
                    yield Case('kernel:slices_from_targets',
                               {'call': 'util.slices_from_targets', 'sel': [int(b) for b in bits], 'target_index': t, 'target_values': vals,
                                'length': n, 'directional_forward': fwd, 'limit': limit, 'observed': [list(g) for g in got]},
                               m=f'chk_sft {zlist(t)} {zlist(vals)} {lit.z(n)} {lit.b(fwd)} {lit.z(limit)} {blist(bits)} {out}',
                               tags={'kernel': 'slices_from_targets'}, nontrivial=len(t) > 0)


# ---------------------------------------------------------------------------------------------- Series
def series_ops(ctx, kind, miss, tag):
    '''all C14 operations on one Series.'''
    import static_frame as sf
    n = len(miss)
    a = column(kind, 0, miss)
    labels = [f'k{i}' for i in range(n)]
    s = sf.Series(a, index=labels, name='s')
    inp = col_lit(a)
    nt = any(miss)
    base = {'series': lit.array_vals(a) if kind != 'D' else [str(x) for x in a], 'kind': kind, 'index': labels}
    ctx.count(f'series:{kind}:len{n}')

    def obs(x):
        return [str(v) for v in x] if x.dtype.kind == 'M' else x.tolist()

    out = s.isna().values
    yield Case('api:series-isna', dict(base, call='s.isna()', observed=out.tolist()),
               m=f'chk_isna_M {lit.s(a.dtype.kind)} {inp} {blist(out)}', s=f'chk_isna_S {inp} {blist(out)}', tags={'op': 'isna', **tag}, nontrivial=nt)
    out = s.notna().values
    yield Case('api:series-isna', dict(base, call='s.notna()', observed=out.tolist()),
               s=f'chk_notna_S {inp} {blist(out)}', tags={'op': 'notna', **tag}, nontrivial=nt)
    out = int(s.count())
    yield Case('api:series-count', dict(base, call='s.count()', observed=out),
               s=f'chk_count_S {inp} {lit.z(out)}', tags={'op': 'count', **tag}, nontrivial=nt)
    d = s.dropna()
    yield Case('api:series-dropna', dict(base, call='s.dropna()', observed=[lit.labels(d.index), obs(d.values)]),
               s=f'chk_dropna_S {lit.vlist(labels)} {inp} {lit.vlist(lit.labels(d.index))} {col_lit(d.values)}',
               tags={'op': 'dropna', **tag}, nontrivial=nt)
    fill = present_value(kind, 90, 9)
    out = s.fillna(fill).values
    yield Case('api:series-fillna', dict(base, call=f's.fillna({fill!r})', observed=obs(out)),
               s=f'chk_fillna_S {lit.val(fill)} {inp} {col_lit(out)}', tags={'op': 'fillna', **tag}, nontrivial=nt)
    for leading in (True, False):
        fn = s.fillna_leading if leading else s.fillna_trailing
        out = fn(fill).values
        yield Case('api:series-sided', dict(base, call=f's.{fn.__name__}({fill!r})', observed=obs(out)),
                   m=f'chk_sided1d_M {lit.b(leading)} {lit.val(fill)} {inp} {col_lit(out)}',
                   s=f'chk_sided1d_S {lit.b(leading)} {lit.val(fill)} {inp} {col_lit(out)}',
                   tags={'op': 'sided', 'leading': leading, **tag}, nontrivial=nt)
    for fwd in (True, False):
        fn = s.fillna_forward if fwd else s.fillna_backward
        for limit in range(0, n + 1):
            out = fn(limit).values
            yield Case('api:series-directional', dict(base, call=f's.{fn.__name__}({limit})', observed=obs(out)),
                       m=f'chk_dir1d_M {lit.b(fwd)} {lit.z(limit)} {inp} {col_lit(out)}',
                       s=f'chk_dir1d_S {lit.b(fwd)} {lit.z(limit)} {inp} {col_lit(out)}',
                       tags={'op': 'directional', 'fwd': fwd, 'axis': 0, **tag}, nontrivial=nt)


OTHER_KINDS = {
    'bool': lambda n: np.array([True] * n, dtype=bool),
    'str': lambda n: np.array([f'w{i}' for i in range(n)], dtype='<U2'),
    'obj': lambda n: np.array([f'o{i}' if i % 2 else 900 + i for i in range(n)], dtype=object),
    'dt': lambda n: np.array([EPOCH + np.timedelta64(300 + i, 'D') for i in range(n)], dtype='datetime64[D]'),
    'td': lambda n: np.array([np.timedelta64(40 + i, 'D') for i in range(n)], dtype='timedelta64[D]'),
    'uint': lambda n: np.array([200 + i for i in range(n)], dtype=np.uint8),
}


def series_fill_container(ctx, kind, miss, other_labels, other_miss, tag):
    import static_frame as sf
    from static_frame.core.util import dtype_to_fill_value
    n = len(miss)
    a = column(kind, 0, miss)
    labels = [f'k{i}' for i in range(n)]
    s = sf.Series(a, index=labels)
    if other_miss == 'int':
        # a container that can never hold a missing marker: the reindex fill value used internally is then 0, and must not leak
        ov = np.array([700 + i for i in range(len(other_labels))], dtype=np.int64)
    elif isinstance(other_miss, str) and other_miss in OTHER_KINDS:
        # every branch of util.dtype_to_fill_value: the internal fill value (False, '', None, NaT, timedelta 0) must not leak either
        ov = OTHER_KINDS[other_miss](len(other_labels))
    else:
        ov = np.empty(len(other_labels), dtype=DTYPES[kind])
        for i, (lab, ms) in enumerate(zip(other_labels, other_miss)):
            ov[i] = MISSING[kind] if ms else present_value(kind, 50 + i, 7)
    other = sf.Series(ov, index=other_labels)
    out = s.fillna(other).values
    ctx.count(f'series-container:{kind}:len{n}')
    yield Case('api:series-fillna-container',
               {'series': [str(x) for x in a], 'index': labels, 'other': [str(x) for x in ov], 'other_index': list(other_labels),
                'call': 's.fillna(other)', 'observed': [str(x) for x in out]},
               m=(f'chk_fillna_labels_M {lit.val(dtype_to_fill_value(ov.dtype))} {lit.vlist(labels)} {col_lit(a)} {lit.vlist(list(other_labels))} '
                  f'{col_lit(ov)} {col_lit(out)}'),
               s=f'chk_fillna_labels_S {lit.vlist(labels)} {col_lit(a)} {lit.vlist(list(other_labels))} {col_lit(ov)} {col_lit(out)}',
               tags={'op': 'fillna-container', **tag}, nontrivial=any(miss))


def series_cases(ctx):
    nmax = 5 if ctx.tier == 'quick' else 7
    for kind in 'FOD':
        top = nmax if kind == 'F' else nmax - 1
        for n in range(0, top + 1):
            for miss in itertools.product((False, True), repeat=n):
                yield from series_ops(ctx, kind, miss, {'container': 'Series'})
    # object column whose missing marker is a float NaN
    for n in range(1, 4):
        for miss in itertools.product((False, True), repeat=n):
            yield from series_ops(ctx, 'N', miss, {'container': 'Series'})
    # label-aligned fill: every missing pattern of 3 cells x every subset of {k0,k1,k2,zz} as the other's labels (in two orders)
    pool = ['k2', 'zz', 'k0', 'k1']
    for kind in ('F', 'O') if ctx.tier == 'quick' else ('F', 'O', 'D'):
        for miss in itertools.product((False, True), repeat=3):
            for r in range(0, len(pool) + 1):
                for labs in itertools.combinations(pool, r):
                    for om in ([False] * r, [i == 0 for i in range(r)], 'int') + (tuple(OTHER_KINDS) if kind == 'F' else ()):
                        if r == 0 and om:
                            continue
                        if om == 'int' and kind == 'D':
                            continue
                        yield from series_fill_container(ctx, kind, miss, labs, om, {'container': 'Series'})


# ---------------------------------------------------------------------------------------------- Frames
_FRAME_CLS = [None]      # set by class_variant_cases: FrameGO / FrameHE instead of Frame


def frame_of(kinds, mask, layout):
    nrows = len(mask[0]) if mask else 0
    cols = build(kinds, mask)
    index = [f'r{i}' for i in range(nrows)]
    columns = [f'c{j}' for j in range(len(kinds))]
    return cols, zoo.frame_from_columns(cols, layout, index=index, columns=columns, name='f', cls=_FRAME_CLS[0]), index, columns


def desc_of(kinds, mask, layout, call, observed):
    return {'kinds': ''.join(kinds), 'missing': [[int(b) for b in c] for c in mask], 'layout': zoo.layout_str(layout),
            'call': call, 'observed': observed, 'class': (_FRAME_CLS[0].__name__ if _FRAME_CLS[0] else 'Frame'),
            'how': 'column j of kind F/O/N/D/I/B/S built by c14.column(kind, j, missing[j]); frame = zoo.frame_from_columns(cols, layout)'}


def obs_cols(cols):
    return [[str(v) for v in lit.array_vals(c)] for c in cols]


def frame_directional(ctx, kinds, mask, layout, limits, axes=(1,), dirs=(True, False)):
    cols, f, index, columns = frame_of(kinds, mask, layout)
    nrows = len(index)
    inp = cols_lit(cols)
    nt = any_missing(mask)
    for axis in axes:
        for fwd in dirs:
            fn = f.fillna_forward if fwd else f.fillna_backward
            for limit in limits:
                out = frame_cols(fn(limit, axis=axis))
                ctx.count(f'frame-dir:axis{axis}:{nrows}x{len(kinds)}')
                tags = {'op': 'directional', 'fwd': fwd, 'axis': axis, 'container': 'Frame'}
                if axis == 1 and not fwd and in_bfill_class(mask, layout, limit):
                    tags['regression'] = FINDING_BFILL   # repaired by /repo 690a4f3: the input class stays as a regression
                if axis == 1:
                    m = f'chk_dir_axis1_M {lit.b(fwd)} {lit.z(limit)} {nat(nrows)} {layout_lit(layout)} {inp} {cols_lit(out)}'
                    s = f'chk_dir_axis1_S {lit.b(fwd)} {lit.z(limit)} {nat(nrows)} {inp} {cols_lit(out)}'
                else:
                    m = f'chk_dir_axis0_M {lit.b(fwd)} {lit.z(limit)} {inp} {cols_lit(out)}'
                    s = f'chk_dir_axis0_S {lit.b(fwd)} {lit.z(limit)} {inp} {cols_lit(out)}'
                yield Case(f'api:frame-directional-axis{axis}',
                           desc_of(kinds, mask, layout, f'f.{fn.__name__}({limit}, axis={axis})', obs_cols(out)),
                           m=m, s=s, tags=tags, nontrivial=nt)


def frame_sided(ctx, kinds, mask, layout, axes=(0, 1)):
    cols, f, index, columns = frame_of(kinds, mask, layout)
    nrows = len(index)
    inp = cols_lit(cols)
    nt = any_missing(mask)
    fill = -7
    for axis in axes:
        for leading in (True, False):
            fn = f.fillna_leading if leading else f.fillna_trailing
            out = frame_cols(fn(fill, axis=axis))
            ctx.count(f'frame-sided:axis{axis}:{nrows}x{len(kinds)}')
            if axis == 1:
                m = f'chk_sided_axis1_M {lit.b(leading)} {lit.val(fill)} {nat(nrows)} {layout_lit(layout)} {inp} {cols_lit(out)}'
                s = f'chk_sided_axis1_S {lit.b(leading)} {lit.val(fill)} {nat(nrows)} {inp} {cols_lit(out)}'
            else:
                m = f'chk_sided_axis0_M {lit.b(leading)} {lit.val(fill)} {inp} {cols_lit(out)}'
                s = f'chk_sided_axis0_S {lit.b(leading)} {lit.val(fill)} {inp} {cols_lit(out)}'
            yield Case(f'api:frame-sided-axis{axis}', desc_of(kinds, mask, layout, f'f.{fn.__name__}({fill}, axis={axis})', obs_cols(out)),
                       m=m, s=s, tags={'op': 'sided', 'leading': leading, 'axis': axis, 'container': 'Frame'}, nontrivial=nt)


def frame_simple(ctx, kinds, mask, layout):
    '''isna / notna / count / dropna / fillna(element).'''
    cols, f, index, columns = frame_of(kinds, mask, layout)
    nrows = len(index)
    inp = cols_lit(cols)
    nt = any_missing(mask)
    tag = {'container': 'Frame'}
    ctx.count(f'frame-simple:{nrows}x{len(kinds)}')
    bl = lambda cs: lit.lst([blist(c) for c in cs])
    out = frame_cols(f.isna())
    kinds_lit = lit.lst([lit.s(c.dtype.kind) for c in cols])
    yield Case('api:frame-isna', desc_of(kinds, mask, layout, 'f.isna()', [c.tolist() for c in out]),
               m=f'chk_isna_frame_M {kinds_lit} {inp} {bl(out)}', s=f'chk_isna_frame_S {inp} {bl(out)}', tags={'op': 'isna', **tag}, nontrivial=nt)
    out = frame_cols(f.notna())
    yield Case('api:frame-isna', desc_of(kinds, mask, layout, 'f.notna()', [c.tolist() for c in out]),
               s=f'chk_notna_frame_S {inp} {bl(out)}', tags={'op': 'notna', **tag}, nontrivial=nt)
    for axis in (0, 1):
        c = f.count(axis=axis)
        want_labels = columns if axis == 0 else index
        yield Case('api:frame-count', desc_of(kinds, mask, layout, f'f.count(axis={axis})', c.values.tolist()),
                   s=f'chk_count_frame_S {lit.b(axis == 1)} {nat(nrows)} {inp} {zlist(c.values)}',
                   py_fail=None if lit.labels(c.index) == want_labels else f'count(axis={axis}) is labelled {lit.labels(c.index)}',
                   tags={'op': 'count', 'axis': axis, **tag}, nontrivial=nt)
        for use_any in (False, True):
            # kernel level: the keep mask TypeBlocks hands to Frame._extract
            rk, ck = f._blocks.dropna_to_keep_locations(axis=axis, condition=np.any if use_any else np.all)
            keep = ck if axis == 1 else rk
            single1d = tuple(layout) == ((1, False),)
            ktags = {'kernel': 'dropna_to_keep_locations', 'op': 'dropna', 'axis': axis}
            if axis == 1 and single1d:
                ktags['regression'] = FINDING_DROPNA   # repaired by /repo 35bd018
            yield Case('kernel:dropna_to_keep_locations',
                       desc_of(kinds, mask, layout, f'f._blocks.dropna_to_keep_locations(axis={axis}, condition=np.{"any" if use_any else "all"})',
                               [bool(x) for x in keep]),
                       m=f'chk_dropna_keep_M {lit.b(axis == 1)} {lit.b(use_any)} {nat(nrows)} {lit.b(single1d)} {inp} {blist(keep)}',
                       s=f'chk_dropna_keep_S {lit.b(axis == 1)} {lit.b(use_any)} {nat(nrows)} {inp} {blist(keep)}',
                       py_fail=None if (rk is None) == (axis == 1) and (ck is None) == (axis == 0) else 'wrong key is None',
                       tags=ktags, nontrivial=nt)
            call = f'f.dropna(axis={axis}, condition=np.{"any" if use_any else "all"})'
            dtags = {'op': 'dropna', 'axis': axis, 'any': use_any, **tag}
            if axis == 1 and tuple(layout) == ((1, False),):
                dtags['regression'] = FINDING_DROPNA     # input class by construction: one column held as a single 1-D block, axis=1
            try:
                d = f.dropna(axis=axis, condition=np.any if use_any else np.all)
            except Exception as e:  # noqa
                yield Case('api:frame-dropna', desc_of(kinds, mask, layout, call, lit.err_class(e)),
                           py_fail=f'{call} raised {type(e).__name__}: dropna must return the frame without the dropped rows/columns',
                           tags=dtags, nontrivial=nt)
                continue
            dcols = frame_cols(d)
            if axis == 1:
                lines_lit = cols_lit(dcols)
            else:
                lines_lit = lit.lst([lit.vlist([c[i] for c in dcols]) for i in range(d.shape[0])])
            olabels = lit.labels(d.columns if axis == 1 else d.index)
            other = lit.labels(d.index if axis == 1 else d.columns)
            py_fail = None
            if other != (index if axis == 1 else columns):
                py_fail = f'dropna(axis={axis}) changed the labels of the other axis: {other}'
            yield Case('api:frame-dropna',
                       desc_of(kinds, mask, layout, call, {'labels': olabels, 'shape': list(d.shape)}),
                       s=(f'chk_dropna_frame_S {lit.b(axis == 1)} {lit.b(use_any)} {nat(nrows)} {lit.vlist(index)} {lit.vlist(columns)} {inp} '
                          f'{lit.vlist(olabels)} {lines_lit}'),
                       py_fail=py_fail, tags=dtags, nontrivial=nt)
    fill = -7
    out = frame_cols(f.fillna(fill))
    yield Case('api:frame-fillna', desc_of(kinds, mask, layout, f'f.fillna({fill})', obs_cols(out)),
               s=f'chk_fillna_frame_S {lit.val(fill)} {inp} {cols_lit(out)}', tags={'op': 'fillna', **tag}, nontrivial=nt)


def frame_fill_container(ctx, kinds, mask, layout, oindex, ocolumns, omiss):
    import static_frame as sf
    cols, f, index, columns = frame_of(kinds, mask, layout)
    ocols = []
    for j, cl in enumerate(ocolumns):
        if omiss == 'int':
            a = np.array([1000 + 10 * j + i for i in range(len(oindex))], dtype=np.int64)
        elif isinstance(omiss, str) and omiss in OTHER_KINDS:
            a = OTHER_KINDS[omiss](len(oindex))
        else:
            a = np.empty(len(oindex), dtype=float)
            for i in range(len(oindex)):
                a[i] = np.nan if omiss(i, j) else 1000.0 + 10 * j + i
        ocols.append(a)
    if ocols:
        other = sf.Frame.from_items(zip(ocolumns, ocols), index=oindex)
    else:
        other = sf.Frame(index=oindex)
    out = frame_cols(f.fillna(other))
    ctx.count(f'frame-container:{len(index)}x{len(kinds)}')
    yield Case('api:frame-fillna-container',
               desc_of(kinds, mask, layout, 'f.fillna(other)', obs_cols(out)) | {'other_index': list(oindex), 'other_columns': list(ocolumns),
                                                                                 'other': [[str(x) for x in c] for c in ocols]},
               s=(f'chk_fillna_frame_labels_S {lit.vlist(index)} {lit.vlist(columns)} {cols_lit(cols)} {lit.vlist(list(oindex))} '
                  f'{lit.vlist(list(ocolumns))} {cols_lit(ocols)} {cols_lit(out)}'),
               tags={'op': 'fillna-container', 'container': 'Frame'}, nontrivial=any_missing(mask))


def layouts(kinds):
    return list(zoo.layouts_for([DTYPES[k] for k in kinds]))


def frame_cases(ctx):
    quick = ctx.tier == 'quick'
    rng = ctx.rng
    # (1) axis-1 directional, one row, float columns: every pattern x every layout x limit 0..n x both directions
    top = 4 if quick else 5
    for n in range(1, top + 1):
        kinds = ['F'] * n
        for layout in layouts(kinds):
            for mask in masks(1, kinds):
                yield from frame_directional(ctx, kinds, mask, layout, range(0, (min(n, 2) if quick else n) + 1))
    if quick:
        # 1 x 5: a seeded sample of (pattern, layout, limit, direction)
        kinds = ['F'] * 5
        lays = layouts(kinds)
        for _ in range(ctx.n(600, 0)):
            mask = [[rng.random() < 0.5] for _ in kinds]
            yield from frame_directional(ctx, kinds, mask, rng.choice(lays), (rng.randint(0, 4),), dirs=(rng.random() < 0.5,))
    else:
        # 1 x 6: every pattern x every layout, limit 2, both directions (the smallest shape on which the backward finding shows)
        kinds = ['F'] * 6
        for layout in layouts(kinds):
            for mask in masks(1, kinds):
                yield from frame_directional(ctx, kinds, mask, layout, (2,))
    # (2) two/three rows (the whole-block fast path depends on the other rows), all patterns, all layouts
    kinds = ['F'] * 2
    for layout in layouts(kinds):
        for mask in masks(2, kinds):
            yield from frame_directional(ctx, kinds, mask, layout, (0, 1, 2), axes=(0, 1))
            yield from frame_sided(ctx, kinds, mask, layout)
    kinds = ['F'] * 3
    for layout in layouts(kinds):
        for mask in masks(2, kinds):
            yield from frame_directional(ctx, kinds, mask, layout, (1,) if quick else (0, 1, 2, 3), axes=(1,))
            if not quick:
                yield from frame_directional(ctx, kinds, mask, layout, (0, 1, 2), axes=(0,))
            yield from frame_sided(ctx, kinds, mask, layout, axes=(1,) if quick else (0, 1))
    if quick:
        # 2 x 4, every pattern, limit 1, two representative layouts: stale per-row state in a block that takes the slow path
        # only because ANOTHER row has a missing cell needs >= 2 rows and >= 4 columns
        kinds = ['F'] * 4
        for layout in (((1, False),) * 4, ((1, False), (2, True), (1, False))):
            for mask in masks(2, kinds):
                yield from frame_directional(ctx, kinds, mask, layout, (1,), axes=(1,))
    if not quick:
        kinds = ['F'] * 4
        for layout in layouts(kinds):
            for mask in masks(2, kinds):
                yield from frame_directional(ctx, kinds, mask, layout, (1,), axes=(1,))
        kinds = ['F'] * 3
        for layout in layouts(kinds):
            for mask in masks(3, kinds):
                yield from frame_directional(ctx, kinds, mask, layout, (1,), axes=(1,))
    # (3) mixed dtypes: float / object / datetime columns between never-missing int / bool / str columns
    mixes = ['IFO', 'FSD'] if quick else ['IFO', 'FSD', 'BDF', 'OIF', 'FIFO', 'DFSB', 'OFDI', 'NFI', 'FFOO', 'IFFD']
    for mix in mixes:
        kinds = list(mix)
        for layout in layouts(kinds):
            for mask in masks(2 if (len(mix) == 3 and (not quick or mix == 'IFO')) else 1, kinds):
                yield from frame_directional(ctx, kinds, mask, layout, (0, 1) if quick else (0, 1, 2), axes=(0, 1))
                yield from frame_sided(ctx, kinds, mask, layout)
                yield from frame_simple(ctx, kinds, mask, layout)
    # (4) label-aligned fill from a Frame: every pattern of a 2x2 float frame x sub/super-sets of labels
    kinds = ['F', 'F']
    label_sets = [((), ()), (('r1',), ('c0',)), (('r1', 'r0'), ('c1', 'zz')), (('zz', 'r0'), ('c1', 'c0')), (('r0', 'r1', 'zz'), ('c0', 'c1', 'yy'))]
    for layout in layouts(kinds):
        for mask in masks(2, kinds):
            for oi, oc in label_sets:
                yield from frame_fill_container(ctx, kinds, mask, layout, oi, oc, lambda i, j: False)
                if oi and oc:
                    yield from frame_fill_container(ctx, kinds, mask, layout, oi, oc, lambda i, j: (i + j) % 2 == 0)
                    yield from frame_fill_container(ctx, kinds, mask, layout, oi, oc, 'int')
                    if layout == ((2, True),):
                        for ok in ('bool', 'str', 'dt'):
                            yield from frame_fill_container(ctx, kinds, mask, layout, oi, oc, ok)
    # (5) regression: the inputs on which the backward bridging count was wrong before /repo 690a4f3 (spec = the correct behaviour)
    for miss_row, limit in (((True, True, True, False, True, False), 2), ((True, True, False, True, True, False), 2),
                            ((True, True, True, False, True, True, False), 3)):
        kinds = ['F'] * len(miss_row)
        layout = ((1, False), (len(miss_row) - 1, True))
        yield from frame_directional(ctx, kinds, [[m] for m in miss_row], layout, (limit,), dirs=(False,))
    # (5b) regression: one float column held as a 1-D block, dropna(axis=1) raised IndexError before /repo 35bd018
    yield from frame_simple(ctx, ['F'], [[False, True]], ((1, False),))
    yield from frame_simple(ctx, ['F'], [[False, True]], ((1, True),))
    # (6) random stream: bigger mixed frames, random layout, random limit
    for _ in range(ctx.n(250, 4000)):
        r = rng.randint(1, 4)
        c = rng.randint(1, 8)
        kinds = [rng.choice('FFFFODISB') for _ in range(c)]
        # runs of equal kinds make wide 2-D blocks possible
        if rng.random() < 0.6:
            k0 = rng.choice('FFO')
            a = rng.randint(0, c - 1)
            for j in range(a, min(c, a + rng.randint(2, 7))):
                kinds[j] = k0
        mask = random_mask(rng, r, kinds, rng.choice((0.3, 0.5, 0.7)))
        layout = rng.choice(layouts(kinds))
        limit = rng.randint(0, 4)
        which = rng.random()
        if which < 0.7:
            yield from frame_directional(ctx, kinds, mask, layout, (limit,), axes=(rng.choice((0, 1, 1)),), dirs=(rng.random() < 0.5,))
        elif which < 0.85:
            yield from frame_sided(ctx, kinds, mask, layout)
        else:
            yield from frame_simple(ctx, kinds, mask, layout)


# ---------------------------------------------------------------------------------------------- malformed inputs
def malformed_cases(ctx):
    import static_frame as sf
    s = sf.Series([1.0, np.nan, 3.0], index=('a', 'b', 'c'))
    f = sf.Frame.from_records([[1.0, np.nan], [np.nan, 4.0]], index=('x', 'y'), columns=('a', 'b'))
    probes = [
        ('s.fillna([9, 9, 9])', lambda: s.fillna([9, 9, 9]), 'RuntimeError'),
        ('f.fillna([[1, 2], [3, 4]])', lambda: f.fillna([[1, 2], [3, 4]]), 'RuntimeError'),
        ('s.fillna_leading(np.array([1.0]))', lambda: sf.Series([np.nan, 1.0]).fillna_leading(np.array([1.0])), 'RuntimeError'),
        ('f.fillna_leading(np.array([1.0]))', lambda: f.fillna_leading(np.array([1.0])), 'RuntimeError'),
        ('f.fillna_forward(axis=2)', lambda: f.fillna_forward(axis=2), 'AxisInvalid'),
        ('f.fillna_backward(axis=2)', lambda: f.fillna_backward(axis=2), 'AxisInvalid'),
        ('f.fillna_leading(0, axis=2)', lambda: f.fillna_leading(0, axis=2), 'NotImplementedError'),
        ('f.fillna_trailing(0, axis=2)', lambda: f.fillna_trailing(0, axis=2), 'NotImplementedError'),
    ]
    for call, fn, want in probes:
        try:
            fn()
            got = 'no exception'
        except Exception as e:  # noqa
            got = lit.err_class(e)
        ctx.count('malformed')
        yield Case('api:malformed', {'call': call, 'observed': got, 'expected': want},
                   py_fail=None if got == want else f'{call}: {got}, expected {want} (a malformed fill must be rejected, not applied)',
                   tags={'op': 'malformed'}, nontrivial=True)


def dt64ns_cases(ctx):
    '''The remaining known finding, witnessed in every run: a fill that forces a datetime64[ns] array to object dtype (fill / bridging value of another kind)
    turns the PRESENT datetimes into integers (ndarray.astype(object) on ns resolution).  Input class by construction: datetime64[ns] line with a present
    value and a missing cell, filled with a non-datetime value.'''
    import static_frame as sf
    a = np.array(['2020-01-01T00:00:01', 'NaT', '2020-01-03T00:00:00'], dtype='datetime64[ns]')
    a.flags.writeable = False
    s = sf.Series(a, index=('k0', 'k1', 'k2'))
    inp = col_lit(a)
    tags = {'finding': FINDING_DTNS, 'kind': 'datetime64[ns]'}
    out = s.fillna(0).values
    ctx.count('dt64ns')
    yield Case('api:dt64ns-object-cast', {'series': [str(x) for x in a], 'call': 's.fillna(0)', 'observed': [repr(x) for x in out.tolist()]},
               s=f'chk_fillna_S (VInt 0) {inp} {col_lit(out)}', tags=dict(tags, op='fillna'), nontrivial=True)
    b = np.array(['NaT', '2020-01-01T00:00:01'], dtype='datetime64[ns]')
    f = sf.Frame.from_items((('a', np.array([1, 2])), ('b', b)), index=('r0', 'r1'))
    cols = [np.array([1, 2]), b]
    for call, fr in (('f.fillna_forward(axis=1)', f.fillna_forward(axis=1)), ('f.fillna_leading(0, axis=0)', f.fillna_leading(0, axis=0))):
        out = frame_cols(fr)
        ctx.count('dt64ns')
        if 'forward' in call:
            chk = f'chk_dir_axis1_S true 0 {nat(2)} {cols_lit(cols)} {cols_lit(out)}'
        else:
            chk = f'chk_sided_axis0_S true (VInt 0) {cols_lit(cols)} {cols_lit(out)}'
        yield Case('api:dt64ns-object-cast', {'columns': [[1, 2], [str(x) for x in b]], 'call': call, 'observed': [[repr(x) for x in c.tolist()] for c in out]},
                   s=chk, tags=dict(tags, op='frame-fill'), nontrivial=True)



# ---------------------------------------------------------------------------------------------- extension round: routes the cases did not reach
def dtype_kind_cases(ctx):
    """float32 / float16 / timedelta64 columns (missing NaN / NaT) next to uint8 and bytes columns (never missing)."""
    quick = ctx.tier == 'quick'
    for kind in 'fhT':
        for n in range(1, 4):
            for miss in itertools.product((False, True), repeat=n):
                yield from series_ops(ctx, kind, miss, {'container': 'Series', 'route': 'dtype-kind'})
    for mix in (['UfT', 'YhF'] if quick else ['UfT', 'YhF', 'TUf', 'hYT', 'fFh']):
        kinds = list(mix)
        for layout in layouts(kinds):
            for mask in masks(1 if quick else 2, kinds):
                yield from frame_directional(ctx, kinds, mask, layout, (0, 1), axes=(0, 1))
                yield from frame_sided(ctx, kinds, mask, layout)
                yield from frame_simple(ctx, kinds, mask, layout)


def class_variant_cases(ctx):
    """FrameGO / FrameHE / SeriesHE: the same operations through the other container classes."""
    import static_frame as sf
    kinds = ['F', 'O']
    for cls in (sf.FrameGO, sf.FrameHE):
        _FRAME_CLS[0] = cls
        try:
            for layout in layouts(kinds):
                for mask in masks(1 if ctx.tier == 'quick' else 2, kinds):
                    for c in itertools.chain(frame_directional(ctx, kinds, mask, layout, (0, 1), axes=(0, 1)),
                                             frame_sided(ctx, kinds, mask, layout), frame_simple(ctx, kinds, mask, layout)):
                        c.tags['route'] = cls.__name__
                        yield c
        finally:
            _FRAME_CLS[0] = None
    for n in range(1, 4):
        for miss in itertools.product((False, True), repeat=n):
            a = column('F', 0, miss)
            s = sf.SeriesHE(a, index=[f'k{i}' for i in range(n)])
            inp = col_lit(a)
            ctx.count('SeriesHE')
            d = s.dropna()
            yield Case('api:class-variants', {'class': 'SeriesHE', 'series': [str(x) for x in a], 'call': 's.dropna()', 'observed': d.values.tolist()},
                       s=f'chk_dropna_S {lit.vlist(lit.labels(s.index))} {inp} {lit.vlist(lit.labels(d.index))} {col_lit(d.values)}',
                       tags={'route': 'SeriesHE', 'op': 'dropna'}, nontrivial=any(miss))
            for fwd in (True, False):
                out = (s.fillna_forward if fwd else s.fillna_backward)(1).values
                yield Case('api:class-variants', {'class': 'SeriesHE', 'series': [str(x) for x in a], 'call': f's.fillna_{"forward" if fwd else "backward"}(1)',
                                                  'observed': [str(x) for x in out]},
                           m=f'chk_dir1d_M {lit.b(fwd)} 1 {inp} {col_lit(out)}', s=f'chk_dir1d_S {lit.b(fwd)} 1 {inp} {col_lit(out)}',
                           tags={'route': 'SeriesHE', 'op': 'directional'}, nontrivial=any(miss))
            out = s.fillna(7.25).values
            yield Case('api:class-variants', {'class': 'SeriesHE', 'series': [str(x) for x in a], 'call': 's.fillna(7.25)', 'observed': [str(x) for x in out]},
                       s=f'chk_fillna_S {lit.val(7.25)} {inp} {col_lit(out)}', tags={'route': 'SeriesHE', 'op': 'fillna'}, nontrivial=any(miss))


FINDING_IH = 'C14-series-fillna-hierarchical'
FINDING_NOCOL = 'C14-zero-column-frame'
FINDING_SIDED0 = 'C14-sided-axis0-zero-rows'


def hier_cases(ctx):
    """hierarchical (depth-2) labels: the label side of dropna / count / label-aligned fill."""
    import static_frame as sf
    tuples = [('a', 1), ('a', 2), ('b', 1)]
    ih = sf.IndexHierarchy.from_labels(tuples)
    for miss in itertools.product((False, True), repeat=3):
        a = column('F', 0, miss)
        s = sf.Series(a, index=ih)
        inp = col_lit(a)
        base = {'series': [str(x) for x in a], 'index': [list(t) for t in tuples]}
        ctx.count('hier:series')
        d = s.dropna()
        dl = lit.labels(d.index) if len(d) else []
        yield Case('api:hierarchical', dict(base, call='s.dropna()', observed=[[list(t) for t in dl], d.values.tolist()]),
                   s=f'chk_dropna_S {lit.vlist(tuples)} {inp} {lit.vlist(dl)} {col_lit(d.values)}',
                   tags={'route': 'hier', 'op': 'dropna'}, nontrivial=any(miss))
        out = s.fillna_forward(1).values
        yield Case('api:hierarchical', dict(base, call='s.fillna_forward(1)', observed=[str(x) for x in out]),
                   m=f'chk_dir1d_M true 1 {inp} {col_lit(out)}', s=f'chk_dir1d_S true 1 {inp} {col_lit(out)}',
                   tags={'route': 'hier', 'op': 'directional'}, nontrivial=any(miss))
        # label-aligned fill from a Series with hierarchical labels (sub/superset, another order)
        for olabs in ([('a', 2)], [('b', 1), ('a', 1)], [('z', 9), ('a', 2), ('a', 1)]):
            ov = np.array([500.0 + i for i in range(len(olabs))])
            other = sf.Series(ov, index=sf.IndexHierarchy.from_labels(olabs) if len(olabs) > 1 else sf.IndexHierarchy.from_labels(olabs))
            call = 's.fillna(other)'
            tags = {'route': 'hier', 'op': 'fillna-container', 'finding': FINDING_IH}   # class by construction: receiver with a hierarchical index
            desc = dict(base, call=call, other=[float(x) for x in ov], other_index=[list(t) for t in olabs])
            try:
                out = s.fillna(other).values
            except Exception as e:  # noqa
                yield Case('api:hierarchical', dict(desc, observed=lit.err_class(e)),
                           py_fail=f'{call} raised {type(e).__name__}: a label-aligned fill must fill the covered missing cells', tags=tags, nontrivial=any(miss))
                continue
            yield Case('api:hierarchical', dict(desc, observed=[str(x) for x in out]),
                       s=f'chk_fillna_labels_S {lit.vlist(tuples)} {inp} {lit.vlist(olabs)} {col_lit(ov)} {col_lit(out)}', tags=tags, nontrivial=any(miss))
    # frames: hierarchical index (dropna axis 0, fillna(Frame)) and hierarchical columns (dropna axis 1, count)
    kinds = ['F', 'F']
    for mask in masks(3, kinds):
        cols = build(kinds, mask)
        inp = cols_lit(cols)
        columns = ['p', 'q']
        f = sf.Frame.from_items(zip(columns, cols), index=ih)
        ctx.count('hier:frame')
        for use_any in (False, True):
            d = f.dropna(axis=0, condition=np.any if use_any else np.all)
            dcols = frame_cols(d)
            lines_lit = lit.lst([lit.vlist([c[i] for c in dcols]) for i in range(d.shape[0])])
            dl = lit.labels(d.index) if d.shape[0] else []
            yield Case('api:hierarchical', {'columns': obs_cols(cols), 'index': [list(t) for t in tuples], 'call': f'f.dropna(axis=0, any={use_any})',
                                            'observed': [list(t) for t in dl]},
                       s=(f'chk_dropna_frame_S false {lit.b(use_any)} {nat(3)} {lit.vlist(tuples)} {lit.vlist(columns)} {inp} {lit.vlist(dl)} {lines_lit}'),
                       tags={'route': 'hier', 'op': 'dropna', 'axis': 0}, nontrivial=any_missing(mask))
        other = sf.Frame.from_records([[7.0, 8.0], [9.0, 10.0]], index=sf.IndexHierarchy.from_labels([('a', 2), ('z', 9)]), columns=('q', 'p'))
        out = frame_cols(f.fillna(other))
        yield Case('api:hierarchical', {'columns': obs_cols(cols), 'index': [list(t) for t in tuples], 'call': 'f.fillna(other)', 'observed': obs_cols(out)},
                   s=(f'chk_fillna_frame_labels_S {lit.vlist(tuples)} {lit.vlist(columns)} {inp} {lit.vlist([("a", 2), ("z", 9)])} {lit.vlist(["q", "p"])} '
                      f'{cols_lit([np.array([7.0, 9.0]), np.array([8.0, 10.0])])} {cols_lit(out)}'),
                   tags={'route': 'hier', 'op': 'fillna-container'}, nontrivial=any_missing(mask))
    kinds = ['F', 'F', 'F']
    for mask in masks(2, kinds):
        cols = build(kinds, mask)
        inp = cols_lit(cols)
        f = sf.Frame.from_items(zip(tuples, cols), index=('x', 'y'), columns_constructor=sf.IndexHierarchy.from_labels)
        ctx.count('hier:frame')
        for use_any in (False, True):
            d = f.dropna(axis=1, condition=np.any if use_any else np.all)
            dl = lit.labels(d.columns) if d.shape[1] else []
            yield Case('api:hierarchical', {'columns': obs_cols(cols), 'column_labels': [list(t) for t in tuples], 'call': f'f.dropna(axis=1, any={use_any})',
                                            'observed': [list(t) for t in dl]},
                       s=(f'chk_dropna_frame_S true {lit.b(use_any)} {nat(2)} {lit.vlist(["x", "y"])} {lit.vlist(tuples)} {inp} {lit.vlist(dl)} {cols_lit(frame_cols(d))}'),
                       tags={'route': 'hier', 'op': 'dropna', 'axis': 1}, nontrivial=any_missing(mask))
        c = f.count(axis=0)
        yield Case('api:hierarchical', {'columns': obs_cols(cols), 'call': 'f.count(axis=0)', 'observed': c.values.tolist()},
                   s=f'chk_count_frame_S false {nat(2)} {inp} {zlist(c.values)}',
                   py_fail=None if lit.labels(c.index) == tuples else f'count(axis=0) is labelled {lit.labels(c.index)}',
                   tags={'route': 'hier', 'op': 'count'}, nontrivial=any_missing(mask))


def empty_cases(ctx):
    """0-row and 0-column frames and the empty Series: every operation must return the (same) empty container."""
    import static_frame as sf
    frames = [
        ('0x2 one 2-D block', lambda: sf.Frame(columns=('a', 'b')), 0, ['a', 'b'], []),
        ('0x2 two 1-D blocks', lambda: sf.Frame.from_dict({'a': np.array([], dtype=float), 'b': np.array([], dtype=object)}), 0, ['a', 'b'], []),
        ('2x0', lambda: sf.Frame(index=('x', 'y')), 2, [], ['x', 'y']),
        ('0x0', lambda: sf.Frame(), 0, [], []),
    ]
    for name, mk, nrows, columns, index in frames:
        f = mk()
        ncols = len(columns)
        inp = lit.lst(['[]'] * ncols)          # columns without cells
        ops = []
        e2 = lambda fr: lit.lst([blist(c) for c in frame_cols(fr)])
        ops.append(('isna', 'f.isna()', lambda: f.isna(), lambda r: f'chk_isna_frame_S {inp} {e2(r)}'))
        ops.append(('notna', 'f.notna()', lambda: f.notna(), lambda r: f'chk_notna_frame_S {inp} {e2(r)}'))
        ops.append(('fillna', 'f.fillna(0)', lambda: f.fillna(0), lambda r: f'chk_fillna_frame_S (VInt 0) {inp} {cols_lit(frame_cols(r))}'))
        for axis in (0, 1):
            ops.append(('count', f'f.count(axis={axis})', (lambda axis=axis: f.count(axis=axis)),
                        (lambda r, axis=axis: f'chk_count_frame_S {lit.b(axis == 1)} {nat(nrows)} {inp} {zlist(r.values)}')))
            for use_any in (False, True):
                def chk_drop(r, axis=axis, use_any=use_any):
                    dcols = frame_cols(r)
                    lines = cols_lit(dcols) if axis == 1 else lit.lst([lit.vlist([c[i] for c in dcols]) for i in range(r.shape[0])])
                    return (f'chk_dropna_frame_S {lit.b(axis == 1)} {lit.b(use_any)} {nat(nrows)} {lit.vlist(index)} {lit.vlist(columns)} {inp} '
                            f'{lit.vlist(lit.labels(r.columns if axis == 1 else r.index) if (r.shape[1] if axis == 1 else r.shape[0]) else [])} {lines}')
                ops.append(('dropna', f'f.dropna(axis={axis}, condition=np.{"any" if use_any else "all"})',
                            (lambda axis=axis, use_any=use_any: f.dropna(axis=axis, condition=np.any if use_any else np.all)), chk_drop))
            for fwd in (True, False):
                ops.append(('directional', f'f.fillna_{"forward" if fwd else "backward"}(1, axis={axis})',
                            (lambda axis=axis, fwd=fwd: (f.fillna_forward if fwd else f.fillna_backward)(1, axis=axis)),
                            (lambda r, axis=axis, fwd=fwd: (f'chk_dir_axis1_S {lit.b(fwd)} 1 {nat(nrows)} {inp} {cols_lit(frame_cols(r))}' if axis == 1
                                                            else f'chk_dir_axis0_S {lit.b(fwd)} 1 {inp} {cols_lit(frame_cols(r))}'))))
            for leading in (True, False):
                ops.append((f'sided{axis}', f'f.fillna_{"leading" if leading else "trailing"}(0, axis={axis})',
                            (lambda axis=axis, leading=leading: (f.fillna_leading if leading else f.fillna_trailing)(0, axis=axis)),
                            (lambda r, axis=axis, leading=leading: (f'chk_sided_axis1_S {lit.b(leading)} (VInt 0) {nat(nrows)} {inp} {cols_lit(frame_cols(r))}' if axis == 1
                                                                    else f'chk_sided_axis0_S {lit.b(leading)} (VInt 0) {inp} {cols_lit(frame_cols(r))}'))))
        for op, call, run, chk in ops:
            tags = {'route': 'empty', 'op': op, 'shape': name.split()[0]}
            # input classes of the two findings, by construction of the input
            if ncols == 0 and op != 'count':
                tags['finding'] = FINDING_NOCOL
            elif nrows == 0 and op == 'sided0':
                tags['finding'] = FINDING_SIDED0
            ctx.count('empty-frame')
            try:
                r = run()
            except Exception as e:  # noqa
                yield Case('api:empty', {'frame': name, 'call': call, 'observed': lit.err_class(e)},
                           py_fail=f'{call} on an empty frame ({name}) raised {type(e).__name__}: it must return the empty frame', tags=tags, nontrivial=False)
                continue
            py_fail = None
            want_shape = (nrows, ncols)
            if op in ('isna', 'notna', 'fillna', 'directional', 'sided0', 'sided1') and tuple(r.shape) != want_shape:
                py_fail = f'{call} changed the shape {want_shape} -> {tuple(r.shape)}'
            yield Case('api:empty', {'frame': name, 'call': call, 'observed': {'shape': list(r.shape)}}, s=chk(r), py_fail=py_fail, tags=tags, nontrivial=False)
    s0 = sf.Series((), dtype=float)
    for call, run, chk in (('s.isna()', lambda: s0.isna().values, lambda r: f'chk_isna_S [] {blist(r)}'),
                           ('s.count()', lambda: s0.count(), lambda r: f'chk_count_S [] {lit.z(int(r))}'),
                           ('s.dropna()', lambda: s0.dropna().values, lambda r: f'chk_dropna_S [] [] [] {col_lit(r)}'),
                           ('s.fillna(0)', lambda: s0.fillna(0).values, lambda r: f'chk_fillna_S (VInt 0) [] {col_lit(r)}'),
                           ('s.fillna_forward(1)', lambda: s0.fillna_forward(1).values, lambda r: f'chk_dir1d_S true 1 [] {col_lit(r)}'),
                           ('s.fillna_backward(1)', lambda: s0.fillna_backward(1).values, lambda r: f'chk_dir1d_S false 1 [] {col_lit(r)}'),
                           ('s.fillna_leading(0)', lambda: s0.fillna_leading(0).values, lambda r: f'chk_sided1d_S true (VInt 0) [] {col_lit(r)}'),
                           ('s.fillna_trailing(0)', lambda: s0.fillna_trailing(0).values, lambda r: f'chk_sided1d_S false (VInt 0) [] {col_lit(r)}'),
                           ('s.fillna(other)', lambda: s0.fillna(sf.Series([1.0], index=('a',))).values, lambda r: f'chk_fillna_labels_S [] [] [VStr "a"] [VFlt 1 1] {col_lit(r)}')):
        ctx.count('empty-series')
        try:
            r = run()
        except Exception as e:  # noqa
            yield Case('api:empty', {'series': 'empty float64', 'call': call, 'observed': lit.err_class(e)},
                       py_fail=f'{call} on an empty Series raised {type(e).__name__}', tags={'route': 'empty', 'op': call}, nontrivial=False)
            continue
        yield Case('api:empty', {'series': 'empty float64', 'call': call, 'observed': 'ok'}, s=chk(r), tags={'route': 'empty', 'op': call}, nontrivial=False)


def cases(ctx):
    yield from kernel_cases(ctx)
    yield from dtype_kind_cases(ctx)
    yield from class_variant_cases(ctx)
    yield from hier_cases(ctx)
    yield from empty_cases(ctx)
    yield from dt64ns_cases(ctx)
    yield from series_cases(ctx)
    yield from frame_cases(ctx)
    yield from malformed_cases(ctx)
