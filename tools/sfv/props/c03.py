'''C03 -- block manager transparency and structural coherence of Frame.'''
import io
import itertools
import math

import numpy as np

from .. import lit
from .. import zoo
from ..core import Case

ID = 'C03'
MANIFEST = {
    'text': 'placeholder',
    'note': 'placeholder',
}
PROPERTY_FILES = ['Properties/C03.v']
REFUTED_FILES = []
MODEL_FILES = ['SF/BlocksOps.v']
TRANSLATED = []
IMPORTS = 'Require Import SF.Prelude SF.PySlice SF.Dtype SF.Value SF.Blocks SF.BlocksOps.'
RULE = 'placeholder'
ASSUMPTIONS = []
EXHAUSTIVE = {'quick': True, 'thorough': True}


# ----------------------------------------------------------------------------- the frame zoo
ROW_LABELS = ('p', 'q', 'r', 's', 't', 'u')
COL_LABELS = ('a', 'b', 'c', 'd', 'e', 'f')


def column(kind, j, n):
    '''Column j (0-based) of kind `kind` with n rows; every cell differs from its neighbours so that a
    misplaced cell / column is visible; floats are exact dyadics; a missing value sits on the diagonal.'''
    if kind == 'i':
        return np.array([10 * (j + 1) + i for i in range(n)], dtype=np.int64)
    if kind == 'h':     # a second integer width
        return np.array([3 * (j + 1) - i for i in range(n)], dtype=np.int16)
    if kind == 'f':
        return np.array([(np.nan if i == (j % 3) else (j + 1) + i / 2) for i in range(n)], dtype=np.float64)
    if kind == 'g':     # float without missing values
        return np.array([(j + 1) * 1.5 - i for i in range(n)], dtype=np.float64)
    if kind == 'b':
        return np.array([bool((i + j) % 2) for i in range(n)], dtype=bool)
    if kind == 'U':
        return np.array(['%s%d' % ('xyzw'[(j + i) % 4], i) for i in range(n)], dtype='<U2')
    if kind == 'O':
        a = np.empty(n, dtype=object)
        for i in range(n):
            a[i] = None if i == ((j + 1) % 3) else ((j + 1) * 100 + i if (i + j) % 2 else 'o%d%d' % (j, i))
        return a
    if kind == 'M':
        return np.array([np.datetime64('2020-01-01') + (7 * j + i) for i in range(n)], dtype='datetime64[D]')
    raise ValueError(kind)


def columns_for(kinds, n):
    cols = [column(k, j, n) for j, k in enumerate(kinds)]
    for c in cols:
        c.flags.writeable = False
    return cols


def canonical_layout(m):
    return tuple((1, False) for _ in range(m))


def build(kinds, n, layout, cls=None):
    cols = columns_for(kinds, n)
    return zoo.frame_from_columns(cols, layout, index=ROW_LABELS[:n], columns=COL_LABELS[:len(kinds)], name='fr', cls=cls)


# ----------------------------------------------------------------------------- canonical observables
def _scalar(v):
    '''Canonical, comparable form of one cell / label / scalar result (class-preserving; NaN equal to NaN).'''
    if v is None:
        return ('N',)
    if isinstance(v, (bool, np.bool_)):
        return ('b', bool(v))
    if isinstance(v, (int, np.integer)):
        return ('i', int(v))
    if isinstance(v, (float, np.floating)):
        f = float(v)
        return ('f', 'nan' if f != f else f.hex())
    if isinstance(v, (complex, np.complexfloating)):
        return ('c', repr(complex(v)))
    if isinstance(v, (str, np.str_)):
        return ('s', str(v))
    if isinstance(v, (bytes, np.bytes_)):
        return ('y', bytes(v))
    if isinstance(v, (np.datetime64, np.timedelta64)):
        return ('t', str(v.dtype), 'NaT' if np.isnat(v) else int(v.astype('int64')))
    if isinstance(v, np.dtype):
        return ('dtype', str(v))
    if isinstance(v, tuple):
        return ('T',) + tuple(_scalar(x) for x in v)
    if isinstance(v, type):
        return ('type', v.__name__)
    raise TypeError(f'no canonical form for {type(v).__name__}')


def _array(a):
    if a.ndim == 0:
        return ('A0', str(a.dtype), _scalar(a.item() if a.dtype.kind not in 'Mm' else a[()]))
    flat = a.ravel() if a.dtype.kind in 'Mm' else None
    if a.dtype.kind in 'Mm':
        cells = tuple(_scalar(x) for x in flat)
    elif a.dtype.kind == 'O':
        cells = tuple(_obs(x) for x in a.ravel().tolist())
    else:
        cells = tuple(_scalar(x) for x in a.ravel().tolist())
    return ('A', a.shape, str(a.dtype), cells)


def _labels(ix):
    return ('I', type(ix).__name__, ix.depth, tuple(_scalar(x) for x in lit.labels(ix)), _scalar(ix.name) if not isinstance(ix.name, tuple) or True else None)


def _obs(r, depth=0):
    '''Canonical observable of any result of a public call: labels, per-column values, per-column dtypes, names, classes.'''
    import static_frame as sf
    if depth > 6:
        raise TypeError('too deep')
    if isinstance(r, sf.Frame):
        cols = tuple(_array(r._blocks._extract_array(None, j)) for j in range(r.shape[1]))
        return ('F', type(r).__name__, r.shape, _labels(r.index), _labels(r.columns), cols, _scalar(r.name))
    if isinstance(r, sf.Series):
        return ('S', type(r).__name__, _labels(r.index), _array(r.values), _scalar(r.name))
    if isinstance(r, sf.Index) or isinstance(r, sf.IndexHierarchy):
        return _labels(r)
    if isinstance(r, sf.TypeBlocks):
        return ('TB', r.shape, tuple(_array(r._extract_array(None, j)) for j in range(r.shape[1])))
    if isinstance(r, np.ma.MaskedArray):
        return ('MA', _array(np.asarray(r.data)), _array(np.asarray(np.ma.getmaskarray(r))))
    if isinstance(r, np.ndarray):
        return _array(r)
    if isinstance(r, (list, tuple)):
        return (type(r).__name__ if not hasattr(r, '_fields') else 'namedtuple',) + tuple(_obs(x, depth + 1) for x in r)
    if isinstance(r, dict):
        return ('dict',) + tuple((_obs(k, depth + 1), _obs(v, depth + 1)) for k, v in r.items())
    if isinstance(r, (str, bytes)) or r is None or isinstance(r, (bool, int, float, complex, np.generic, np.dtype, type)):
        return _scalar(r)
    if hasattr(r, '__next__') or hasattr(r, '__iter__'):
        return ('iter',) + tuple(_obs(x, depth + 1) for x in r)
    raise TypeError(f'no canonical form for {type(r).__name__}')


def observe(fn, f):
    try:
        return _obs(fn(f))
    except Exception as e:  # noqa
        return ('X', lit.err_class(e))


# ----------------------------------------------------------------------------- the operations
def _csv(f, meth, **kw):
    fp = io.StringIO()
    getattr(f, meth)(fp, **kw)
    return fp.getvalue()


def _sel(n, m):
    '''Selection keys (rows x columns) worth trying for an n x m frame: ints, slices of both directions, lists, masks.'''
    rows = [None, 0, -1, slice(None), slice(0, 1), slice(1, None), slice(None, None, -1), [0], [n - 1, 0] if n else [], slice(0, 0)]
    cols = [None, 0, -1, m - 1, slice(None), slice(0, 1), slice(1, 3), slice(1, None), slice(None, None, -1), slice(None, None, 2),
            slice(m, None, -2), slice(-1, -m - 1, -2),
            [0], [m - 1, 0] if m else [], list(range(m))[::-1], [i for i in range(m) if i % 2 == 0], list(range(1, m)) + [0] if m else [],
            [True if i % 2 else False for i in range(m)], [i != 1 for i in range(m)], m, -m - 1, [m]]
    return rows, cols


def ops_for(kinds, n):
    '''(name, fn(frame), weight) for every single-frame public operation exercised; fn may raise (the class is the observable).'''
    import static_frame as sf
    m = len(kinds)
    L = COL_LABELS[:m]
    R = ROW_LABELS[:n]
    out = []
    add = lambda name, fn: out.append((name, fn))

    # ---- structure / readers
    add('shape', lambda f: (f.shape, len(f.index), len(f.columns), len(f), f.size, f.ndim))
    add('values', lambda f: f.values)
    add('dtypes', lambda f: f.dtypes)
    add('nbytes', lambda f: f.nbytes)
    add('columns', lambda f: f.columns)
    add('index', lambda f: f.index)
    add('keys', lambda f: tuple(f.keys()))
    add('items', lambda f: tuple(f.items()))
    add('iter', lambda f: tuple(iter(f)))
    add('contains', lambda f: ('a' in f, 'zz' in f))
    add('repr', lambda f: repr(f))
    add('str', lambda f: str(f))
    add('display_wide', lambda f: repr(f.display_wide()))
    add('to_pairs0', lambda f: f.to_pairs(0))
    add('to_pairs1', lambda f: f.to_pairs(1))
    add('T', lambda f: f.T)
    add('transpose', lambda f: f.transpose())
    add('T.T', lambda f: f.T.T)
    for ax in (0, 1):
        add(f'iter_array{ax}', lambda f, ax=ax: f.iter_array(ax))
        add(f'iter_array_items{ax}', lambda f, ax=ax: f.iter_array_items(ax))
        add(f'iter_series{ax}', lambda f, ax=ax: f.iter_series(ax))
        add(f'iter_series_items{ax}', lambda f, ax=ax: f.iter_series_items(ax))
        add(f'iter_tuple{ax}', lambda f, ax=ax: f.iter_tuple(ax))
        add(f'iter_tuple_items{ax}', lambda f, ax=ax: f.iter_tuple_items(ax))
    add('iter_element', lambda f: f.iter_element())
    add('iter_element_items', lambda f: f.iter_element_items())
    add('iter_element.apply', lambda f: f.iter_element().apply(lambda x: (x, 1)))
    add('iter_array1.apply', lambda f: f.iter_array(1).apply(lambda a: len(a)))
    add('iter_series0.apply', lambda f: f.iter_series(0).apply(lambda s: s.values[0] if len(s) else None))
    add('tb.axis_values0', lambda f: f._blocks.axis_values(0))
    add('tb.axis_values1', lambda f: f._blocks.axis_values(1))
    add('tb.axis_values0r', lambda f: f._blocks.axis_values(0, reverse=True))
    add('tb.axis_values1r', lambda f: f._blocks.axis_values(1, reverse=True))
    add('tb.element_items0', lambda f: f._blocks.element_items(0))
    add('tb.element_items1', lambda f: f._blocks.element_items(1))
    add('tb.consolidate', lambda f: f._blocks.consolidate())
    add('tb.values', lambda f: f._blocks.values)
    add('tb.dtypes', lambda f: f._blocks.dtypes)
    add('tb.len', lambda f: len(f._blocks))
    add('tb.copy', lambda f: f._blocks.copy())

    # ---- positional selection
    rows, cols = _sel(n, m)
    for rk in rows:
        for ck in cols:
            if rk is None and ck is None:
                continue
            if ck is None:
                add(f'iloc[{rk!r}]', lambda f, rk=rk: f.iloc[rk])
            else:
                rr = slice(None) if rk is None else rk
                add(f'iloc[{rr!r},{ck!r}]', lambda f, rr=rr, ck=ck: f.iloc[rr, ck])
    for ck in cols:
        if ck is not None:
            add(f'tb.extract_array[:,{ck!r}]', lambda f, ck=ck: f._blocks._extract_array(None, ck))
            add(f'tb.extract_array[0,{ck!r}]', lambda f, ck=ck: f._blocks._extract_array(0, ck))
    # ---- label selection
    add('getitem[a]', lambda f: f['a'])
    if m:
        add('getitem[last]', lambda f: f[L[-1]])
        add('getitem[list-rev]', lambda f: f[list(L[::-1])])
        add('getitem[slice]', lambda f: f[L[0]:L[-1]])
        add('getitem[mask]', lambda f: f[f.columns.values != L[0]])
        add('loc[:,list]', lambda f: f.loc[:, [L[-1], L[0]]])
        add('loc[:,b:]', lambda f: f.loc[:, 'b':])
        add('get', lambda f: f.get(L[-1]))
    add('get-missing', lambda f: f.get('zz', 5))
    if n:
        add('loc[row]', lambda f: f.loc[R[-1]])
        add('loc[row,col]', lambda f: f.loc[R[0], L[-1]] if m else f.loc[R[0]])
        add('loc[rows,cols]', lambda f: f.loc[[R[-1], R[0]], list(L[1:])])
    add('loc[missing]', lambda f: f.loc['zz'])
    add('loc[:,missing]', lambda f: f.loc[:, 'zz'])
    add('head1', lambda f: f.head(1))
    add('tail2', lambda f: f.tail(2))
    add('bloc', lambda f: f.bloc[f.notna()])
    add('bloc-eq', lambda f: f.bloc[f == f.iloc[0, 0]] if n and m else f.bloc[f.isna()])

    # ---- cellwise / per-block maps
    add('isna', lambda f: f.isna())
    add('notna', lambda f: f.notna())
    add('neg', lambda f: -f)
    add('pos', lambda f: +f)
    add('abs', lambda f: abs(f))
    add('invert', lambda f: ~f)
    add('round', lambda f: round(f, 0))
    for name, fn in (('add1', lambda f: f + 1), ('radd1', lambda f: 1 + f), ('mul2', lambda f: f * 2), ('sub', lambda f: 2 - f),
                     ('div', lambda f: f / 2), ('floordiv', lambda f: f // 2), ('mod', lambda f: f % 2), ('pow', lambda f: f ** 2),
                     ('eq', lambda f: f == 11), ('ne', lambda f: f != 11), ('lt', lambda f: f < 12), ('ge', lambda f: f >= 12),
                     ('and', lambda f: f & True), ('or', lambda f: f | False), ('addstr', lambda f: f + 'z'), ('eqstr', lambda f: f == 'x0'),
                     ('eqNone', lambda f: f == None)):  # noqa: E711
        add('op:' + name, fn)
    add('op:mul-series', lambda f: f * sf.Series(range(1, m + 1), index=L))
    add('op:add-series-partial', lambda f: f + sf.Series((1, 2), index=('b', 'zz')))
    add('op:add-array-row', lambda f: f + np.arange(m))
    add('op:mul-array2d', lambda f: f * np.arange(n * m).reshape(n, m))
    add('op:self+self', lambda f: f + f)
    add('op:self==self', lambda f: f == f)
    add('op:self-T', lambda f: f - f.T)
    add('isin', lambda f: f.isin((11, 'x0', 21.0, None)))
    add('isin-empty', lambda f: f.isin(()))
    add('clip', lambda f: f.clip(lower=11, upper=22))
    add('clip-lower', lambda f: f.clip(lower=12))
    for dt in ('float64', 'object', 'str', 'int64', 'bool'):
        add(f'astype({dt})', lambda f, dt=dt: f.astype(dt))
    if m:
        add('astype[a](float)', lambda f: f.astype['a'](float))
        add('astype[last](object)', lambda f: f.astype[L[-1]](object))
        add('astype[b:](float)', lambda f: f.astype['b':](float))
        add('astype[list](str)', lambda f: f.astype[[L[-1], L[0]]](str))
        add('astype[mask](object)', lambda f: f.astype[f.columns.values != 'b'](object))
        add('astype(dict)', lambda f: f.astype({L[-1]: object, 'a': float}))
        add('astype(seq)', lambda f: f.astype([object if j % 2 else float for j in range(m)]))
    add('via_str.upper', lambda f: f.via_str.upper())
    add('via_dt.year', lambda f: f.via_dt.year)

    # ---- missing values
    add('fillna(0)', lambda f: f.fillna(0))
    add('fillna(str)', lambda f: f.fillna('q'))
    for ax in (0, 1):
        add(f'fillna_forward{ax}', lambda f, ax=ax: f.fillna_forward(axis=ax))
        add(f'fillna_backward{ax}', lambda f, ax=ax: f.fillna_backward(axis=ax))
        add(f'fillna_forward{ax}-limit1', lambda f, ax=ax: f.fillna_forward(1, axis=ax))
        add(f'fillna_leading{ax}', lambda f, ax=ax: f.fillna_leading(-1, axis=ax))
        add(f'fillna_trailing{ax}', lambda f, ax=ax: f.fillna_trailing(-1, axis=ax))
        add(f'dropna{ax}-any', lambda f, ax=ax: f.dropna(axis=ax, condition=np.any))
        add(f'dropna{ax}-all', lambda f, ax=ax: f.dropna(axis=ax, condition=np.all))
        add(f'count{ax}', lambda f, ax=ax: f.count(axis=ax))

    # ---- shift / roll
    for k in (0, 1, -1, 2, -2, m, m + 1, -m - 1, n, n + 1):
        add(f'roll(cols={k})', lambda f, k=k: f.roll(columns=k))
        add(f'roll(cols={k},labels)', lambda f, k=k: f.roll(columns=k, include_columns=True))
        add(f'shift(cols={k})', lambda f, k=k: f.shift(columns=k))
        add(f'roll(rows={k})', lambda f, k=k: f.roll(index=k))
        add(f'shift(rows={k})', lambda f, k=k: f.shift(index=k))
    add('roll(1,1)', lambda f: f.roll(1, 1))
    add('roll(-1,2)', lambda f: f.roll(-1, 2))
    add('shift(1,-1)', lambda f: f.shift(1, -1))
    add('shift(-1,2,fill)', lambda f: f.shift(-1, 2, fill_value=0))
    add('shift(cols=1,fill=str)', lambda f: f.shift(columns=1, fill_value='s'))

    # ---- reductions
    for name in ('sum', 'prod', 'min', 'max', 'mean', 'median', 'std', 'var', 'all', 'any', 'cumsum', 'cumprod'):
        for ax in (0, 1):
            add(f'{name}{ax}', lambda f, name=name, ax=ax: getattr(f, name)(axis=ax))
        add(f'{name}0-noskipna', lambda f, name=name: getattr(f, name)(axis=0, skipna=False))
    for name in ('loc_min', 'loc_max', 'iloc_min', 'iloc_max'):
        for ax in (0, 1):
            add(f'{name}{ax}', lambda f, name=name, ax=ax: getattr(f, name)(axis=ax))
    add('cov', lambda f: f.cov())

    # ---- sorting, duplicates, sets
    if m:
        add('sort_values[a]', lambda f: f.sort_values('a'))
        add('sort_values[last]desc', lambda f: f.sort_values(L[-1], ascending=False))
        add('sort_values[list]', lambda f: f.sort_values([L[-1], 'a']))
    if n:
        add('sort_values[row]axis0', lambda f: f.sort_values(R[0], axis=0))
    add('sort_index-desc', lambda f: f.sort_index(ascending=False))
    add('sort_columns-desc', lambda f: f.sort_columns(ascending=False))
    for ax in (0, 1):
        add(f'duplicated{ax}', lambda f, ax=ax: f.duplicated(axis=ax))
        add(f'drop_duplicated{ax}', lambda f, ax=ax: f.drop_duplicated(axis=ax))
        add(f'unique{ax}', lambda f, ax=ax: f.unique(axis=ax))
    add('unique', lambda f: f.unique())

    # ---- functional update (selection semantics belong to C04/C08; here only transparency)
    if m:
        add('drop[a]', lambda f: f.drop['a'])
        add('drop[last]', lambda f: f.drop[L[-1]])
        add('drop[list]', lambda f: f.drop[[L[-1], 'a']])
        add('drop[b:]', lambda f: f.drop['b':])
        add('drop.iloc[:,1:3]', lambda f: f.drop.iloc[:, 1:3])
        add('drop.iloc[:,::-2]', lambda f: f.drop.iloc[:, ::-2])
        add('drop.iloc[0,[0]]', lambda f: f.drop.iloc[0, [0]])
        add('drop.iloc[mask]', lambda f: f.drop.iloc[:, [j % 2 == 0 for j in range(m)]])
        add('drop.iloc[0]', lambda f: f.drop.iloc[0])
        add('drop.iloc[-1:]', lambda f: f.drop.iloc[-1:])
        add('mask[a]', lambda f: f.mask['a'])
        add('mask.iloc[0,1:]', lambda f: f.mask.iloc[0, 1:])
        add('mask.iloc[:,::-2]', lambda f: f.mask.iloc[:, ::-2])
        add('mask.loc[list]', lambda f: f.mask.loc[:, [L[-1], 'a']])
        add('masked_array[a]', lambda f: f.masked_array['a'])
        add('assign[a](0)', lambda f: f.assign['a'](0))
        add('assign[last](str)', lambda f: f.assign[L[-1]]('w'))
        add('assign[list](1.5)', lambda f: f.assign[[L[-1], 'a']](1.5))
        add('assign.iloc[0,1:](None)', lambda f: f.assign.iloc[0, 1:](None))
        add('assign.iloc[:,::-2](-5)', lambda f: f.assign.iloc[:, ::-2](-5))
        add('assign.iloc[-1](7)', lambda f: f.assign.iloc[-1](7))
        add('assign.iloc[:,1:3](array)', lambda f: f.assign.iloc[:, 1:3](np.arange(n * len(range(m)[1:3])).reshape(n, len(range(m)[1:3]))))
        add('assign[a](series)', lambda f: f.assign['a'](sf.Series(range(n), index=R[::-1])))
        add('assign.loc[:,b:](frame)', lambda f: f.assign.loc[:, 'b':](f.loc[:, 'b':] * 2))
        add('assign.bloc(0)', lambda f: f.assign.bloc[f.isna()](0))
        add('assign.bloc(frame)', lambda f: f.assign.bloc[f.notna()](f.astype(str)))
        add('assign[a].apply', lambda f: f.assign['a'].apply(lambda s: s.astype(str)))
    # ---- relabel / reindex / index manipulation
    add('relabel', lambda f: f.relabel(index=lambda x: x + '!', columns=lambda x: x.upper()))
    add('relabel-auto', lambda f: f.relabel(sf.IndexAutoFactory, sf.IndexAutoFactory))
    add('relabel_flat', lambda f: f.relabel_flat(index=True, columns=True))
    add('relabel_level_add', lambda f: f.relabel_level_add(index='I', columns='C'))
    add('relabel_shift_in', lambda f: f.relabel_shift_in('a', axis=0))
    add('relabel_shift_out', lambda f: f.relabel_shift_out(0, axis=0))
    add('rename', lambda f: f.rename('other'))
    add('reindex-cols', lambda f: f.reindex(columns=('c', 'zz', 'a'), fill_value=0))
    add('reindex-cols-nan', lambda f: f.reindex(columns=list(L[::-1]) + ['zz']))
    add('reindex-rows', lambda f: f.reindex(index=('q', 'zz', 'p'), fill_value=-1))
    add('reindex-both', lambda f: f.reindex(index=R[::-1], columns=L[::-1]))
    add('set_index[a]', lambda f: f.set_index('a'))
    add('set_index[a]drop', lambda f: f.set_index('a', drop=True))
    add('set_index_hierarchy', lambda f: f.set_index_hierarchy(['a', 'b'], drop=True))
    add('unset_index', lambda f: f.unset_index())
    add('insert_after', lambda f: f.insert_after('a', sf.Series(range(n), index=R, name='new')))
    add('insert_before', lambda f: f.insert_before(L[-1] if m else 'a', f.iloc[:, :2].relabel(columns=('n1', 'n2')[:min(m, 2)])))
    add('sample', lambda f: f.sample(2, 2, seed=3))
    add('rehierarch-err', lambda f: f.rehierarch((0,)))

    # ---- conversions / copies / comparisons
    add('to_frame_go', lambda f: f.to_frame_go())
    add('to_frame_he', lambda f: f.to_frame_he())
    add('to_frame', lambda f: f.to_frame())
    add('Frame(f)', lambda f: sf.Frame(f))
    add('hash-he', lambda f: hash(f.to_frame_he()) == hash(f.to_frame_he()))
    add('go-append', lambda f: _go_append(f, n))
    add('go-extend', lambda f: _go_extend(f))
    add('equals-self', lambda f: f.equals(f))
    add('equals-copy', lambda f: (f.equals(sf.Frame(f.values, index=f.index, columns=f.columns, name=f.name)),
                                  f.equals(sf.Frame(f.values, index=f.index, columns=f.columns, name=f.name), compare_dtype=True)))
    add('to_csv', lambda f: _csv(f, 'to_csv'))
    add('to_tsv', lambda f: _csv(f, 'to_tsv'))
    add('to_html', lambda f: f.to_html())
    add('to_markdown', lambda f: _csv(f, 'to_markdown'))
    add('to_pandas', lambda f: _pandas(f))
    add('from_concat-self0', lambda f: sf.Frame.from_concat((f, f.relabel(index=lambda x: x + '2'))))
    add('from_concat-self1', lambda f: sf.Frame.from_concat((f, f.relabel(columns=lambda x: x + '2')), axis=1))
    add('iter_group[a]', lambda f: tuple(f.iter_group_items('a')))
    add('iter_window', lambda f: tuple(f.iter_window_items(size=2)))
    add('pivot', lambda f: f.pivot('a', 'b'))
    add('join_inner-self', lambda f: f.join_inner(f.relabel(columns=lambda x: x + '2'), left_depth_level=0, right_depth_level=0))
    add('pickle', lambda f: _pickle(f))
    add('deepcopy', lambda f: __import__('copy').deepcopy(f))
    return out


def _pandas(f):
    df = f.to_pandas()
    return (tuple(df.index), tuple(df.columns), tuple(str(d) for d in df.dtypes), tuple(tuple(_scalar_py(x) for x in df[c].tolist()) for c in df.columns))


def _scalar_py(x):
    try:
        return _scalar(x)
    except TypeError:
        return ('repr', repr(x))


def _pickle(f):
    import pickle
    return pickle.loads(pickle.dumps(f))


def _go_append(f, n):
    g = f.to_frame_go()
    g['new'] = np.arange(n) * 0.5
    g['new2'] = 'k'
    return g, g.values


def _go_extend(f):
    g = f.to_frame_go()
    g.extend(f.relabel(columns=lambda x: x + '2'))
    return g, g.values


def cases(ctx):
    return
    yield
